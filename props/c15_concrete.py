"""C15 — executable twin: every annotation of the constructor grammar yields working routines (bounded).

Grammar: leaves (scalars, Any, object, bare and typing-spelled unparameterised generics, TypeVars free / bound /
constrained, Callable forms, type[X], user Generic classes bare and parameterised, classes without hints) closed
under the constructors list / dict / tuple-variadic / tuple-fixed / Optional / set / Union / Mapping / repeated
variadic tuples / dataclass fields.  Exhaustive to depth 2 (quick: depth 2 over the leaves, one partner; thorough:
all partner pairs and a depth-3 sample).  A case is a JSON path into the grammar, so failures are replayable.
"""
from __future__ import annotations

import collections.abc
import dataclasses
import datetime
import decimal
import random
import signal
import typing
import uuid
import warnings

from props.concrete_util import clear_typelib_caches

T = typing.TypeVar("T")
TB = typing.TypeVar("TB", bound=int)
TC = typing.TypeVar("TC", int, str)


class Box(typing.Generic[T]):
    item: T

    def __init__(self, item: T = None):
        self.item = item

    def __eq__(self, other):
        return type(other) is Box and other.item == self.item

    __hash__ = None


@dataclasses.dataclass
class DBox(typing.Generic[T]):
    item: T = None


class NoHints:
    def __eq__(self, other):
        return type(other) is NoHints


@dataclasses.dataclass
class P:
    x: int


def _f(*a, **k):
    return 0


def _local_twice():
    # (built with make_dataclass so that the annotations are the types themselves, not text: this module postpones annotations)
    Foo = dataclasses.make_dataclass("Foo", [("x", int, 0)])
    Foo.__qualname__ = "_local_twice.<locals>.Foo"
    Holder = dataclasses.make_dataclass("Holder", [("a", Foo | None, None), ("b", Foo | None, None)])
    Holder.__qualname__ = "_local_twice.<locals>.Holder"
    return Holder, Foo


_LT_HOLDER, _LT_FOO = _local_twice()


_OBJ = object()
D = datetime.date(2020, 1, 2)
PASS = "pass-through"
# leaf: name -> (annotation, wire sample, expected python after unmarshal (PASS = the very same object), marshalled form of expected)
LEAVES = {
    "int": (int, "5", 5, 5), "str": (str, "a", "a", "a"), "float": (float, "1.5", 1.5, 1.5), "bool": (bool, True, True, True),
    "bytes": (bytes, b"x", b"x", b"x"), "None": (type(None), None, None, None),
    "date": (datetime.date, "2020-01-02", D, "2020-01-02"), "Decimal": (decimal.Decimal, "1.5", decimal.Decimal("1.5"), "1.5"),
    "UUID": (uuid.UUID, "12345678-1234-5678-1234-567812345678", uuid.UUID("12345678-1234-5678-1234-567812345678"), "12345678-1234-5678-1234-567812345678"),
    "Any": (typing.Any, _OBJ, PASS, PASS), "object": (object, _OBJ, PASS, PASS),
    "T": (T, _OBJ, PASS, PASS), "TB": (TB, None, None, None),
    "Callable": (typing.Callable, _f, PASS, PASS), "Callable[...,int]": (typing.Callable[..., int], _f, PASS, PASS),
    "Callable[[int],str]": (typing.Callable[[int], str], _f, PASS, PASS), "abc.Callable[[int],str]": (collections.abc.Callable[[int], str], _f, PASS, PASS),
    "type[int]": (type[int], int, PASS, PASS), "typing.Type": (typing.Type, int, PASS, PASS), "type": (type, int, PASS, PASS),
    "list": (list, [1, "a"], [1, "a"], [1, "a"]), "dict": (dict, {"a": 1}, {"a": 1}, {"a": 1}), "tuple": (tuple, [1, "a"], (1, "a"), [1, "a"]),
    "set": (set, [1], {1}, None), "typing.List": (typing.List, [1, "a"], [1, "a"], [1, "a"]), "typing.Dict": (typing.Dict, {"a": 1}, {"a": 1}, {"a": 1}),
    "typing.Tuple": (typing.Tuple, [1], (1,), [1]), "typing.Sequence": (typing.Sequence, None, None, None), "typing.Mapping": (typing.Mapping, None, None, None),
    # user generics, bare and parameterised: the TypeVar-typed position passes its value through, the routine *works*
    "Box[int]": (Box[int], {"item": "1"}, Box("1"), {"item": "1"}), "Box": (Box, {"item": "1"}, Box("1"), {"item": "1"}),
    "DBox[int]": (DBox[int], {"item": "1"}, DBox("1"), {"item": "1"}), "DBox": (DBox, {"item": "1"}, DBox("1"), {"item": "1"}),
    "NoHints": (NoHints, {}, NoHints(), None), "P": (P, {"x": "1"}, P(1), {"x": 1}),
    "Literal": (typing.Literal[1, "a"], "a", "a", "a"), "tuple[int,...]": (tuple[int, ...], ["1", 2], (1, 2), [1, 2]),
    "tuple[()]": (tuple[()], [], (), []), "Optional[int]": (typing.Optional[int], "5", 5, 5), "int|str": (int | str, "a", "a", "a"),
    "TC": (TC, None, None, None),
    # a class defined inside a function, used twice through a PEP 604 union (the second use is a deferred node named by text)
    "LocalTwice": (_LT_HOLDER, {"a": {"x": "1"}, "b": {"x": "2"}}, _LT_HOLDER(_LT_FOO(1), _LT_FOO(2)), {"a": {"x": 1}, "b": {"x": 2}}),
}


def _mk_dc(a, order):
    fields = [("days", tuple[a, ...]), ("by_name", dict[str, tuple[a, ...]])]
    if order:
        fields.reverse()
    return dataclasses.make_dataclass("Plan", fields)


# constructor: name -> (build(a, b), wire(wa, wb), expected(ea, eb), marshalled(ma, mb))
def _same(x):
    return x


CONS = {
    "list": (lambda a, b: list[a], lambda wa, wb: [wa, wa], lambda ea, eb: [ea, ea], lambda ma, mb: [ma, ma]),
    "dict": (lambda a, b: dict[str, a], lambda wa, wb: {"k": wa}, lambda ea, eb: {"k": ea}, lambda ma, mb: {"k": ma}),
    "tuple...": (lambda a, b: tuple[a, ...], lambda wa, wb: [wa], lambda ea, eb: (ea,), lambda ma, mb: [ma]),
    "tuple2": (lambda a, b: tuple[a, b], lambda wa, wb: [wa, wb], lambda ea, eb: (ea, eb), lambda ma, mb: [ma, mb]),
    "Optional": (lambda a, b: typing.Optional[a], lambda wa, wb: wa, lambda ea, eb: ea, lambda ma, mb: ma),
    "Mapping": (lambda a, b: typing.Mapping[str, a], lambda wa, wb: {"k": wa}, lambda ea, eb: {"k": ea}, lambda ma, mb: {"k": ma}),
    "List": (lambda a, b: typing.List[a], lambda wa, wb: [wa], lambda ea, eb: [ea], lambda ma, mb: [ma]),
    "reuse-shallow-first": (lambda a, b: tuple[tuple[a, ...], list[tuple[a, ...]]], lambda wa, wb: [[wa], [[wa, wa]]],
                            lambda ea, eb: ((ea,), [(ea, ea)]), lambda ma, mb: [[ma], [[ma, ma]]]),
    "reuse-deep-first": (lambda a, b: tuple[dict[str, tuple[a, ...]], tuple[a, ...]], lambda wa, wb: [{"k": [wa]}, [wa]],
                         lambda ea, eb: ({"k": (ea,)}, (ea,)), lambda ma, mb: [{"k": [ma]}, [ma]]),
    "two-variadic": (lambda a, b: tuple[tuple[a, ...], tuple[b, ...]], lambda wa, wb: [[wa], [wb]], lambda ea, eb: ((ea,), (eb,)), lambda ma, mb: [[ma], [mb]]),
    "set": (lambda a, b: set[a], None, None, None),
    "Iterator": (lambda a, b: typing.Iterator[a], None, None, None),
    "Union3": (lambda a, b: typing.Union[a, b, None], None, None, None),
}


class _Timeout(Exception):
    pass


def _alarm(_s, _f):
    raise _Timeout()


def with_timeout(f, seconds=10):
    old = signal.signal(signal.SIGALRM, _alarm)
    signal.alarm(seconds)
    try:
        return f()
    finally:
        signal.alarm(0)
        signal.signal(signal.SIGALRM, old)


def build(case):
    """case: ["leaf", name] | ["cons", cname, case_a, case_b] | ["dc", case_a, order]  ->  (annotation, wire, expected, marshalled)
    wire is None when no behaviour sample exists for the case (construction only)."""
    if case[0] == "leaf":
        return LEAVES[case[1]]
    if case[0] == "dc":
        a, wa, ea, ma = build(case[1])
        cls = _mk_dc(a, case[2])
        if wa is None or ea is None:
            return cls, None, None, None
        return cls, {"days": [wa], "by_name": {"k": [wa]}}, ("dc", ea), ({"days": [ma], "by_name": {"k": [ma]}} if ma is not None else None)
    _, cname, ca, cb = case
    a, wa, ea, ma = build(ca)
    b, wb, eb, mb = build(cb)
    mk, w, e, m = CONS[cname]
    t = mk(a, b)
    if w is None or wa is None or wb is None or ea is None or eb is None:
        return t, None, None, None
    return t, w(wa, wb), e(ea, eb), (m(ma, mb) if ma is not None and mb is not None else None)


def _match(got, want, wire):
    """structural comparison where PASS leaves must be the very object of the wire value"""
    if want is PASS:
        return got is wire
    if isinstance(want, tuple) and len(want) == 2 and want[0] == "dc":
        return (dataclasses.is_dataclass(got) and _match(getattr(got, "days"), (want[1],), wire["days"])
                and _match(getattr(got, "by_name"), {"k": (want[1],)}, wire["by_name"]))
    if isinstance(want, (list, tuple)) and type(got) is type(want) and isinstance(wire, (list, tuple)):
        return len(got) == len(want) == len(wire) and all(_match(g, w, x) for g, w, x in zip(got, want, wire))
    if isinstance(want, dict) and isinstance(got, dict) and isinstance(wire, dict):
        return got.keys() == want.keys() and all(_match(got[k], want[k], wire[k]) for k in want)
    return type(got) is type(want) and got == want


def hashable(t):
    try:
        hash(t)
        return True
    except TypeError:
        return False


def run_case(case):
    """-> None if the statement holds for this annotation, else a description"""
    import typelib
    with warnings.catch_warnings():
        warnings.simplefilter("ignore")
        try:
            t, wire, want, marsh = build(case)
        except TypeError:
            return None                      # typing itself rejects this combination: not a valid annotation
        if not hashable(t):
            return None
        routines = {}
        for phase in ("first", "again", "after-clear"):
            if phase == "after-clear":
                clear_typelib_caches()
            for name, f in (("unmarshaller", typelib.unmarshaller), ("marshaller", typelib.marshaller), ("codec", typelib.codec)):
                try:
                    r = with_timeout(lambda: f(t))
                except _Timeout:
                    return f"{name}({t!r}) did not return within 10 s ({phase})"
                except RecursionError:
                    return f"{name}({t!r}) recursed without bound ({phase})"
                except BaseException as e:
                    return f"{name}({t!r}) raised {type(e).__name__}: {e} ({phase})"[:300]
                k = type(r).__name__
                if routines.setdefault(name, k) != k:
                    return f"{name}({t!r}) is a {k} on the {phase} build but was a {routines[name]}"
            if case[0] == "leaf" and case[1] in ("T", "TB", "TC"):
                # a type variable used as an annotation in its own right (not as a generic argument) cannot be resolved: pass-through
                try:
                    if with_timeout(lambda: typelib.unmarshal(t, _OBJ)) is not _OBJ or with_timeout(lambda: typelib.marshal(_OBJ, t=t)) is not _OBJ:
                        return f"{t!r} at the root does not pass an arbitrary object through ({phase})"
                except BaseException as e:
                    return f"{t!r} at the root: pass-through raised {type(e).__name__}: {e} ({phase})"[:300]
            if wire is None:
                continue
            try:
                got = with_timeout(lambda: typelib.unmarshal(t, wire))
            except BaseException as e:
                return f"unmarshal({t!r}, {wire!r}) raised {type(e).__name__}: {e} ({phase})"[:300]
            if not _match(got, want, wire):
                return f"unmarshal({t!r}, {wire!r}) == {got!r}, expected {want!r} with unresolved positions passed through ({phase})"[:400]
            if marsh is not None:
                try:
                    back = with_timeout(lambda: typelib.marshal(got, t=t))
                except BaseException as e:
                    return f"marshal({got!r}, t={t!r}) raised {type(e).__name__}: {e} ({phase})"[:300]
                if not _match_m(back, marsh, got):
                    return f"marshal({got!r}, t={t!r}) == {back!r}, expected {marsh!r} ({phase})"[:400]
    return None


def _match_m(got, want, src):
    if want is PASS:
        return True                           # a passed-through position marshals as whatever the value is
    if isinstance(want, list) and isinstance(got, (list, tuple)):
        return len(got) == len(want) and all(_match_m(g, w, None) for g, w in zip(got, want))
    if isinstance(want, dict) and isinstance(got, dict):
        return got.keys() == want.keys() and all(_match_m(got[k], want[k], None) for k in want)
    return got == want


def cases(tier="quick", seed=0):
    rnd = random.Random(seed)
    names = list(LEAVES)
    out = [["leaf", n] for n in names]
    partners = ["int"] if tier == "quick" else ["int", "date", "Any", "T", "tuple[int,...]"]
    for c in CONS:
        for a in names:
            for b in partners:
                out.append(["cons", c, ["leaf", a], ["leaf", b]])
    for a in names:
        for order in (False, True):
            out.append(["dc", ["leaf", a], order])
    # depth 2 / 3 samples: constructors over constructors
    depth2 = [c for c in out if c[0] == "cons"]
    k2 = 250 if tier == "quick" else 2500
    for _ in range(k2):
        inner = rnd.choice(depth2)
        out.append(["cons", rnd.choice(list(CONS)), inner, ["leaf", rnd.choice(partners)]])
    if tier != "quick":
        d3 = [c for c in out if c[0] == "cons" and c[2][0] == "cons"]
        for _ in range(600):
            out.append(["cons", rnd.choice(list(CONS)), rnd.choice(d3), ["leaf", rnd.choice(partners)]])
            out.append(["dc", rnd.choice(d3), rnd.random() < 0.5])
    return out


def search(tier="quick", seed=0, stop_at=1):
    fails, n = [], 0
    for case in cases(tier, seed):
        n += 1
        r = run_case(case)
        if r:
            fails.append({"case": case, "violation": r})
            if len(fails) >= stop_at:
                break
    return fails, n


def run_recorded(rec):
    return run_case(rec["case"])
