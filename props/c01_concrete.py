"""C01 — executable twin: unmarshal(T, marshal(v, t=T)) restores v with the same classes at every position (bounded).

Universe: the shared pool (scalars incl. temporals / enums / literals, containers in every spelling, structured classes,
NewType / Final, recursive Node) and its closure under list / dict / Optional / variadic tuple / fixed tuple / dataclass-field
wrapping (one level quick, two levels thorough); adversarial strings (JSON-, number-, date-, None-looking)."""
from __future__ import annotations

import dataclasses
import typing
import warnings

from props import typepool as tp
from props.concrete_util import clear_typelib_caches

TRICKY_STR = ["1", "null", "[1]", '{"a": 1}', "2020-01-01", "true", "1.5", "", " ", "P1D", "None", "0x10", "1e3", "nan"]


def has_union(T):
    o = typing.get_origin(T)
    if o is typing.Union or getattr(o, "__name__", "") == "UnionType":
        return len([a for a in typing.get_args(T) if a is not type(None)]) > 1
    return any(has_union(a) for a in typing.get_args(T) if not isinstance(a, (str, int, type(None), list))) if typing.get_args(T) else False


def wrappers():
    def dc(t):
        return dataclasses.make_dataclass("Holder", [("item", t)])
    return {
        "id": (lambda t: t, lambda v: v),
        "list": (lambda t: list[t], lambda v: [v, v]),
        "dict": (lambda t: dict[str, t], lambda v: {"k": v}),
        "Optional": (lambda t: typing.Optional[t], lambda v: v),
        "tuple...": (lambda t: tuple[t, ...], lambda v: (v,)),
        "tuple2": (lambda t: tuple[int, t], lambda v: (7, v)),
        "dataclass": None,
    }


class Level(str, __import__("enum").Enum):
    ERROR = "err"
    ONE = "1"


class Prio(int, __import__("enum").Enum):
    LOW = 1
    HIGH = 2


def pool_cases():
    out = [(n, t, list(vs)) for n, t, vs in tp.pool()]
    out.append(("Level(str,Enum)", Level, [Level.ERROR, Level.ONE]))
    out.append(("Prio(int,Enum)", Prio, [Prio.LOW, Prio.HIGH]))
    out.append(("str(tricky)", str, list(TRICKY_STR)))
    out.append(("list[str](tricky)", list[str], [list(TRICKY_STR)]))
    out.append(("dict[str,str](tricky)", dict[str, str], [{s: s for s in TRICKY_STR}]))
    # literals holding a text and the value that text decodes to (the text member must come back as text)
    out.append(("Literal[1,'1']", typing.Literal[1, "1"], ["1", 1]))
    out.append(("Literal[None,'null']", typing.Literal[None, "null"], ["null", None]))
    out.append(("Literal[True,'true']", typing.Literal[True, "true"], ["true", True]))
    out.append(("Literal['7',7]", typing.Literal["7", 7], ["7", 7]))
    # None declared in the middle of a union whose earlier member stringifies anything
    import datetime
    import uuid
    out.append(("Union[UUID,None,date]", typing.Union[uuid.UUID, None, datetime.date],
                [None, uuid.UUID(int=7), datetime.date(2024, 2, 29)]))
    # several aware temporals denoting one instant at different UTC offsets inside one value: each keeps its own offset
    tz = lambda h, m=0: datetime.timezone(datetime.timedelta(hours=h, minutes=m))
    inst = datetime.datetime(2024, 3, 10, 12, 0, 0, 250, tzinfo=tz(0))
    same_instant = [inst, inst.astimezone(tz(-5)), inst.astimezone(tz(5, 30)), inst.astimezone(tz(-19))]
    out.append(("list[datetime](one instant, four offsets)", list[datetime.datetime], [same_instant, same_instant[::-1]]))
    times = [datetime.time(12, 0, tzinfo=tz(0)), datetime.time(7, 0, tzinfo=tz(-5)), datetime.time(17, 30, tzinfo=tz(5, 30))]
    out.append(("list[time](equal aware times, three offsets)", list[datetime.time], [times, times[::-1]]))
    return out


def check_one(T, v):
    import typelib
    try:
        m = typelib.marshal(v, t=T)
    except Exception as e:
        return f"marshal raised {type(e).__name__}: {e}"
    try:
        r = typelib.unmarshal(T, m)
    except Exception as e:
        return f"unmarshal(marshal(v)) raised {type(e).__name__}: {e} (wire {m!r})"
    if tp.same(r, v):
        return None
    if has_union(T):
        try:
            m2 = typelib.marshal(r, t=T)
        except Exception as e:
            return f"fixpoint: marshal(unmarshal(m)) raised {type(e).__name__}: {e}"
        if m2 == m:
            return None
        return f"neither round trip nor fixpoint: v={v!r} m={m!r} r={r!r} m2={m2!r}"
    return f"v={v!r} wire={m!r} came back as {r!r}"


def run_case(case):
    """case: {'name': pool name, 'wrap': [wrapper names outer->inner], 'vi': value index}"""
    with warnings.catch_warnings():
        warnings.simplefilter("ignore")
        clear_typelib_caches()
        entry = [c for c in pool_cases() if c[0] == case["name"]]
        if not entry:
            return None
        _n, T, vs = entry[0]
        v = vs[case["vi"]]
        W = wrappers()
        for w in reversed(case["wrap"]):
            if w == "dataclass":
                cls = dataclasses.make_dataclass("Holder", [("item", T)])
                T, v = cls, cls(v)
            else:
                mk_t, mk_v = W[w]
                try:
                    T, v = mk_t(T), mk_v(v)
                except TypeError:
                    return None
        try:
            hash(T)
        except TypeError:
            return None
        r = check_one(T, v)
        return f"{T!r}: {r}"[:500] if r else None


def cases(tier="quick", seed=0):
    names = list(wrappers())
    out = []
    for n, _t, vs in pool_cases():
        for vi in range(len(vs)):
            for w in names:
                if w in ("set",):
                    continue
                out.append({"name": n, "wrap": [w], "vi": vi})
            if tier != "quick":
                for w1 in ("list", "dict", "Optional", "dataclass"):
                    for w2 in ("list", "dict", "tuple...", "tuple2", "dataclass"):
                        out.append({"name": n, "wrap": [w1, w2], "vi": vi})
    return out


@dataclasses.dataclass
class Small:
    x: int


@dataclasses.dataclass
class Big:
    x: int
    y: int


SEQUENCES = {
    "tuple3|tuple2": (typing.Union[tuple[int, int, int], tuple[int, int]], [(1, 2), (1, 2, 3), (4, 5), (6, 7, 8)]),
    "Big|Small": (typing.Union[Big, Small], [Small(1), Big(1, 2), Small(3), Big(4, 5)]),
    "list[Big|Small]": (list[typing.Union[Big, Small]], [[Small(1), Big(1, 2), Small(2)], [Big(3, 4)]]),
}


def run_sequence(name):
    """one routine, several values in a row (no cache clearing in between): each must round-trip on its own"""
    with warnings.catch_warnings():
        warnings.simplefilter("ignore")
        clear_typelib_caches()
        T, values = SEQUENCES[name]
        for v in values:
            r = check_one(T, v)
            if r:
                return f"{T!r} after {values[:values.index(v)]!r}: {r}"[:500]
    return None


def search(tier="quick", seed=0, stop_at=1):
    fails, n = [], 0
    for name in SEQUENCES:
        n += 1
        r = run_sequence(name)
        if r:
            fails.append({"case": {"sequence": name}, "violation": r})
            if len(fails) >= stop_at:
                return fails, n
    for case in cases(tier, seed):
        n += 1
        r = run_case(case)
        if r:
            fails.append({"case": case, "violation": r})
            if len(fails) >= stop_at:
                break
    return fails, n


def run_recorded(rec):
    if "sequence" in rec["case"]:
        return run_sequence(rec["case"]["sequence"])
    return run_case(rec["case"])
