"""Fixture classes for C17's get_type_hints clause (module level, annotations evaluated eagerly)."""
import dataclasses
import typing

T = typing.TypeVar("T")


@dataclasses.dataclass
class DC:
    a: int
    b: typing.Optional[str] = None


@dataclasses.dataclass
class KW:
    a: int
    _: dataclasses.KW_ONLY
    b: str = "x"


class NT(typing.NamedTuple):
    x: int
    y: list[str]


class TD(typing.TypedDict):
    k: int


class CV:
    kind: typing.ClassVar[str] = "k"
    y: int


@dataclasses.dataclass
class Box(typing.Generic[T]):
    item: T


class Init:
    def __init__(self, p: int, q="d"):
        self.p, self.q = p, q


class Unresolvable:
    z: "NoSuchName_C17"          # noqa: F821


def fn(a: int, b: str = "s") -> bool:
    return True
