"""C04, part 3 — the serdes entry points between the proved writer / the routines, and the marshal side.

* serdes.isoformat: dates and times are written by their own isoformat(), everything else goes
  to the duration writer that part 1 proves (so the writer proof is about what `isoformat` emits).
* serdes._nomalize_dt: a parsed instant is cut to the target class without touching offset or
  microseconds (time keeps the parsed tzinfo, datetime is the parsed value itself, date its date());
  a parsed value of another kind is returned only if it is an instance of the target.
* serdes.dateparse: a leading sign negates the parse of the rest; time targets are first read by the
  standard library (which keeps the offset); otherwise the text is parsed and normalised as above; only
  all-digit text falls back to the epoch reading.
* DateUnmarshaller.__call__: text goes through dateparse for the target class; numbers are read at UTC;
  a rebuilt value copies year / month / day.
* marshal side: what marshalling emits for a scalar *is* the canonical text / value
  (str(v), serdes.isoformat(v), member.value, pattern text, origin(v)).
* UUID / Pattern / Cast unmarshallers: text reaches the constructor unchanged (routing only; the
  standard library's own parse-back is assumed and sampled by the twin).
External calls are uninterpreted functions of their arguments (uf_world).
"""
from __future__ import annotations

import ast
import datetime
import re

import z3

from pyvc.core import (SV, SInt, SBool, Val, VNone, BoolS, Cls, to_val, cls_of, sub, cls_const, class_axioms, Unsupported, Stub)
from pyvc.driver import Ob
from pyvc.env import _MISSING
from pyvc.expr import SCls
from props import routine_world as rw
from props import uf_world as uw
from props.c04 import exp_call, attr, temporal_interp, _subterms, _decode_contract, _self, UN, SER, UTC

MA = "typelib.marshals.routines"
TEMPORAL = (datetime.date, datetime.datetime, datetime.time, datetime.timedelta)


def serdes_interp(keep=()):
    """temporal_interp + models for the few constructs dateparse needs; `keep` = serdes stubs to keep."""
    import pendulum
    I = temporal_interp()
    for nm in ("dateparse", "isoformat", "unixtime"):
        if nm not in keep:
            I.stubs.pop(f"typelib.serdes.{nm}", None)
    # text slicing: an uninterpreted function of (text, lo, hi)
    def slice_hook(I, path, obj, lo, hi):
        if isinstance(obj, SV):
            return uw.call_uf(I, path, "text.slice", [obj, lo, hi], {}, may_raise=False)
        raise Unsupported(f"slice of {obj!r}")
    I.hooks["slice"] = slice_hook
    orig_unary = I.e_UnaryOp

    def e_UnaryOp(node, env, path, merge):
        if isinstance(node.op, ast.USub):
            v = I.eval(node.operand, env, path, merge)
            if isinstance(v, SV):
                return uw.call_uf(I, path, "neg", [v], {}, may_raise=False)
        return orig_unary(node, env, path, merge)
    I.e_UnaryOp = e_UnaryOp
    I.builtin_models[datetime.time.fromisoformat] = lambda I, path, a, k: uw.call_uf(
        I, path, "time.fromisoformat", a, k, may_raise=True, result_cls=cls_const(datetime.time))
    I.builtin_models[pendulum.parse] = lambda I, path, a, k: uw.call_uf(I, path, "pendulum.parse", a, k, may_raise=True)
    return I


def _all(chk, func, names, pid, hy, goal, meta=None):
    for nm in names:
        chk.add(Ob(func, nm, pid, hy, goal, dict(meta or {})))


# ----------------------------------------------------------------------------- serdes.isoformat
def isoformat_dispatch(chk):
    """Dates, datetimes and times are written by their own isoformat() - and on the way there the value never passes
    through an equality-keyed cache (aware datetimes / times that denote the same instant at different UTC offsets are
    equal and hash alike, so a memoised function would hand one of them the other's text).  Durations: part 1."""
    I = serdes_interp()
    func = f"{SER}.isoformat"
    names = ["dates-and-times-are-written-by-their-own-isoformat",
             "dates-and-times-never-pass-through-an-equality-keyed-cache"]
    memo = {"cur": []}
    I.hooks["memo_call"] = lambda I, path, f, args, kwargs: memo["cur"].append(f.qualname)

    def mk(I, path):
        memo["cur"] = cur_memo = []
        for k in TEMPORAL:
            cls_const(k)
        dt = path.fresh("dt")
        own = z3.Or(sub(cls_of(dt), cls_const(datetime.date)), sub(cls_of(dt), cls_const(datetime.time)))
        path.assume(own)
        return [SV(dt)], {}, {"dt": dt, "memo": cur_memo}
    mod, chain, node = I.src.find_def(func)
    self_memoised = any("cache" in ast.unparse(d) for d in node.decorator_list)
    for pi, (path, out, obls, writes, cur) in enumerate(I.run_function(func, mk)):
        pid, hy = f"p{pi}", path.hyps + class_axioms()
        dt = cur["dt"]
        if out.kind != "ret":
            _all(chk, func, names, pid, hy, z3.BoolVal(False), {"outcome": out.kind, "engine": str(out.value)[:200]})
            continue
        r = to_val(out.value)
        chk.add(Ob(func, names[0], pid, hy, r == exp_call("method.isoformat", [SV(dt)])))
        chk.add(Ob(func, names[1], pid, hy, z3.BoolVal(not cur["memo"] and not self_memoised),
                   {"memoised_on_the_way": list(cur["memo"]) + (["isoformat itself"] if self_memoised else [])}))
    chk.trusted.update(I.assumed_used)


# ----------------------------------------------------------------------------- serdes._nomalize_dt
def _pend_dt():
    import pendulum
    return cls_const(pendulum.DateTime)


def norm_spec(parsed, T):
    """(raises: Bool, value: Val) of the statement's normalisation of a parsed value to target class T."""
    is_dt = sub(cls_of(parsed), _pend_dt())
    t_time, t_dtm, t_date = (sub(T, cls_const(k)) for k in (datetime.time, datetime.datetime, datetime.date))
    keep_time = exp_call("method.replace", [SV(exp_call("method.time", [SV(parsed)]))], {"tzinfo": SV(attr("tzinfo", parsed))})
    as_date = exp_call("method.date", [SV(parsed)])
    inst = sub(cls_of(parsed), T)
    cut = z3.And(is_dt, z3.Or(t_time, t_dtm, t_date))
    value = z3.If(z3.And(is_dt, t_time), keep_time, z3.If(z3.And(is_dt, t_dtm), parsed, z3.If(z3.And(is_dt, t_date), as_date, parsed)))
    raises = z3.And(z3.Not(cut), z3.Not(inst))
    return raises, value


def normalize_dt(chk):
    I = serdes_interp()
    func = f"{SER}._nomalize_dt"
    names = ["a-parsed-instant-is-cut-to-the-target-class-keeping-offset-and-microseconds",
             "any-other-parsed-value-is-returned-only-if-it-is-an-instance-of-the-target-else-ValueError"]

    def mk(I, path):
        for k in TEMPORAL + (str,):
            cls_const(k)
        _pend_dt()
        T = path.fresh("T", Cls)
        val, parsed = path.fresh("val"), path.fresh("parsed")
        return [], {"val": SV(val), "parsed": SV(parsed), "td": SCls(T)}, {"T": T, "parsed": parsed}
    for pi, (path, out, obls, writes, cur) in enumerate(I.run_function(func, mk)):
        pid, hy = f"p{pi}", path.hyps + class_axioms()
        T, parsed = cur["T"], cur["parsed"]
        raises, value = norm_spec(parsed, T)
        is_dt = sub(cls_of(parsed), _pend_dt())
        cut = z3.And(is_dt, z3.Or(*[sub(T, cls_const(k)) for k in (datetime.time, datetime.datetime, datetime.date)]))
        if out.kind == "unsupported":
            _all(chk, func, names, pid, hy, z3.BoolVal(False), {"engine": str(out.value)[:200]})
        elif out.kind == "raise":
            exc_ok = z3.BoolVal(True)
            if out.value is not None and not isinstance(out.value, type):
                exc_ok = sub(out.value, cls_const(ValueError))
            elif isinstance(out.value, type):
                exc_ok = z3.BoolVal(issubclass(out.value, ValueError))
            chk.add(Ob(func, names[0], pid, hy + [cut], z3.BoolVal(False), {"outcome": "raise"}))
            chk.add(Ob(func, names[1], pid, hy + [z3.Not(cut)], z3.And(raises, exc_ok), {"outcome": "raise"}))
        else:
            r = to_val(out.value)
            chk.add(Ob(func, names[0], pid, hy + [cut], r == value))
            chk.add(Ob(func, names[1], pid, hy + [z3.Not(cut)], z3.And(z3.Not(raises), r == parsed)))
    chk.trusted.update(I.assumed_used)


# ----------------------------------------------------------------------------- serdes.dateparse
def dateparse(chk):
    I = serdes_interp(keep=("dateparse",))          # the recursive call is taken by contract (a function of its arguments)
    func = f"{SER}.dateparse"
    names = ["a-leading-sign-negates-the-exact-microsecond-count-of-the-parse-of-the-rest",
             "time-targets-are-read-by-the-standard-library-first-which-keeps-the-offset",
             "otherwise-the-text-is-parsed-and-normalised-to-the-target-class",
             "only-all-digit-text-falls-back-to-the-epoch-reading-and-other-errors-surface"]

    def mk(I, path):
        for k in TEMPORAL + (str, ValueError):
            cls_const(k)
        _pend_dt()
        T = path.fresh("T", Cls)
        val = path.fresh("val")
        path.assume(cls_of(val) == cls_const(str))
        return [SV(val), SCls(T)], {}, {"T": T, "val": val}
    res = I.run_function(func, mk, max_paths=400)
    for pi, (path, out, obls, writes, cur) in enumerate(res):
        pid, hy = f"p{pi}", path.hyps + class_axioms()
        T, val = cur["T"], cur["val"]
        if out.kind == "unsupported":
            _all(chk, func, names, pid, hy, z3.BoolVal(False), {"engine": str(out.value)[:200]})
            continue
        signed = rw_truthy(exp_call("method.startswith", [SV(val), "-P"]))
        rest = exp_call("text.slice", [SV(val), 1, None])
        t_time = sub(T, cls_const(datetime.time))
        VE = cls_const(ValueError)
        std = exp_call("time.fromisoformat", [SV(val)])
        std_raises = uw.uf("time.fromisoformat!raises", 1, BoolS)(val)
        std_exc = uw.uf("time.fromisoformat!exc", 1, Cls)(val)
        std_rejects = z3.And(std_raises, sub(std_exc, VE))
        parsed = exp_call("pendulum.parse", [SV(val)])
        p_raises = uw.uf("pendulum.parse!raises", 1, BoolS)(val)
        p_exc = uw.uf("pendulum.parse!exc", 1, Cls)(val)
        n_raises, n_value = norm_spec(parsed, T)
        digits = z3.Or(rw_truthy(exp_call("method.isdigit", [SV(val)])), rw_truthy(exp_call("method.isdecimal", [SV(val)])))
        via_parse = z3.And(z3.Not(signed), z3.Or(z3.Not(t_time), std_rejects))
        parse_fails = z3.Or(z3.And(p_raises, sub(p_exc, VE)), z3.And(z3.Not(p_raises), n_raises))
        if out.kind == "ret":
            r = to_val(out.value)
            # exact negation: the negated *integer* count of microseconds of the parse of the rest (negating the parsed
            # pendulum.Duration itself goes through floats - fix 34f90b9's subject)
            inner = exp_call("serdes.dateparse", [SV(rest), SCls(T)])
            micros = uw.uf("exact_microseconds", 1)(inner)
            chk.add(Ob(func, names[0], pid, hy + [signed],
                       r == exp_call("datetime.timedelta", [], {"microseconds": SV(exp_call("neg", [SV(micros)]))})))
            chk.add(Ob(func, names[1], pid, hy + [z3.Not(signed), t_time, z3.Not(std_raises)], r == std))
            chk.add(Ob(func, names[2], pid, hy + [via_parse, z3.Not(p_raises), z3.Not(n_raises)], r == n_value))
            # a returned value on the fallback path: the text is all digits and the result mentions float(val) only
            fl = exp_call("float", [SV(val)])
            mentions = fl.get_id() in {t.get_id() for t in _subterms(r)}
            chk.add(Ob(func, names[3], pid, hy + [via_parse, parse_fails], z3.And(digits, z3.BoolVal(bool(mentions)))))
        else:   # raise
            # only the parse of the rest (or the timedelta constructor, which cannot for a negated in-range count) may raise
            inner = exp_call("serdes.dateparse", [SV(rest), SCls(T)])
            negm = exp_call("neg", [SV(uw.uf("exact_microseconds", 1)(inner))])
            chk.add(Ob(func, names[0], pid, hy + [signed],
                       z3.Or(uw.uf("serdes.dateparse!raises", 2, BoolS)(rest, uw.lower(SCls(T))),
                             uw.uf("datetime.timedelta[microseconds]!raises", 1, BoolS)(negm))))
            # the stdlib reader's non-ValueError errors surface; a ValueError never does (it falls through to the parser)
            chk.add(Ob(func, names[1], pid, hy + [z3.Not(signed), t_time, z3.Not(std_raises)], z3.BoolVal(False), {"outcome": "raise"}))
            chk.add(Ob(func, names[2], pid, hy + [via_parse, z3.Not(p_raises), z3.Not(n_raises)], z3.BoolVal(False), {"outcome": "raise"}))
            # raising on the fallback path: either the text is not all digits, or the epoch reading itself raised
            chk.add(Ob(func, names[3], pid, hy + [via_parse, parse_fails, digits],
                       z3.Or(uw.uf("float!raises", 1, BoolS)(val), uw.uf("datetime.fromtimestamp[tz]!raises", 2, BoolS)(
                           exp_call("float", [SV(val)]), uw.lower(UTC)),
                           uw.uf("datetime.timedelta[seconds]!raises", 1, BoolS)(exp_call("float", [SV(val)]))), {"outcome": "raise"}))
    chk.trusted.update(I.assumed_used)


def rw_truthy(v):
    from pyvc.core import to_bool_term
    return to_bool_term(SV(v))


# ----------------------------------------------------------------------------- DateUnmarshaller
def date_unmarshaller(chk):
    I = temporal_interp()
    func = f"{UN}.DateUnmarshaller.__call__"
    names = ["text-is-parsed-by-dateparse-for-the-target-class",
             "the-result-is-the-parsed-value-or-a-year-month-day-rebuild-of-it",
             "numbers-are-read-as-epoch-seconds-at-UTC"]

    def mk(I, path):
        for k in TEMPORAL + (int, float, str):
            cls_const(k)
        T = path.fresh("T", Cls)
        path.assume(sub(T, cls_const(datetime.date)))
        val = path.fresh("val")
        _decode_contract(path, val)
        # the instant a number is read as is a datetime.datetime: not bytes-like, so decode leaves it alone (C14)
        fts = exp_call("datetime.fromtimestamp", [SV(val)], {"tz": UTC})
        path.assume(cls_of(fts) == cls_const(datetime.datetime))
        _decode_contract(path, fts)
        path.assume(z3.Not(z3.Or(*[sub(cls_const(datetime.datetime), cls_const(k)) for k in (bytes, bytearray, memoryview, str, datetime.time)])))
        return [_self(I, path, "DateUnmarshaller", T), SV(val)], {}, {"T": T, "val": val}
    for pi, (path, out, obls, writes, cur) in enumerate(I.run_function(func, mk, max_paths=3000)):
        pid, hy = f"p{pi}", path.hyps + class_axioms()
        T, val = cur["T"], cur["val"]
        if out.kind == "unsupported":
            _all(chk, func, names, pid, hy, z3.BoolVal(False), {"engine": str(out.value)[:200]})
            continue
        if out.kind != "ret":
            _all(chk, func, names, pid, hy, z3.BoolVal(True), {"trivial": True})
            continue
        r = to_val(out.value)
        is_num = z3.Or(sub(cls_of(val), cls_const(int)), sub(cls_of(val), cls_const(float)))
        passthrough = z3.And(sub(cls_of(val), T), z3.Not(sub(cls_of(val), cls_const(datetime.datetime))))
        decoded = rw.decode_f(val)
        is_text = sub(cls_of(decoded), cls_const(str))
        parsed = exp_call("serdes.dateparse", [SV(decoded), SCls(T)])
        subs = {t.get_id() for t in _subterms(r)}
        # text: the value the result is made from is dateparse(decoded, T) - unless that was a time (documented: today)
        p_is_time = sub(cls_of(parsed), cls_const(datetime.time))
        rebuild = exp_call("construct", [SCls(T)], {"year": SV(attr("year", parsed)), "month": SV(attr("month", parsed)),
                                                     "day": SV(attr("day", parsed))})
        chk.add(Ob(func, names[0], pid, hy + [z3.Not(passthrough), z3.Not(is_num), is_text, z3.Not(p_is_time)],
                   z3.Or(r == parsed, r == rebuild)))
        # shape whitelist (any input): the input / parsed value itself, or construct[day,month,year](T, attr(src)...) of one source
        d = r.decl().name() if z3.is_app(r) else ""
        ok = r.num_args() == 0 or d.startswith(("serdes.dateparse", "decode", "datetime.fromtimestamp", "method.today"))
        if d.split("/")[0] == "construct[day,month,year]":
            args = r.children()[1:]
            srcs = {a.children()[0].get_id() for a in args if z3.is_app(a) and a.num_args() == 1}
            ok = (len(srcs) == 1 and [a.decl().name() for a in args] == ["attr_day/1", "attr_month/1", "attr_year/1"])
        chk.add(Ob(func, names[1], pid, hy, z3.BoolVal(bool(ok)), {"result": d}))
        fts = exp_call("datetime.fromtimestamp", [SV(val)], {"tz": UTC})
        chk.add(Ob(func, names[2], pid, hy + [is_num, z3.Not(passthrough)], z3.BoolVal(fts.get_id() in subs), {"result": str(r)[:160]}))
    chk.trusted.update(I.assumed_used)


# ----------------------------------------------------------------------------- marshal side: what is emitted
def leaf_marshallers(chk):
    import enum
    cases = (("ToStringMarshaller", object, "emits-str-of-the-value", lambda T, v: exp_call("str", [SV(v)])),
             ("ToISOTimeMarshaller", object, "emits-serdes.isoformat-of-the-value", lambda T, v: exp_call("serdes.isoformat", [SV(v)])),
             ("EnumMarshaller", enum.Enum, "emits-the-member's-value", lambda T, v: attr("value", v)),
             ("PatternMarshaller", re.Pattern, "emits-the-pattern-text", lambda T, v: attr("pattern", v)),
             ("CastMarshaller", object, "emits-the-value-cast-to-the-origin-class", lambda T, v: exp_call("construct", [SCls(T), SV(v)])),
             ("NoOpMarshaller", object, "emits-the-value-itself", lambda T, v: v))
    for clsname, base, nm, want in cases:
        I = temporal_interp()
        func = f"{MA}.{clsname}.__call__"

        def mk(I, path, clsname=clsname):
            T = path.fresh("T", Cls)
            val = path.fresh("val")
            t = SCls(T)
            # precondition (the statement is about valid values): an enum routine gets a member of its enum, the pattern
            # routine a compiled pattern - anything else is rejected (C06's clause)
            if clsname == "EnumMarshaller":
                path.assume(sub(cls_of(val), T))
            if clsname == "PatternMarshaller":
                path.assume(sub(cls_of(val), cls_const(re.Pattern)))
            me = rw.routine_self(I, MA, clsname, {"t": t, "origin": t, "context": rw.Ctx(path.fresh("ctx")), "var": None})
            return [me, SV(val)], {}, {"T": T, "val": val}
        for pi, (path, out, obls, writes, cur) in enumerate(I.run_function(func, mk)):
            pid, hy = f"p{pi}", path.hyps + class_axioms()
            if out.kind == "unsupported":
                chk.add(Ob(func, nm, pid, hy, z3.BoolVal(False), {"engine": str(out.value)[:200]}))
            elif out.kind != "ret":
                # only the converter itself may raise (str / isoformat / the cast); nothing is emitted then
                chk.add(Ob(func, nm, pid, hy, z3.BoolVal(clsname in ("ToStringMarshaller", "ToISOTimeMarshaller", "CastMarshaller")),
                           {"outcome": out.kind}))
            else:
                chk.add(Ob(func, nm, pid, hy, to_val(out.value) == want(cur["T"], cur["val"])))
        chk.trusted.update(I.assumed_used)


# ----------------------------------------------------------------------------- UUID / Pattern / Cast: text reaches the constructor
def _load_contract(path, val):
    """C14: serdes.load is the identity on values that are not text carriers."""
    tl = z3.Or(*[sub(cls_of(val), cls_const(k)) for k in (str, bytes, bytearray, memoryview)])
    path.assume(z3.Implies(z3.Not(tl), rw.load_f(val) == val))


def text_to_constructor(chk):
    import uuid
    # UUID
    I = temporal_interp()
    func = f"{UN}.UUIDUnmarshaller.__call__"
    names = ["an-integer-is-read-as-the-128-bit-value", "anything-else-decoded-reaches-the-constructor-unchanged"]

    def mk(I, path):
        for k in (int, str, bytes, bytearray, memoryview, uuid.UUID):
            cls_const(k)
        T = path.fresh("T", Cls)
        path.assume(sub(T, cls_const(uuid.UUID)))
        val = path.fresh("val")
        _load_contract(path, val)
        return [_self(I, path, "UUIDUnmarshaller", T), SV(val)], {}, {"T": T, "val": val}
    for pi, (path, out, obls, writes, cur) in enumerate(I.run_function(func, mk)):
        pid, hy = f"p{pi}", path.hyps + class_axioms()
        T, val = cur["T"], cur["val"]
        if out.kind == "unsupported":
            _all(chk, func, names, pid, hy, z3.BoolVal(False), {"engine": str(out.value)[:200]})
            continue
        if out.kind != "ret":
            _all(chk, func, names, pid, hy, z3.BoolVal(True), {"trivial": True})
            continue
        r = to_val(out.value)
        loaded = rw.load_f(val)
        is_int = sub(cls_of(loaded), cls_const(int))
        chk.add(Ob(func, names[0], pid, hy + [is_int], r == exp_call("construct", [SCls(T)], {"int": SV(loaded)})))
        chk.add(Ob(func, names[1], pid, hy + [z3.Not(is_int)],
                   z3.Or(z3.And(sub(cls_of(loaded), T), r == loaded), r == exp_call("construct", [SCls(T), SV(loaded)]))))
    chk.trusted.update(I.assumed_used)
    # Pattern
    I = temporal_interp()
    func = f"{UN}.PatternUnmarshaller.__call__"
    nm = "the-decoded-text-is-compiled-as-is"

    def mk2(I, path):
        for k in (str, bytes, bytearray, memoryview, re.Pattern):
            cls_const(k)
        T = path.fresh("T", Cls)
        path.assume(sub(T, cls_const(re.Pattern)))
        val = path.fresh("val")
        _decode_contract(path, val)
        return [_self(I, path, "PatternUnmarshaller", T), SV(val)], {}, {"T": T, "val": val}
    for pi, (path, out, obls, writes, cur) in enumerate(I.run_function(func, mk2)):
        pid, hy = f"p{pi}", path.hyps + class_axioms()
        if out.kind == "unsupported":
            chk.add(Ob(func, nm, pid, hy, z3.BoolVal(False), {"engine": str(out.value)[:200]}))
        elif out.kind != "ret":
            chk.add(Ob(func, nm, pid, hy, z3.BoolVal(True), {"trivial": True}))
        else:
            chk.add(Ob(func, nm, pid, hy, to_val(out.value) == exp_call("re.compile", [SV(rw.decode_f(cur["val"]))])))
    chk.trusted.update(I.assumed_used)


def cast_unmarshaller(chk):
    """CastUnmarshaller: the value handed to the caster is the decoded input, and - when that cast is refused with
    TypeError / ValueError and the input is a text carrier whose text differs from what it decodes to - the text itself
    (a path / enum value that merely reads as a number, fix ae1385a); nothing else is ever cast or returned."""
    I = temporal_interp()
    func = f"{UN}.CastUnmarshaller.__call__"
    names = ["the-result-is-the-input-the-decoded-value-or-a-cast-of-the-decoded-value-or-of-its-text",
             "the-text-itself-is-cast-only-after-the-decoded-value-was-refused"]

    def mk(I, path):
        for k in (str, bytes, bytearray, memoryview, TypeError, ValueError):
            cls_const(k)
        T = path.fresh("T", Cls)
        C = path.fresh("Caster", Cls)
        val = path.fresh("val")
        _load_contract(path, val)
        _decode_contract(path, val)
        t = SCls(T)
        me = rw.routine_self(I, UN, "CastUnmarshaller", {"t": t, "origin": t, "context": rw.Ctx(path.fresh("ctx")), "var": None,
                                                         "caster": SCls(C)})
        return [me, SV(val)], {}, {"T": T, "C": C, "val": val}
    for pi, (path, out, obls, writes, cur) in enumerate(I.run_function(func, mk, max_paths=2000)):
        pid, hy = f"p{pi}", path.hyps + class_axioms()
        T, C, val = cur["T"], cur["C"], cur["val"]
        if out.kind == "unsupported":
            _all(chk, func, names, pid, hy, z3.BoolVal(False), {"engine": str(out.value)[:200]})
            continue
        if out.kind != "ret":
            _all(chk, func, names, pid, hy, z3.BoolVal(True), {"trivial": True})
            continue
        r = to_val(out.value)
        loaded, text = rw.load_f(val), rw.decode_f(val)
        cast_loaded = exp_call("construct", [SCls(C), SV(loaded)])
        cast_text = exp_call("construct", [SCls(C), SV(text)])
        chk.add(Ob(func, names[0], pid, hy, z3.Or(r == val, z3.And(r == loaded, sub(cls_of(loaded), T)), r == cast_loaded, r == cast_text)))
        refused = z3.And(uw.uf("construct!raises", 2, BoolS)(uw.lower(SCls(C)), loaded),
                         z3.Or(*[sub(uw.uf("construct!exc", 2, Cls)(uw.lower(SCls(C)), loaded), cls_const(k)) for k in (TypeError, ValueError)]))
        chk.add(Ob(func, names[1], pid, hy + [r == cast_text, r != cast_loaded, r != val, r != loaded],
                   z3.And(refused, sub(cls_of(text), cls_const(str)))))
    chk.trusted.update(I.assumed_used)


def _covers(chk, before):
    """Vacuity guard: for every clause added since `before`, the hypotheses of at least one of its paths are satisfiable
    (a contradictory precondition would discharge everything).  A clause that already fails outright (goal `False`)
    needs no cover: it is reported as what it is."""
    from pyvc.driver import discharge
    seen = {}
    obs = [ob for ob in chk.obs[before:] if ob.expect == "unsat" and not ob.meta.get("trivial")]
    failing = {ob.key for ob in obs if z3.is_expr(ob.goal) and z3.is_false(ob.goal)}
    for ob in obs:
        if ob.key in seen or ob.key in failing:
            continue
        c = Ob(ob.func, "cover:" + ob.clause, ob.path_id, ob.hyps, z3.BoolVal(True), expect="sat")
        discharge(c)
        if c.result == "sat":
            seen[ob.key] = True
            chk.add(c)
    for ob in obs:
        if ob.key not in seen and ob.key not in failing:
            seen[ob.key] = False
            chk.add(Ob(ob.func, "cover:" + ob.clause, "none", [z3.BoolVal(False)], z3.BoolVal(True), expect="sat"))


def obligations(chk):
    before = len(chk.obs)
    _obligations(chk)
    _covers(chk, before)


def _obligations(chk):
    cast_unmarshaller(chk)
    isoformat_dispatch(chk)
    normalize_dt(chk)
    dateparse(chk)
    date_unmarshaller(chk)
    leaf_marshallers(chk)
    text_to_constructor(chk)
