"""C09 — executable twin: graph.static_order on synthesised class-graph topologies and the annotation pool (bounded).

It replays what the proof assumes rather than proves (termination, graphlib's order, `_level`'s callees, L1) and the
relational clause (string / ForwardRef / NewType / memoised inputs give the same sequence up to the root label).
Every case is rebuilt from a small JSON spec, so a failing case is a replayable input on the real code.
"""
from __future__ import annotations

import itertools
import random
import signal
import sys
import types
import typing
import warnings

from props.concrete_util import clear_typelib_caches

KINDS = {"self": "C{j}", "opt": "typing.Optional[C{j}]", "list": "list[C{j}]", "dict": "dict[str, C{j}]",
         "tup": "tuple[C{j}, ...]", "union": "C{j} | None", "tlist": "typing.List[C{j}]"}
STYLES = ("dataclass", "plain", "namedtuple", "typeddict")
ROOTS = ("cls", "list", "opt", "dict", "tup", "newtype", "text", "ref")
_n = itertools.count()


def source(spec):
    n, style = spec["n"], spec["style"]
    lines = ["from __future__ import annotations" if spec.get("future") else "", "import dataclasses, typing"]
    for i in range(n):
        deco, base = "", ""
        if style == "dataclass":
            deco = "@dataclasses.dataclass\n"
        elif style == "namedtuple":
            base = "(typing.NamedTuple)"
        elif style == "typeddict":
            base = "(typing.TypedDict)"
        body = ["    k: int"]
        for (a, b, kind) in spec["edges"]:
            if a == i:
                ann = KINDS[kind].format(j=b)
                body.append(f"    f{b}_{kind}: {ann!r}" if not spec.get("future") else f"    f{b}_{kind}: {ann}")
        lines.append(f"{deco}class C{i}{base}:\n" + "\n".join(body))
    return "\n".join(lines) + "\n"


SPECIALS = {
    "nested": ("import dataclasses, typing\nclass Outer:\n    @dataclasses.dataclass\n    class Inner:\n        v: int\n"
               "        nxt: 'typing.Optional[Outer.Inner]' = None\n    k: 'Outer.Inner'\n", ["Outer", "Outer.Inner"]),
    "shared-leaf": ("import dataclasses, typing\n@dataclasses.dataclass\nclass A:\n    x: int\n@dataclasses.dataclass\nclass B:\n    a1: A\n    a2: A\n    l: list[A]\n"
                    "    t: tuple[int | None, int | None, list[int | None]]\n", ["B", "A"]),
    "alias-string": ("import typing\nfrom typelib.py import compat\nTree = compat.TypeAliasType('Tree', 'dict[str, Tree]')\nclass H:\n    t: Tree\n", ["H", "Tree"]),
    "alias-mutual": ("import typing\ntype PA = QA | None\ntype QA = list[PA] | int\nclass H:\n    p: PA\n", ["PA", "QA", "H"]),
    "alias-union-plain": ("import typing\nfrom typelib.py import compat\nIA = compat.TypeAliasType('IA', typing.Union[int, str])\nclass H:\n    a: typing.Optional[IA]\n    b: typing.Optional[IA]\n", ["H", "IA"]),
    "alias-value": ("import typing\nfrom typelib.py import compat\nIntList = compat.TypeAliasType('IntList', list[int])\nclass H:\n    a: IntList\n    b: IntList\n", ["H", "IntList"]),
}


def build(spec):
    """-> (root annotation, module)"""
    name = f"c09_synth_{next(_n)}"
    mod = types.ModuleType(name)
    sys.modules[name] = mod
    if "special" in spec:
        src, names = SPECIALS[spec["special"]]
        src = src.replace("__MOD__", name)
        exec(compile(src, name, "exec"), mod.__dict__)
        obj = mod
        for part in names[spec.get("root_i", 0)].split("."):
            obj = getattr(obj, part)
        base = obj
    else:
        exec(compile(source(spec), name, "exec"), mod.__dict__)
        base = getattr(mod, f"C{spec.get('root_i', 0)}")
    rk = spec.get("root", "cls")
    if rk == "cls":
        root = base
    elif rk == "list":
        root = list[base]
    elif rk == "opt":
        root = typing.Optional[base]
    elif rk == "dict":
        root = dict[str, base]
    elif rk == "tup":
        root = tuple[base, ...]
    elif rk == "newtype":
        root = typing.NewType("NT", base)
        root.__module__ = name
    elif rk in ("text", "ref"):
        root = base
    else:
        raise ValueError(rk)
    return root, base, mod


class _Timeout(Exception):
    pass


def _alarm(_s, _f):
    raise _Timeout()


def with_timeout(f, seconds=5):
    old = signal.signal(signal.SIGALRM, _alarm)
    signal.alarm(seconds)
    try:
        return f()
    finally:
        signal.alarm(0)
        signal.signal(signal.SIGALRM, old)


def members(u):
    from typelib import graph, constants
    out = []
    for var, child in graph._level(u):
        if child is constants.empty or child is typing.Any:
            continue
        out.append((var, child))
    return out


def check_sequence(root, nodes):
    """-> list of violated clauses (strings) of the statement for static_order(root) == nodes"""
    from typelib.py import inspection, refs
    bad = []
    if not nodes:
        return ["empty sequence"]
    for i, a in enumerate(nodes):
        for b in nodes[i + 1:]:
            if a == b:
                bad.append(f"duplicate node {a!r}")
    last = nodes[-1]
    if last.type is not root and last.type != root:
        bad.append(f"last node {last!r} is not the root {root!r}")
    for i, n in enumerate(nodes):
        isref = isinstance(n.type, typing.ForwardRef)
        if isref != bool(n.cyclic):
            bad.append(f"node {n!r}: forward-reference ({isref}) and cyclic flag ({n.cyclic}) disagree")
        if n.cyclic:
            den = refs.evaluate(n.type)
            others = [m for m in nodes if m is not n and not m.cyclic]
            if not any(m.type == den or m.unwrapped == den or m.unwrapped == inspection.unwrap(den) for m in others):
                bad.append(f"flagged node {n!r} is not a revisit: {den!r} is no other node's type")
            continue
        u = inspection.unwrap(n.type)
        if n.unwrapped != u:
            bad.append(f"node {n!r}: unwrapped is not unwrap(type)")
        if inspection.isliteral(u) or inspection.isunresolvable(u):      # no member types to convert (values / pass-through)
            continue
        for var, child in members(u):
            ok = False
            for m in nodes[:i]:
                if m.var != var:
                    continue
                if not m.cyclic and (m.type is child or m.type == child):
                    ok = True
                elif m.cyclic and refs.evaluate(m.type) == child:
                    ok = True
                if ok:
                    break
            if not ok:
                bad.append(f"node {n.type!r} is not preceded by a node for its member {var}: {child!r}")
    return bad


def labels(nodes):
    return [(n.type, n.unwrapped, n.var, n.cyclic) for n in nodes]


def run_case(spec):
    """-> None if the statement holds for this case, else a description of the violation"""
    from typelib import graph
    from typelib.py import refs
    with warnings.catch_warnings():
        warnings.simplefilter("ignore")
        clear_typelib_caches()
        root, base, mod = build(spec)
        rk = spec.get("root", "cls")
        try:
            if rk == "text":
                arg = f"{mod.__name__}.{base.__qualname__}"
                ref = refs.forwardref(base.__qualname__, module=mod.__name__)
                nodes = with_timeout(lambda: list(graph.static_order(ref)))
            elif rk == "ref":
                ref = typing.ForwardRef(base.__qualname__.split(".")[-1] if "." not in base.__qualname__ else base.__qualname__, module=mod.__name__)
                nodes = with_timeout(lambda: list(graph.static_order(ref)))
            else:
                nodes = with_timeout(lambda: list(graph.static_order(root)))
        except _Timeout:
            return "static_order did not terminate within 5 s"
        except Exception as e:
            return f"static_order raised {type(e).__name__}: {e}"[:300]
        bad = check_sequence(base if rk in ("text", "ref") else root, nodes)
        if bad:
            return "; ".join(bad[:3])
        try:
            again = with_timeout(lambda: list(graph.static_order(root if rk not in ("text", "ref") else base)))
            it = with_timeout(lambda: list(graph.itertypes(root if rk not in ("text", "ref") else base)))
        except Exception as e:
            return f"second call raised {type(e).__name__}: {e}"[:300]
        if rk in ("text", "ref"):
            if labels(nodes) != labels(again):
                return f"reference input gives {labels(nodes)!r}, the evaluated type {labels(again)!r}"
        elif labels(again) != labels(nodes):
            return "memoised second call differs from the first"
        if sorted(map(repr, labels(it))) != sorted(map(repr, labels(again))) or labels(it)[-1] != labels(again)[-1]:
            return "itertypes and static_order disagree"
        if rk == "newtype":
            plain = with_timeout(lambda: list(graph.static_order(base)))
            if labels(plain)[:-1] != labels(nodes)[:-1] or plain[-1].unwrapped != nodes[-1].unwrapped:
                return f"NewType root gives {labels(nodes)!r}, its supertype {labels(plain)!r}"
        return None


def specs(tier="quick", seed=0):
    rnd = random.Random(seed)
    kinds = list(KINDS)
    out = [{"special": s, "root_i": i, "root": r} for s, (src, names) in SPECIALS.items() for i in range(len(names)) for r in ("cls", "list", "opt")]
    # n = 1: self loops of every kind, every style, every root
    for kind in kinds:
        for style in STYLES:
            for root in ROOTS:
                out.append({"n": 1, "edges": [[0, 0, kind]], "style": style, "root": root})
    # n = 2, 3: all edge subsets (n=2) / sampled (n=3,4) with kinds drawn per edge
    pairs2 = [(a, b) for a in range(2) for b in range(2)]
    for r in range(1, 5):
        for es in itertools.combinations(pairs2, r):
            for rep in range(2 if tier == "quick" else 6):
                out.append({"n": 2, "edges": [[a, b, rnd.choice(kinds)] for a, b in es], "style": rnd.choice(STYLES),
                            "root": rnd.choice(ROOTS), "root_i": rnd.randrange(2)})
    for n, count in ((3, 60 if tier == "quick" else 600), (4, 20 if tier == "quick" else 400)):
        pairs = [(a, b) for a in range(n) for b in range(n)]
        for _ in range(count):
            es = rnd.sample(pairs, rnd.randint(1, min(len(pairs), 2 * n)))
            out.append({"n": n, "edges": [[a, b, rnd.choice(kinds)] for a, b in es], "style": rnd.choice(STYLES),
                        "root": rnd.choice(ROOTS), "root_i": rnd.randrange(n), "future": rnd.random() < 0.2})
    return out


def pool_cases():
    """annotations of the shared type pool as roots (non-class universe U)"""
    from props import typepool
    return [t for _name, t, _values in typepool.pool()]


def check_assumptions():
    """L1 and the callee facts the proof assumes, over the pool: -> list of failures"""
    from typelib import graph
    from typelib.py import inspection
    bad = []
    seen = list(inspection.STDLIB_TYPES) + pool_cases() + [int | None, typing.Optional[int], int | str, typing.Union[int, str, None]]
    # unions reached through aliases (an alias-valued member is what it stands for)
    ns = {}
    exec("type PA = QA | None\ntype QA = list[PA] | int\ntype IA = int | str\ntype OA = IA | None\ntype LA = list[int]\ntype ULA = LA | None", ns)
    seen += [ns[k] for k in ("PA", "QA", "IA", "OA", "LA", "ULA")] + [typing.Optional[ns["IA"]], typing.Optional[ns["LA"]], ns["QA"] | None]
    from props.concrete_util import clear_typelib_caches
    for t in seen:
        try:
            clear_typelib_caches()          # cold answers: memoised predicates keyed by typing's equality must not leak between entries
            u = inspection.unwrap(t)
            if u is None and t is not None:
                bad.append(f"unwrap({t!r}) is None")
            if inspection.isstdlibtype(u) and not inspection.issubscriptedgeneric(u):
                for var, child in members(u):
                    cu = inspection.unwrap(child)
                    if not (inspection.isstdlibtype(cu) and not inspection.issubscriptedgeneric(cu)):
                        bad.append(f"L1: member {child!r} of plain stdlib type {u!r} is not a plain stdlib type")
                    if len(repr(cu)) >= len(repr(u)) and members(cu):
                        bad.append(f"L1: member {child!r} of {u!r} is not structurally smaller")
        except Exception as e:
            bad.append(f"{t!r}: {type(e).__name__}: {e}"[:200])
    return bad


def search(tier="quick", seed=0, stop_at=1):
    fails, n = [], 0
    for spec in specs(tier, seed):
        n += 1
        r = run_case(spec)
        if r:
            fails.append({"spec": spec, "violation": r})
            if len(fails) >= stop_at:
                return fails, n
    from typelib import graph
    for t in pool_cases():
        n += 1
        try:
            with warnings.catch_warnings():
                warnings.simplefilter("ignore")
                nodes = with_timeout(lambda: list(graph.static_order(t)))
            bad = check_sequence(t, nodes)
        except Exception as e:
            bad = [f"static_order raised {type(e).__name__}: {e}"]
        if bad:
            fails.append({"annotation": repr(t), "violation": "; ".join(bad[:3])})
            if len(fails) >= stop_at:
                return fails, n
    for b in check_assumptions():
        fails.append({"assumption": b, "violation": b})
    n += 1
    for b in early_inspection_case():
        fails.append({"history": "early-inspection", "violation": b})
    return fails, n


def early_inspection_case():
    """Call history: a class is inspected while its decorators run (its own name - and classes defined further down -
    are not bound yet), and a different annotation containing it is ordered later.  The later sequence must satisfy the
    statement: the earlier, necessarily incomplete answer for the class's members must not be reused."""
    import dataclasses
    import sys
    import types
    import typing
    from typelib import graph
    mod = types.ModuleType("c09_early_mod")
    sys.modules["c09_early_mod"] = mod
    seen = []

    def registry(cls):
        with warnings.catch_warnings():
            warnings.simplefilter("ignore")
            try:
                seen.append(list(graph.itertypes(cls)))
            except Exception:
                pass
        return cls
    mod.registry, mod.dataclasses, mod.typing = registry, dataclasses, typing
    src = ("@registry\n@dataclasses.dataclass\nclass Category:\n    name: str\n    parent: 'typing.Optional[Category]' = None\n\n"
           "@registry\n@dataclasses.dataclass\nclass Product:\n    sku: str\n    category: 'Category'\n    tags: 'list[Tag]'\n\n"
           "@dataclasses.dataclass\nclass Tag:\n    label: str\n")
    bad = []
    try:
        exec(compile(src, "c09_early_mod", "exec"), mod.__dict__)
        for cls in (mod.Category, mod.Product, mod.Tag):
            cls.__module__ = "c09_early_mod"
        for root in (typing.List[mod.Product], typing.Optional[mod.Category], typing.Dict[str, mod.Product]):
            try:
                with warnings.catch_warnings():
                    warnings.simplefilter("ignore")
                    nodes = with_timeout(lambda: list(graph.itertypes(root)))
                for b in check_sequence(root, nodes):
                    bad.append(f"after the class was inspected while being defined, itertypes({root!r}): {b}")
            except Exception as e:
                bad.append(f"itertypes({root!r}) raised {type(e).__name__}: {e}")
    finally:
        sys.modules.pop("c09_early_mod", None)
    return bad[:3]


def run_recorded(case):
    if case.get("history") == "early-inspection":
        return "; ".join(early_inspection_case()) or None
    if "spec" in case:
        return run_case(case["spec"])
    if "annotation" in case:
        from typelib import graph
        for t in pool_cases():
            if repr(t) == case["annotation"]:
                nodes = list(graph.static_order(t))
                return "; ".join(check_sequence(t, nodes)) or None
    if "assumption" in case:
        return case["assumption"] if case["assumption"] in check_assumptions() else None
    return None
