"""C19 check driver."""
from pyvc.driver import Check
from props import c19, c19_concrete

ASSUMPTIONS = [
    "Only the structural clauses S1-S5 are decided by contract. That instances of the new class are constructed, compared, hashed, repr'd, "
    "copied and pickled exactly like instances of the dataclass follows from S1-S4 only through CPython's class machinery (type(), slot "
    "descriptors, dataclass-generated methods closing over the original class): not expressible as a contract on typelib code; replayed by the "
    "twin on synthesised dataclasses (bounded).",
    "Contracts taken for expressions that are not executed symbolically (checked to be the expressions in the source): "
    "set().union(*(getattr(c, '__slots__', ()) for c in cls.mro())) is the set of names some class of the mro has a slot for; "
    "{f.name: ... for f in dataclasses.fields(cls) if f.name} is the ordered set of field names (non-empty identifiers); {**cls.__dict__} copies the namespace.",
    "cls.__class__(name, bases, namespace) (the metaclass call) returns the new class and does not raise for a plain-metaclass dataclass whose "
    "namespace satisfies S1-S2; if it raised, the guard would stay set (no try/finally in wrap): not reachable under this assumption; replayed by the twin.",
    "No dataclass field is named __slots__, __setstate__, __getstate__, __dict__ or __weakref__.",
    "History: `_stack` is empty between calls (S5 re-establishes it on every return), single-threaded.",
    "Observed deviation (not in the statement's list, not a finding): assigning a non-field attribute on a frozen slotted instance raises "
    "TypeError from the dataclass-generated __setattr__ (super(cls, self) with the original class) instead of FrozenInstanceError; the "
    "assignment is refused either way.",
]


WITNESSES = {"C19-init-false-default": c19_concrete.init_false_default_witness,
             "C19-zero-arg-super": c19_concrete.zero_arg_super_witness}


def searcher(ob):
    fails, n = c19_concrete.search("quick", 0, stop_at=1)
    if fails:
        return {"found": True, "kind": "c19-case", "case": fails[0], "searched": n}
    return {"found": False, "searched": n, "note": "no synthesised dataclass (0-5 fields, flags, bases, state methods, nesting) behaves differently once slotted (bounded)"}


def replay(data):
    case = data.get("case")
    if not case:
        print("replay: no concrete input recorded for", data.get("obligation"), str(data.get("solver"))[:300])
        return 1
    r = c19_concrete.run_recorded(case)
    print("replay", case, "->", r)
    return 1 if r else 0


def main(tier, seed):
    chk = Check("C19", tier, seed)
    chk.assumptions = list(ASSUMPTIONS)
    c19.obligations(chk)
    fails, n = c19_concrete.search(tier, seed, stop_at=3)
    chk.bounded.append({"name": "bounded replay on the real code: synthesised dataclasses with 0-5 fields (required / default / default_factory / compare=False), "
                                "flags (frozen, eq, order, unsafe_hash), single inheritance from slotted and unslotted bases incl. re-declared fields, user "
                                "__getstate__/__setstate__, nested definitions, repeated names, all (dict, weakref) combinations, repeated decoration",
                        "evaluations": n, "failures": len(fails),
                        "rule": "__slots__, names, fields, frozen-ness as the statement says; construction, field values, repr, ==, hash, ordering, copy, deepcopy, "
                                "pickle agree with the plain dataclass; instance __dict__ only when requested or inherited; decorating again never raises"})
    for i, f in enumerate(fails):
        chk.violation(f"bounded-replay#{i}", {"found": True, "kind": "c19-case", "case": f}, True)
    chk.known_witness("C19-init-false-default", c19_concrete.init_false_default_witness, "a field declared field(default=..., init=False)")
    chk.known_witness("C19-zero-arg-super", c19_concrete.zero_arg_super_witness, "a method using zero-argument super()")
    chk.resolve_failures(searcher)
    return chk.finish(level="other", explanation="Structural clauses S1-S5 of classes.slotted / wrap are discharged as verification conditions from the real AST (symbolic namespace, loop invariant for the erase loop); the behavioural-equivalence half of the statement depends on CPython's class machinery and is only replayed by a bounded sweep over synthesised dataclasses (never counted as proved).")
