"""C10 — executable twin of the contract: synthesises `def f(...)` and calls, runs the real
`typelib.binding.bind/wrap`, and compares what f received with Python's own binding rules
(inspect.Signature.bind).  Used to replay solver counterexamples, to search for a concrete
failing input when an obligation stops discharging (bounded, never counted as proof), and as the
bounded cross-check of the thorough tier.
"""
from __future__ import annotations

import decimal
import fractions
import inspect
import itertools
import random

ANN = ["int", "str", "float", "decimal.Decimal", "fractions.Fraction", None, "bytes"]


def raw():
    return bytearray(b"7")


def expected(ann, value):
    """unmarshal(annotation, value) for the distinguishable pool, computed independently."""
    if ann is None:
        return value
    text = value.decode() if isinstance(value, (bytes, bytearray)) else value
    return {"int": int, "str": str, "float": float, "decimal.Decimal": decimal.Decimal,
            "fractions.Fraction": fractions.Fraction,
            "bytes": lambda t: str(value).encode()}[ann](text)


def make_function(shape, anns, defaults):
    """shape = (nPO, nPK, hasVP, nKO, hasVK)."""
    npo, npk, vp, nko, vk = shape
    names, parts, kinds = [], [], []
    k = 0

    def p(name, kind, star=""):
        nonlocal k
        a = anns[k % len(anns)]
        d = " = None" if (defaults and not star) else ""
        parts.append(f"{star}{name}" + (f": {a}" if a else "") + d)
        names.append(name)
        kinds.append(kind)
        k += 1
    for i in range(npo):
        p(f"po{i}", "PO")
    if npo:
        parts.append("/")
    for i in range(npk):
        p(f"pk{i}", "PK")
    if vp:
        p("args", "VP", "*")
    elif nko:
        parts.append("*")
    for i in range(nko):
        p(f"ko{i}", "KO")
    if vk:
        p("kw", "VK", "**")
    src = f"def f({', '.join(parts)}):\n    return ('called', locals())\n"
    ns = {"decimal": decimal, "fractions": fractions}
    exec(src, ns)
    f = ns["f"]
    ann_by_name = {}
    k = 0
    for nm in names:
        ann_by_name[nm] = anns[k % len(anns)]
        k += 1
    return f, src, names, kinds, ann_by_name


def shapes(max_params=5):
    for npo, npk, vp, nko, vk in itertools.product(range(3), range(3), (0, 1), range(3), (0, 1)):
        if npo + npk + vp + nko + vk <= max_params:
            yield (npo, npk, vp, nko, vk)


def calls_for(shape, names, kinds):
    npo, npk, vp, nko, vk = shape
    P = npo + npk
    pk_names = [n for n, k in zip(names, kinds) if k == "PK"]
    ko_names = [n for n, k in zip(names, kinds) if k == "KO"]
    collide = [n for n, k in zip(names, kinds) if k in ("PO", "VP", "VK")]
    for npos in range(0, P + (3 if vp else 1)):
        base_kw = []
        # PK parameters not covered positionally may be passed by keyword (all or none), KO by keyword
        rest_pk = pk_names[max(0, npos - npo):] if npos >= npo else pk_names
        for use_pk in (True, False):
            for use_ko in (True, False):
                kw = {}
                if use_pk and npos >= npo:
                    for n in rest_pk:
                        kw[n] = raw()
                if use_ko:
                    for n in ko_names:
                        kw[n] = raw()
                extras = [[]]
                if vk:
                    extras += [["extra1"], ["extra1", "extra2"]] + [[c] for c in collide]
                for ex in extras:
                    k2 = dict(kw)
                    for e in ex:
                        k2[e] = raw()
                    yield tuple(raw() for _ in range(npos)), k2


def check_case(kind, shape, anns, defaults, args, kwargs):
    """Returns None when the property holds on this case, else a description of the failure."""
    from typelib import binding
    f, src, names, kinds, ann_by_name = make_function(shape, anns, defaults)
    # the oracle is Python itself: call the undecorated function with the raw arguments
    try:
        _, bound_raw = f(*args, **kwargs)
        accepted = True
    except TypeError:
        accepted = False
    target = binding.bind(f) if kind == "bind" else binding.wrap(f)
    try:
        got = target(*args, **kwargs)
        raised = None
    except TypeError as e:
        got, raised = None, e
    except Exception as e:   # any other exception from the binder is a failure for accepted calls
        got, raised = None, e
    if not accepted:
        if raised is None or not isinstance(raised, TypeError):
            return f"rejected call did not raise TypeError (got {got!r} / {raised!r})"
        return None
    if raised is not None:
        return f"accepted call raised {raised!r}"
    tag, received = got
    vp_name = next((n for n, k in zip(names, kinds) if k == "VP"), None)
    vk_name = next((n for n, k in zip(names, kinds) if k == "VK"), None)
    for pname, val in bound_raw.items():
        a = ann_by_name[pname]
        if pname == vp_name:
            exp = tuple(expected(a, v) for v in val)
        elif pname == vk_name:
            exp = {k: expected(a, v) for k, v in val.items()}
        elif val is None and defaults:
            exp = None         # default value, not an argument
        else:
            exp = expected(a, val)
        if received[pname] != exp or _types(received[pname]) != _types(exp):
            return f"parameter {pname!r} (annotation {a}) received {received[pname]!r}, expected {exp!r}"
    return None


def _types(v):
    if isinstance(v, tuple):
        return tuple(type(x) for x in v)
    if isinstance(v, dict):
        return {k: type(x) for k, x in v.items()}
    return type(v)


def enumerate_cases(seed=0, limit=None, max_params=5):
    rnd = random.Random(seed)
    n = 0
    for shape in shapes(max_params):
        for rot in (0, 3):
            anns = ANN[rot:] + ANN[:rot]
            for defaults in (False, True):
                f, src, names, kinds, _ = make_function(shape, anns, defaults)
                for args, kwargs in calls_for(shape, names, kinds):
                    for kind in ("bind", "wrap"):
                        yield {"kind": kind, "shape": list(shape), "anns": anns, "defaults": defaults,
                               "nargs": len(args), "kwargs": sorted(kwargs), "src": src}
                        n += 1
                        if limit and n >= limit:
                            return


def run_case(case):
    args = tuple(raw() for _ in range(case["nargs"]))
    kwargs = {k: raw() for k in case["kwargs"]}
    return check_case(case["kind"], tuple(case["shape"]), case["anns"], case["defaults"], args, kwargs)


def flags_of(shape):
    npo, npk, vp, nko, vk = shape
    return "".join("T" if x else "F" for x in (npo > 0, nko > 0, bool(vp), bool(vk), npk > 0))


def search(seed=0, limit=None, row=None, stop_at=10):
    """Bounded search for failing cases on the real code."""
    fails, n, distinct = [], 0, set()
    for case in enumerate_cases(seed, limit):
        if row is not None and flags_of(case["shape"]) != row:
            continue
        n += 1
        distinct.add((tuple(case["shape"]), case["nargs"], tuple(case["kwargs"]), case["kind"], case["defaults"]))
        r = run_case(case)
        if r is not None:
            fails.append(dict(case, failure=r, row=flags_of(case["shape"])))
            if stop_at and len(fails) >= stop_at:
                break
    return fails, n, len(distinct)


def metadata_case():
    """wrap preserves the callable's metadata."""
    from typelib import binding

    def target(a: int, b: str = "x") -> str:
        """doc"""
        return f"{a}{b}"
    w = binding.wrap(target)
    bad = [k for k in ("__name__", "__qualname__", "__doc__", "__module__")
           if getattr(w, k) != getattr(target, k)]
    if getattr(w, "__wrapped__", None) is not target:
        bad.append("__wrapped__")
    return bad
