"""C10 — executable twin of the contract: synthesises `def f(...)` and calls, runs the real
`typelib.binding.bind/wrap`, and compares what f received with Python's own binding rules
(inspect.Signature.bind).  Used to replay solver counterexamples, to search for a concrete
failing input when an obligation stops discharging (bounded, never counted as proof), and as the
bounded cross-check of the thorough tier.
"""
from __future__ import annotations

import decimal
import fractions
import inspect
import itertools
import random

ANN = ["int", "str", "float", "decimal.Decimal", "fractions.Fraction", None, "bytes"]


def raw():
    return bytearray(b"7")


def expected(ann, value):
    """unmarshal(annotation, value) for the distinguishable pool, computed independently."""
    if ann is None:
        return value
    text = value.decode() if isinstance(value, (bytes, bytearray)) else value
    return {"int": int, "str": str, "float": float, "decimal.Decimal": decimal.Decimal,
            "fractions.Fraction": fractions.Fraction,
            "bytes": lambda t: str(value).encode()}[ann](text)


FLAVOURS = ("function", "method", "classmethod", "staticmethod", "instance", "instance_unhashable", "class", "class_with_call",
            "method_starself")


def make_function(shape, anns, defaults, flavour="function"):
    """shape = (nPO, nPK, hasVP, nKO, hasVK).  Returns (target, src, names, kinds, ann_by_name); `target` is the callable
    handed to bind / wrap: a plain function, a bound method, a class / static method, a callable instance (hashable or
    not), or a class (whose __init__ takes the parameters)."""
    npo, npk, vp, nko, vk = shape
    names, parts, kinds = [], [], []
    k = 0

    def p(name, kind, star=""):
        nonlocal k
        a = anns[k % len(anns)]
        d = " = None" if (defaults and not star) else ""
        parts.append(f"{star}{name}" + (f": {a}" if a else "") + d)
        names.append(name)
        kinds.append(kind)
        k += 1
    for i in range(npo):
        p(f"po{i}", "PO")
    if npo:
        parts.append("/")
    for i in range(npk):
        p(f"pk{i}", "PK")
    if vp:
        p("args", "VP", "*")
    elif nko:
        parts.append("*")
    for i in range(nko):
        p(f"ko{i}", "KO")
    if vk:
        p("kw", "VK", "**")
    plist = ", ".join(parts)
    got = "{k_: v_ for k_, v_ in locals().items() if k_ not in ('self', 'cls')}"
    # the receiver goes before the positional-only marker
    recv = lambda r: (f"{r}, {plist}" if plist else r) if not npo else f"{r}, {plist}"
    if flavour == "function":
        src = f"def f({plist}):\n    return ('called', {got})\ntarget = f\n"
    elif flavour == "method":
        src = f"class K:\n    def f({recv('self')}):\n        return ('called', {got})\ntarget = K().f\n"
    elif flavour == "method_starself":
        # the receiver is collected by *args (legal Python): only for shapes that start with *args
        a0 = anns[0]
        src = (f"class K:\n    def f({plist}):\n        d = {got}\n        d['args'] = d['args'][1:]\n        return ('called', d)\n"
               f"target = K().f\n")
    elif flavour == "classmethod":
        src = f"class K:\n    @classmethod\n    def f({recv('cls')}):\n        return ('called', {got})\ntarget = K.f\n"
    elif flavour == "staticmethod":
        src = f"class K:\n    @staticmethod\n    def f({plist}):\n        return ('called', {got})\ntarget = K.f\n"
    elif flavour in ("instance", "instance_unhashable"):
        extra = "    __hash__ = None\n    def __eq__(self, other):\n        return self is other\n" if flavour == "instance_unhashable" else ""
        src = f"class K:\n{extra}    def __call__({recv('self')}):\n        return ('called', {got})\ntarget = K()\n"
    elif flavour in ("class", "class_with_call"):
        extra = "    def __call__(self, x: int):\n        return x\n" if flavour == "class_with_call" else ""
        src = f"class K:\n{extra}    def __init__({recv('self')}):\n        self.got = {got}\ntarget = K\n"
    else:
        raise ValueError(flavour)
    ns = {"decimal": decimal, "fractions": fractions}
    exec(src, ns)
    f = ns["target"]
    ann_by_name = {}
    k = 0
    for nm in names:
        ann_by_name[nm] = anns[k % len(anns)]
        k += 1
    return f, src, names, kinds, ann_by_name


def flavour_applies(flavour, shape):
    npo, npk, vp, nko, vk = shape
    if flavour == "method_starself":
        return bool(vp) and npo == 0 and npk == 0
    return True


def shapes(max_params=5):
    for npo, npk, vp, nko, vk in itertools.product(range(3), range(3), (0, 1), range(3), (0, 1)):
        if npo + npk + vp + nko + vk <= max_params:
            yield (npo, npk, vp, nko, vk)


RESERVED = ("self", "__binding", "args", "kwargs", "binding", "call", "obj", "cls")


def calls_for(shape, names, kinds):
    npo, npk, vp, nko, vk = shape
    P = npo + npk
    pk_names = [n for n, k in zip(names, kinds) if k == "PK"]
    ko_names = [n for n, k in zip(names, kinds) if k == "KO"]
    collide = [n for n, k in zip(names, kinds) if k in ("PO", "VP", "VK")]
    for npos in range(0, P + (3 if vp else 1)):
        base_kw = []
        # PK parameters not covered positionally may be passed by keyword (all or none), KO by keyword
        rest_pk = pk_names[max(0, npos - npo):] if npos >= npo else pk_names
        for use_pk in (True, False):
            for use_ko in (True, False):
                kw = {}
                if use_pk and npos >= npo:
                    for n in rest_pk:
                        kw[n] = raw()
                if use_ko:
                    for n in ko_names:
                        kw[n] = raw()
                extras = [[]]
                if vk:
                    extras += [["extra1"], ["extra1", "extra2"]] + [[c] for c in collide]
                    # names the forwarders themselves might reserve: Python accepts every one of them as a keyword
                    if npos == P and not use_pk and not use_ko:
                        extras += [[r] for r in RESERVED]
                for ex in extras:
                    k2 = dict(kw)
                    for e in ex:
                        k2[e] = raw()
                    yield tuple(raw() for _ in range(npos)), k2


def _view(res, flavour):
    if flavour in ("class", "class_with_call"):
        return "called", res.got
    return res


def check_case(kind, shape, anns, defaults, args, kwargs, flavour="function"):
    """Returns None when the property holds on this case, else a description of the failure."""
    from typelib import binding
    f, src, names, kinds, ann_by_name = make_function(shape, anns, defaults, flavour)
    # the oracle is Python itself: call the undecorated callable with the raw arguments
    try:
        _, bound_raw = _view(f(*args, **kwargs), flavour)
        accepted = True
    except TypeError:
        accepted = False
    try:
        target = binding.bind(f) if kind == "bind" else binding.wrap(f)
    except Exception as e:
        return f"{kind}({flavour}) itself raised {e!r}"
    try:
        got = _view(target(*args, **kwargs), flavour)
        raised = None
    except TypeError as e:
        got, raised = None, e
    except Exception as e:   # any other exception from the binder is a failure for accepted calls
        got, raised = None, e
    if not accepted:
        if raised is None or not isinstance(raised, TypeError):
            return f"rejected call did not raise TypeError (got {got!r} / {raised!r})"
        return None
    if raised is not None:
        return f"accepted call raised {raised!r}"
    tag, received = got
    vp_name = next((n for n, k in zip(names, kinds) if k == "VP"), None)
    vk_name = next((n for n, k in zip(names, kinds) if k == "VK"), None)
    for pname, val in bound_raw.items():
        a = ann_by_name[pname]
        if pname == vp_name:
            exp = tuple(expected(a, v) for v in val)
        elif pname == vk_name:
            exp = {k: expected(a, v) for k, v in val.items()}
        elif val is None and defaults:
            exp = None         # default value, not an argument
        else:
            exp = expected(a, val)
        if received[pname] != exp or _types(received[pname]) != _types(exp):
            return f"parameter {pname!r} (annotation {a}) received {received[pname]!r}, expected {exp!r}"
    return None


def _types(v):
    if isinstance(v, tuple):
        return tuple(type(x) for x in v)
    if isinstance(v, dict):
        return {k: type(x) for k, x in v.items()}
    return type(v)


def enumerate_cases(seed=0, limit=None, max_params=5):
    rnd = random.Random(seed)
    n = 0
    for shape in shapes(max_params):
        for rot in (0, 3):
            anns = ANN[rot:] + ANN[:rot]
            for defaults in (False, True):
                f, src, names, kinds, _ = make_function(shape, anns, defaults)
                for args, kwargs in calls_for(shape, names, kinds):
                    for kind in ("bind", "wrap"):
                        yield {"kind": kind, "shape": list(shape), "anns": anns, "defaults": defaults,
                               "nargs": len(args), "kwargs": sorted(kwargs), "src": src, "flavour": "function"}
                        n += 1
                        if limit and n >= limit:
                            return


def enumerate_flavours(max_params=3):
    """Methods, class / static methods, callable instances (hashable or not) and classes: every shape of up to
    `max_params` parameters, one annotation rotation, no defaults."""
    for shape in shapes(max_params):
        for flavour in FLAVOURS[1:]:
            if not flavour_applies(flavour, shape):
                continue
            f, src, names, kinds, _ = make_function(shape, ANN, False, flavour)
            for args, kwargs in calls_for(shape, names, kinds):
                for kind in ("bind", "wrap"):
                    yield {"kind": kind, "shape": list(shape), "anns": ANN, "defaults": False, "nargs": len(args),
                           "kwargs": sorted(kwargs), "src": src, "flavour": flavour}


def run_case(case):
    args = tuple(raw() for _ in range(case["nargs"]))
    kwargs = {k: raw() for k in case["kwargs"]}
    return check_case(case["kind"], tuple(case["shape"]), case["anns"], case["defaults"], args, kwargs, case.get("flavour", "function"))


def flags_of(shape):
    npo, npk, vp, nko, vk = shape
    return "".join("T" if x else "F" for x in (npo > 0, nko > 0, bool(vp), bool(vk), npk > 0))


def search(seed=0, limit=None, row=None, stop_at=10, flavours=True):
    """Bounded search for failing cases on the real code."""
    fails, n, distinct = [], 0, set()
    for case in itertools.chain(enumerate_flavours() if flavours else (), enumerate_cases(seed, limit)):
        if row is not None and flags_of(case["shape"]) != row:
            continue
        n += 1
        distinct.add((tuple(case["shape"]), case["nargs"], tuple(case["kwargs"]), case["kind"], case["defaults"], case.get("flavour")))
        r = run_case(case)
        if r is not None:
            fails.append(dict(case, failure=r, row=flags_of(case["shape"])))
            if stop_at and len(fails) >= stop_at:
                break
    return fails, n, len(distinct)


def metadata_case():
    """wrap preserves the callable's metadata."""
    from typelib import binding

    def target(a: int, b: str = "x") -> str:
        """doc"""
        return f"{a}{b}"
    w = binding.wrap(target)
    bad = [k for k in ("__name__", "__qualname__", "__doc__", "__module__")
           if getattr(w, k) != getattr(target, k)]
    if getattr(w, "__wrapped__", None) is not target:
        bad.append("__wrapped__")
    return bad


def history_cases():
    """bind / wrap applied in sequence: a subclass (or an instance of one) of a class that was wrapped earlier, wrapping or
    binding twice, wrapping what was bound.  Returns descriptions of failures."""
    from typelib import binding
    bad = []

    class Base:
        def __init__(self, a: int):
            self.a = a

    class Child(Base):
        def __init__(self, a: int, b: float):
            super().__init__(a)
            self.b = b

        def __call__(self, x: int, *more: float):
            return (x, more)

    class Plain(Base):
        pass
    binding.wrap(Base)
    if Base("1").a != 1:
        bad.append("wrap(Base): Base('1').a != 1")
    binding.wrap(Child)
    c = Child(bytearray(b"1"), "2.5")
    if (c.a, c.b) != (1, 2.5) or type(c.b) is not float:
        bad.append(f"wrap(Child) after wrap(Base): Child received {(c.a, c.b)!r}, expected (1, 2.5)")
    w = binding.wrap(c)
    if w("3", "4") != (3, (4.0,)):
        bad.append(f"wrap(instance of a subclass of a wrapped class): received {w('3', '4')!r}, expected (3, (4.0,))")
    b = binding.bind(c)
    if b("3", "4") != (3, (4.0,)):
        bad.append(f"bind(instance of a subclass of a wrapped class): received {b('3', '4')!r}")
    binding.wrap(Plain)
    if Plain("5").a != 5:
        bad.append("wrap(Plain) (inherits a wrapped __init__): Plain('5').a != 5")

    def f(a: int, *rest: float, k: int = 0, **kw: int):
        return (a, rest, k, kw)
    want = (1, (2.0,), 3, {"z": 4})
    # (wrap(bind(f)) is an instance of the known finding below: BoundRoutine.__call__'s own annotations are postponed)
    for label, g in (("wrap(wrap(f))", binding.wrap(binding.wrap(f))), ("bind(wrap(f))", binding.bind(binding.wrap(f))),
                     ("bind(f) twice", binding.bind(f))):
        got = g("1", "2", k="3", z="4")
        if got != want:
            bad.append(f"{label}: received {got!r}, expected {want!r}")
    return bad


def postponed_annotation_case():
    """Known finding C10-postponed-annotations: a callable defined under `from __future__ import annotations` carries its
    annotations as text, and typelib resolves that text against the *calling* frames, not the callable's own module.
    Returns a description of the failure when it still occurs (None when bind works)."""
    import importlib.util
    import os
    import sys
    import tempfile
    from typelib import binding
    src = ("from __future__ import annotations\nfrom decimal import Decimal as Dec10\n"
           "def f(a: Dec10):\n    return a\n")
    with tempfile.TemporaryDirectory() as d:
        path = os.path.join(d, "c10_postponed_mod.py")
        with open(path, "w") as fh:
            fh.write(src)
        spec = importlib.util.spec_from_file_location("c10_postponed_mod", path)
        mod = importlib.util.module_from_spec(spec)
        sys.modules["c10_postponed_mod"] = mod
        try:
            spec.loader.exec_module(mod)
            try:
                got = binding.bind(mod.f)("1.5")
            except NameError as e:
                return f"bind(f) for f(a: Dec10) defined under postponed annotations in another module raised {e!r}"
            import decimal
            return None if got == decimal.Decimal("1.5") else f"bind(f)('1.5') returned {got!r}"
        finally:
            sys.modules.pop("c10_postponed_mod", None)
