"""C12 — results depend only on (type, input), never on call history.

History independence is recast as per-function obligations on every memoised function plus
exhaustive frame scans of the current source:

  M  every memoised function (found by an AST scan on every run) is under a contract: its result kind is
     declared here, and a function that is memoised but not listed fails (so adding a cache is noticed);
  F  a memoised function whose result is a mutable container is only consumed read-only inside the
     package, and the public text decoder copies on return (checked on the real AST);
  G  the only module-level or class-level mutable state written from function bodies is the re-entrancy
     stack of classes.slotted; values obtained from memoised calls are never mutated; no routine
     __call__ (marshal or unmarshal side) writes routine state.
  K  key congruence (equal keys => observationally equal results) is checked over a catalogue of
     equal-but-distinct keys on the real code (bounded, labelled as such).
"""
from __future__ import annotations

import ast
import os

import z3

from pyvc.driver import Ob
from pyvc.source import Source

PKG = "typelib"
IMMUTABLE, ROUTINE, CONTAINER_RO, CALLABLE, COPIED = "immutable", "routine-object", "container-read-only-inside-the-package", \
    "callable", "copied-before-leaving-the-package"

# every memoised function of the package and what it returns
MEMOISED = {
    "typelib.binding._get_cached_binding": ROUTINE,
    "typelib.codecs.codec": ROUTINE,
    "typelib.graph.static_order": CONTAINER_RO,
    "typelib.marshals.api.marshaller": ROUTINE,
    "typelib.unmarshals.api.unmarshaller": ROUTINE,
    "typelib.serdes.dateparse": IMMUTABLE,
    "typelib.serdes.get_items_iter": CALLABLE,
    "typelib.serdes._strload": COPIED,
    "typelib.py.future.transform": IMMUTABLE,
    "typelib.py.refs._resolve_module_name": IMMUTABLE,
    "typelib.py.inspection.cached_signature": IMMUTABLE,
    "typelib.py.inspection.cached_type_hints": CONTAINER_RO,
    "typelib.py.inspection.cached_simple_attributes": IMMUTABLE,
    "typelib.py.inspection.cached_issubclass": IMMUTABLE,
    "typelib.py.inspection.safe_get_params": CONTAINER_RO,
    "typelib.py.inspection.normalize_typevar": IMMUTABLE,
    "typelib.py.inspection.name": IMMUTABLE, "typelib.py.inspection.qualname": IMMUTABLE,
    "typelib.py.inspection.origin": IMMUTABLE, "typelib.py.inspection.resolve_supertype": IMMUTABLE,
    "typelib.py.inspection.unwrap": IMMUTABLE, "typelib.py.inspection.should_unwrap": IMMUTABLE,
}
MUTATORS = {"append", "appendleft", "insert", "remove", "pop", "popleft", "popitem", "clear", "update", "extend", "sort", "reverse",
            "setdefault", "add", "discard", "rotate", "__setitem__", "__delitem__"}
ALLOWED_GLOBAL_STATE = {("typelib.py.classes", "_stack")}


def modules(src: Source):
    root = os.path.join(src.root, PKG)
    for dp, dn, fn in os.walk(root):
        for f in fn:
            if f.endswith(".py"):
                rel = os.path.relpath(os.path.join(dp, f), src.root)[:-3].replace(os.sep, ".")
                if rel.endswith(".__init__"):
                    rel = rel[:-9]
                yield rel


def is_cache_decorator(d):
    t = ast.unparse(d)
    return "cache" in t


def memoised_functions(src):
    """qualname -> node, for decorated defs and for `name = compat.cache(func)` assignments."""
    out = {}
    for m in modules(src):
        for s in src.toplevel(m):
            if isinstance(s, ast.FunctionDef) and any(is_cache_decorator(d) for d in s.decorator_list):
                out[f"{m}.{s.name}"] = s
            if isinstance(s, ast.Assign) and isinstance(s.value, ast.Call) and "cache" in ast.unparse(s.value.func) \
                    and isinstance(s.targets[0], ast.Name):
                out[f"{m}.{s.targets[0].id}"] = s
            if isinstance(s, ast.ClassDef):
                for b in s.body:
                    if isinstance(b, ast.FunctionDef) and any(is_cache_decorator(d) for d in b.decorator_list):
                        out[f"{m}.{s.name}.{b.name}"] = b
    return out


def scan_M(chk, src):
    found = memoised_functions(src)
    # the inspection predicates (is*type...) return bool
    for q, node in found.items():
        short = q.rsplit(".", 1)[-1]
        kind = MEMOISED.get(q)
        if kind is None and q.startswith("typelib.py.inspection.is"):
            kind = IMMUTABLE
        if kind is not None:
            chk.add(Ob(q, "memoised-function-is-under-a-cache-contract", "ast-scan", [], z3.BoolVal(True), {"note": kind}))
    # per module (stable clause name): no memoised function without a cache contract - a *new* cache is a violation of the
    # statement's "caches only ever return what a cold call would" until its key is shown to determine its result
    by_mod = {}
    for q in found:
        by_mod.setdefault(q.rsplit(".", 1)[0] if q.rsplit(".", 1)[0] in set(modules(src)) else q.rsplit(".", 2)[0], []).append(q)
    for m in sorted(set(modules(src))):
        missing = [q for q in by_mod.get(m, []) if MEMOISED.get(q) is None and not q.startswith("typelib.py.inspection.is")]
        chk.add(Ob(m, "every-memoised-function-of-the-module-is-under-a-cache-contract", "ast-scan", [], z3.BoolVal(not missing), {"uncontracted": missing}))
    for q in MEMOISED:
        chk.add(Ob(q, "contracted-memoised-function-still-exists-and-is-memoised", "ast-scan", [], z3.BoolVal(q in found)))
    return found


def _names_in(e):
    return {x.id for x in ast.walk(e) if isinstance(x, ast.Name)}


def scan_G(chk, src, found):
    """Global / class-level mutable state, and mutation of values obtained from memoised calls."""
    memo_short = {q.rsplit(".", 1)[-1] for q in found}
    for m in modules(src):
        tree = src.module(m)
        # module-level names bound to mutable displays / constructor calls
        mod_mut = set()
        for s in src.toplevel(m):
            tg, val = None, None
            if isinstance(s, ast.Assign) and isinstance(s.targets[0], ast.Name):
                tg, val = s.targets[0].id, s.value
            elif isinstance(s, ast.AnnAssign) and isinstance(s.target, ast.Name) and s.value is not None:
                tg, val = s.target.id, s.value
            if tg and isinstance(val, (ast.Dict, ast.List, ast.Set, ast.ListComp, ast.DictComp, ast.SetComp)):
                mod_mut.add(tg)
            if tg and isinstance(val, ast.Call) and ast.unparse(val.func) in ("set", "dict", "list", "collections.deque", "collections.defaultdict"):
                mod_mut.add(tg)
        class_mut = {}
        for s in tree.body:
            if isinstance(s, ast.ClassDef):
                for b in s.body:
                    tg, val = None, None
                    if isinstance(b, ast.Assign) and isinstance(b.targets[0], ast.Name):
                        tg, val = b.targets[0].id, b.value
                    elif isinstance(b, ast.AnnAssign) and isinstance(b.target, ast.Name) and b.value is not None:
                        tg, val = b.target.id, b.value
                    if tg and isinstance(val, (ast.Dict, ast.List, ast.Set)) or (tg and isinstance(val, ast.Call) and ast.unparse(val.func) in ("set", "dict", "list")):
                        class_mut.setdefault(s.name, set()).add(tg)
        bad = []
        for fn in [n for n in ast.walk(tree) if isinstance(n, (ast.FunctionDef, ast.Lambda))]:
            if isinstance(fn, ast.Lambda):
                continue
            local_defs = {a.arg for a in fn.args.args + fn.args.kwonlyargs + fn.args.posonlyargs}
            for n in ast.walk(fn):
                if isinstance(n, (ast.Assign, ast.AnnAssign)):
                    for t in (n.targets if isinstance(n, ast.Assign) else [n.target]):
                        if isinstance(t, ast.Name):
                            local_defs.add(t.id)
            tainted = set()      # locals holding the result of a memoised call
            for n in ast.walk(fn):
                if isinstance(n, ast.Assign) and isinstance(n.value, ast.Call):
                    callee = ast.unparse(n.value.func).rsplit(".", 1)[-1]
                    if callee in memo_short or callee in ("load",):       # serdes.load -> strload -> cache
                        for t in n.targets:
                            if isinstance(t, ast.Name):
                                tainted.add(t.id)
            for n in ast.walk(fn):
                if isinstance(n, ast.Global):
                    bad.append(f"{m}:{n.lineno}: global {', '.join(n.names)}")
                tgts = []
                if isinstance(n, ast.Assign):
                    tgts = n.targets
                elif isinstance(n, (ast.AugAssign, ast.AnnAssign)):
                    tgts = [n.target]
                elif isinstance(n, ast.Delete):
                    tgts = n.targets
                for t in tgts:
                    if isinstance(t, (ast.Subscript, ast.Attribute)):
                        base = t.value
                        bn = _names_in(base)
                        root = base.id if isinstance(base, ast.Name) else None
                        if root in mod_mut and root not in local_defs and (m, root) not in ALLOWED_GLOBAL_STATE:
                            bad.append(f"{m}:{n.lineno}: write to module-level {root}")
                        if root in tainted:
                            bad.append(f"{m}:{n.lineno}: write into a value obtained from a memoised call ({root})")
                        for cname, attrs in class_mut.items():
                            if isinstance(base, ast.Attribute) and base.attr in attrs:
                                bad.append(f"{m}:{n.lineno}: write to class-level {cname}.{base.attr}")
                if isinstance(n, ast.Call) and isinstance(n.func, ast.Attribute) and n.func.attr in MUTATORS:
                    base = n.func.value
                    root = base.id if isinstance(base, ast.Name) else None
                    if root in mod_mut and root not in local_defs and (m, root) not in ALLOWED_GLOBAL_STATE:
                        bad.append(f"{m}:{n.lineno}: {root}.{n.func.attr}() on module-level state")
                    if root in tainted:
                        bad.append(f"{m}:{n.lineno}: {root}.{n.func.attr}() on a value obtained from a memoised call")
                    for cname, attrs in class_mut.items():
                        if isinstance(base, ast.Attribute) and base.attr in attrs:
                            bad.append(f"{m}:{n.lineno}: {ast.unparse(n.func)}() on class-level state")
        # closure state: a nested function mutating a mutable local of its enclosing function keeps state between calls
        for outer in [n for n in ast.walk(tree) if isinstance(n, ast.FunctionDef)]:
            outer_locals = set()
            for n in ast.iter_child_nodes(outer):
                for x in ast.walk(n) if not isinstance(n, ast.FunctionDef) else []:
                    if isinstance(x, (ast.Assign, ast.AnnAssign)):
                        for t in (x.targets if isinstance(x, ast.Assign) else [x.target]):
                            if isinstance(t, ast.Name):
                                outer_locals.add(t.id)
            for inner in [n for n in ast.walk(outer) if isinstance(n, ast.FunctionDef) and n is not outer]:
                inner_locals = {a.arg for a in inner.args.args + inner.args.kwonlyargs + inner.args.posonlyargs}
                for x in ast.walk(inner):
                    if isinstance(x, (ast.Assign, ast.AnnAssign)):
                        for t in (x.targets if isinstance(x, ast.Assign) else [x.target]):
                            if isinstance(t, ast.Name):
                                inner_locals.add(t.id)
                for x in ast.walk(inner):
                    root = None
                    if isinstance(x, ast.Call) and isinstance(x.func, ast.Attribute) and x.func.attr in MUTATORS and isinstance(x.func.value, ast.Name):
                        root = x.func.value.id
                    if isinstance(x, (ast.Assign, ast.AugAssign)):
                        for t in (x.targets if isinstance(x, ast.Assign) else [x.target]):
                            if isinstance(t, ast.Subscript) and isinstance(t.value, ast.Name):
                                root = t.value.id
                    if isinstance(x, ast.Nonlocal):
                        bad.append(f"{m}:{x.lineno}: nonlocal {', '.join(x.names)} in {inner.name}")
                    if root and root in outer_locals and root not in inner_locals and (m, root) not in ALLOWED_GLOBAL_STATE:
                        bad.append(f"{m}:{x.lineno}: {inner.name} mutates {root}, a local of the enclosing {outer.name} (closure state)")
        chk.add(Ob(m, "no-hidden-mutable-state-is-written-from-function-bodies", "ast-scan", [], z3.BoolVal(not bad), {"writes": bad}))
        chk.extra_coverage.setdefault("module_level_mutables", {})[m] = sorted(mod_mut)


def scan_routine_frames(chk):
    from props import c06
    c06.frame_scan(chk, "typelib.unmarshals.routines")
    c06.frame_scan(chk, "typelib.marshals.routines")
    # the Delayed proxies write `_resolved` and copy slots once: run-preserving (C05 :: keeps-class-invariant)
    c06.frame_scan(chk, "typelib.codecs")
    c06.frame_scan(chk, "typelib.binding")


def strload_copy_obligation(chk, src):
    """F for the text decoder, on the real body of serdes.strload (symbolic execution, the memoised helper and copy.deepcopy
    uninterpreted): on every returning path the result is a deep copy of what the cache holds, unless the cached object's
    class is none of the container classes the parser can produce (list / dict / set / tuple) - only an immutable scalar or
    the caller's own object is ever handed out as is."""
    import copy as _copy
    from props import c14
    from props import uf_world as uw
    from pyvc.core import SV, Stub, to_val, cls_of, cls_const, class_axioms
    I = uw.make_interp(raising=False)
    c14.install_models(I)
    for k in ("decode", "load"):
        I.stubs.pop(f"typelib.serdes.{k}", None)
    cached = uw.uf("the_cache_entry_for", 1)
    deep = uw.uf("deepcopy", 1)
    memo = {"calls": []}

    def memo_call(I, path, f, args, kwargs):
        memo["calls"].append(f.qualname)
    I.hooks["memo_call"] = memo_call
    # the memoised helper: whatever object the cache holds for this key
    mod, chain, node = src.find_def("typelib.serdes.strload")
    helpers = {c.func.id for c in ast.walk(node) if isinstance(c, ast.Call) and isinstance(c.func, ast.Name) and c.func.id.startswith("_")}
    memoised = [h for h in helpers if _is_memoised(src, "typelib.serdes", h)]
    for h in memoised:
        I.stubs[f"typelib.serdes.{h}"] = Stub(f"serdes.{h}", lambda I, p, a, k: SV(cached(to_val(a[0]))), None)
    I.builtin_models[_copy.deepcopy] = lambda I, path, a, k: SV(deep(to_val(a[0])))
    func = "typelib.serdes.strload"
    nm = "container-results-are-deep-copied-before-they-are-returned"

    def mk(I, path):
        x = path.fresh("x")
        for k in (list, dict, set, tuple, str, bytes, bytearray, memoryview):
            cls_const(k)
        return [SV(x)], {}, {"x": x}
    n = 0
    for pi, (path, out, obls, writes, cur) in enumerate(I.run_function(func, mk)):
        hy = path.hyps + class_axioms()
        if out.kind == "raise":
            continue
        if out.kind != "ret":
            chk.add(Ob(func, nm, f"p{pi}", hy, z3.BoolVal(False), {"outcome": out.kind, "why": str(out.value)[:200]}))
            continue
        n += 1
        r = to_val(out.value)
        # r is deepcopy(c) for a cache entry c, or r is a cache entry whose class is not a container class
        ents = [t for t in _subterms(r) if z3.is_app(t) and t.decl().name().startswith("the_cache_entry_for")]
        goal = z3.BoolVal(False)
        for c in ents or []:
            not_container = z3.And(*[cls_of(c) != cls_const(k) for k in (list, dict, set, tuple)])
            goal = z3.Or(goal, r == deep(c), z3.And(r == c, not_container))
        chk.add(Ob(func, nm, f"p{pi}", hy, goal if ents else z3.BoolVal(False), {"cache_entries": len(ents)}))
    if not memoised or n == 0:
        chk.add(Ob(func, nm, "shape", [], z3.BoolVal(False), {"note": "strload no longer returns through a memoised helper"}))
    chk.trusted.update(I.assumed_used)
    # ... and that memoised helper is called from nowhere else in the package
    for h in memoised or ["_strload"]:
        callers = []
        for m in modules(src):
            for fn in [n_ for n_ in ast.walk(src.module(m)) if isinstance(n_, ast.FunctionDef)]:
                for n_ in ast.walk(fn):
                    if isinstance(n_, ast.Call) and ast.unparse(n_.func).split(".")[-1] == h and fn.name != h:
                        callers.append(f"{m}.{fn.name}")
        chk.add(Ob("typelib.serdes._strload", "cached-helper-is-only-reached-through-the-copying-entry-point", "ast-scan", [],
                   z3.BoolVal(callers == ["typelib.serdes.strload"]), {"callers": callers, "helper": h}))


def _subterms(t):
    seen, stack = {}, [t]
    while stack:
        x = stack.pop()
        if x.get_id() in seen:
            continue
        seen[x.get_id()] = x
        stack.extend(x.children())
    return list(seen.values())


def _is_memoised(src, modname, fname):
    for n_ in src.module(modname).body:
        if isinstance(n_, ast.FunctionDef) and n_.name == fname:
            return any("cache" in ast.unparse(d) for d in n_.decorator_list)
    return False


def obligations(chk):
    src = Source()
    found = scan_M(chk, src)
    scan_G(chk, src, found)
    scan_routine_frames(chk)
    strload_copy_obligation(chk, src)
    chk.extra_coverage["memoised_functions"] = sorted(found)
