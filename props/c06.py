"""C06 — marshalled output is plain JSON-compatible data, freshly built.

Functions under contract: every marshaller __call__ in typelib/marshals/routines.py.
Leaf clauses: the returned object has exactly the builtin class the wire form requires (str for
ToString/ISO-time/Pattern, the bound origin for Cast, the declared literal for Literal, the member's
value for Enum).  Composite clauses: the result is a *new* exact list / dict built by the routine
(a comprehension display, never the input or one of its containers) whose members are the member
routines' results; nothing reachable from the input is written.
"""
from __future__ import annotations

import z3

from pyvc.core import (SV, SInt, SBool, SSeq, SDict, Obj, Val, VNone, BoolS, IntS, Cls, to_val, to_int, cls_of, sub,
                       cls_const, class_axioms)
from pyvc.driver import Ob
from pyvc.ground import Q
from pyvc.expr import SCls, seq_of
from props import routine_world as rw
from props import routines as R
from props import leaf_world as lw

MA = "typelib.marshals.routines"
enum_value = z3.Function("enum_member_value", Val, Val)
pattern_of = z3.Function("pattern_text", Val, Val)
isoformat_f = z3.Function("serdes_isoformat", Val, Val)

LEAVES = ["NoOpMarshaller", "CastMarshaller", "ToStringMarshaller", "EnumMarshaller", "PatternMarshaller",
          "ToISOTimeMarshaller"]


def leaf_interp():
    from pyvc.core import Stub
    I = lw.make_interp()
    I.sv_attr["value"] = lambda I, path, obj: SV(enum_value(obj.t))
    I.sv_attr["pattern"] = lambda I, path, obj: SV(pattern_of(obj.t))

    def iso(I, path, a, k):
        r = isoformat_f(to_val(a[0]))
        path.assume(cls_of(r) == cls_const(str))
        return SV(r)
    I.stubs["typelib.serdes.isoformat"] = Stub("serdes.isoformat", iso,
                                               "serdes.isoformat returns an exact str (C04 contract on its content)")
    return I


def leaf_obligations(chk, clsname):
    I = leaf_interp()
    func = f"{MA}.{clsname}.__call__"

    def mk(I, path):
        val = path.fresh("val")
        O = path.fresh("Origin", Cls)
        slf = rw.routine_self(I, MA, clsname, {"t": SCls(path.fresh("T", Cls)), "origin": SCls(O),
                                               "context": rw.Ctx(path.fresh("ctx")), "var": None})
        for k in (str, int, float, bool):
            cls_const(k)
        return [slf, SV(val)], {}, {"val": val, "O": O}
    results = I.run_function(func, mk)
    for pi, (path, out, obls, writes, cur) in enumerate(results):
        _leaf_one(chk, func, clsname, pi, path, out, writes, cur)
    chk.trusted.update(I.assumed_used)


def _leaf_one(chk, func, clsname, pi, path, out, writes, cur):
    pid, hy = f"p{pi}", path.hyps + class_axioms()
    val, O = cur["val"], cur["O"]
    nm = "result-has-exactly-the-wire-class"
    chk.add(Ob(func, "input-is-not-written", pid, hy, z3.BoolVal(not [w for w in writes if w[0] != "attr" or True and False])))
    # the attribute-reading routines accept by class: an object that merely has a `value` / `pattern` attribute (a structured
    # member of the same union, say) is rejected with ValueError, never emitted (fix 979e121)
    import re as _re
    target = {"EnumMarshaller": O, "PatternMarshaller": cls_const(_re.Pattern)}.get(clsname)
    nm2 = "a-value-that-is-not-an-instance-of-the-target-is-rejected-with-ValueError"
    if out.kind != "ret":
        rejected = (target is not None and out.kind == "raise" and out.exc.exc_cls is ValueError)
        ok = out.kind == "raise" and (not isinstance(out.exc.exc_cls, type) or rejected)   # only the callee may raise
        chk.add(Ob(func, nm, pid, hy, z3.BoolVal(bool(ok)), {"outcome": out.kind}))
        if target is not None:
            chk.add(Ob(func, nm2, pid, hy, z3.Not(sub(cls_of(val), target)) if rejected else z3.BoolVal(bool(ok)), {"outcome": out.kind}))
        return
    if target is not None:
        chk.add(Ob(func, nm2, pid, hy, sub(cls_of(val), target)))
    r = to_val(out.value)
    goal = {
        "NoOpMarshaller": r == val,
        "CastMarshaller": cls_of(r) == O,
        "ToStringMarshaller": cls_of(r) == cls_const(str),
        "EnumMarshaller": r == enum_value(val),
        "PatternMarshaller": r == pattern_of(val),
        "ToISOTimeMarshaller": z3.And(r == isoformat_f(val), cls_of(r) == cls_const(str)),
    }[clsname]
    chk.add(Ob(func, nm, pid, hy, goal))


def literal_obligations(chk):
    I = leaf_interp()
    func = f"{MA}.LiteralMarshaller.__call__"
    nv = z3.Function("n_values", Val, IntS)
    vv = z3.Function("value_at", Val, IntS, Val)
    pyeq = z3.Function("py_eq", Val, Val, BoolS)        # Python's == between a declared literal and the input

    def equal_hook(I, path, a, b, identity):
        from pyvc.env import _MISSING
        if not identity and isinstance(a, SV) and isinstance(b, SV):
            return SBool(pyeq(a.t, b.t))
        return _MISSING
    I.hooks["equal"] = equal_hook

    def mk(I, path):
        t = path.fresh("t")
        val = path.fresh("val")
        path.assume(nv(t) >= 0)
        path.assume(Q([Val], lambda x: pyeq(x, x), name="eq-refl"))
        values = SSeq(nv(t), lambda i, t=t: SV(vv(t, to_int(i))), "tuple")
        slf = rw.routine_self(I, MA, "LiteralMarshaller", {"t": SV(t), "origin": SV(path.fresh("o")), "values": values,
                                                            "context": rw.Ctx(path.fresh("ctx")), "var": None})
        return [slf, SV(val)], {}, {"t": t, "val": val}

    # `for literal in self.values: if literal == val: return literal` needs a loop contract when written as a loop
    from pyvc.stmt import LoopSpec
    box = {}

    def inv(I, path, env, k):
        t, val = box["t"], box["val"]
        return [Q([IntS], lambda j: z3.Implies(z3.And(j >= 0, j < k), z3.Not(pyeq(vv(t, j), val))), name="no-earlier-match")]
    # two passes (fix 4d8ae83): a literal of the value's own class first (True == 1, yet Literal[True, 1] declares both), then any equal
    def inv_exact(I, path, env, k):
        t, val = box["t"], box["val"]
        return [Q([IntS], lambda j: z3.Implies(z3.And(j >= 0, j < k), z3.Not(z3.And(cls_of(vv(t, j)) == cls_of(val), pyeq(vv(t, j), val)))),
                  name="no-earlier-match-of-the-same-class")]
    I.loop_specs[(func, 0)] = LoopSpec("literals-of-the-same-class", lambda I, p, e, k: None, inv_exact)
    I.loop_specs[(func, 1)] = LoopSpec("literals", lambda I, p, e, k: None, inv)

    def mk2(I, path):
        r = mk(I, path)
        box.update(t=r[2]["t"], val=r[2]["val"])
        return r
    results = I.run_function(func, mk2)
    for pi, (path, out, obls, writes, cur) in enumerate(results):
        _literal_one(chk, func, pi, path, out, obls, cur, nv, vv, pyeq)


def _literal_one(chk, func, pi, path, out, obls, cur, nv, vv, pyeq):
    pid, hy, t, val = f"p{pi}", path.hyps, cur["t"], cur["val"]
    for nm, pc, goal in obls:
        chk.add(Ob(func, nm, pid, pc, goal))
    if out.kind == "end":
        return
    names = ["emits-the-declared-literal-object", "non-member-is-rejected-with-ValueError"]
    if out.kind == "unsupported":
        for nm in names:
            chk.add(Ob(func, nm, pid, hy, z3.BoolVal(False), {"engine": out.value}))
        return
    if out.kind == "ret":
        r = to_val(out.value)
        # the emitted object is one of the declared literal objects (hence of exactly a primitive class, by U)
        chk.add(Ob(func, names[0], pid, hy + [Q([IntS], lambda j: z3.Implies(z3.And(j >= 0, j < nv(t)), vv(t, j) != r),
                                                name="not-declared")], z3.BoolVal(False)))
        chk.add(Ob(func, names[1], pid, hy + [Q([IntS], lambda j: z3.Implies(z3.And(j >= 0, j < nv(t)),
                                                                           z3.Not(pyeq(vv(t, j), val))), name="non-member")],
                   z3.BoolVal(False)))
        # a declared literal equal to the value *and of its class* is the one emitted (C01 / C13: 1 stays 1 under Literal[True, 1])
        j1 = path.fresh("j1", IntS)
        chk.add(Ob(func, "a-declared-literal-of-the-value's-own-class-is-preferred", pid,
                   hy + [j1 >= 0, j1 < nv(t), pyeq(vv(t, j1), val), cls_of(vv(t, j1)) == cls_of(val)], cls_of(r) == cls_of(val)))
    else:
        is_ve = isinstance(out.exc.exc_cls, type) and issubclass(out.exc.exc_cls, ValueError)
        chk.add(Ob(func, names[0], pid, hy, z3.BoolVal(True), {"trivial": True}))
        # raising is only right for a non-member
        j0 = path.fresh("j0", IntS)
        chk.add(Ob(func, names[1], pid, hy + [j0 >= 0, j0 < nv(t), pyeq(vv(t, j0), val)], z3.BoolVal(False)))
        chk.add(Ob(func, names[1], pid + "/class", hy, z3.BoolVal(bool(is_ve))))


COMP = ["result-is-a-new-exact-list-or-dict-built-here", "members-are-member-routine-results", "input-is-not-written"]


def composite_obligations(chk):
    I = R.make_interp()
    for mod, cls, kind in R.COMPOSITES:
        if mod != MA:
            continue
        func, results = R.run_call(I, mod, cls, kind)
        for pi, (path, out, obls, writes, cur) in enumerate(results):
            if out.kind == "end":
                continue
            _comp_one(chk, func, kind, pi, path, out, writes, cur)
    chk.trusted.update(I.assumed_used)


def _comp_one(chk, func, kind, pi, path, out, writes, cur):
    from pyvc.core import run
    pid, hy = f"p{pi}", path.hyps
    val, slf = cur["val"], cur["self"]
    if out.kind != "ret":
        for nm in COMP:
            chk.add(Ob(func, nm, pid, hy, z3.BoolVal(False), {"outcome": out.kind}))
        return
    res = out.value
    want_list = kind in ("iterable", "fixedtuple")
    if want_list:
        fresh = isinstance(res, list) or (isinstance(res, SSeq) and res.kind == "list" and not isinstance(res, rw.Built))
    else:
        fresh = isinstance(res, (rw.CompDict, dict)) and not isinstance(res, SV)
    chk.add(Ob(func, COMP[0], pid, hy, z3.BoolVal(bool(fresh)), {"result": repr(res)}))
    chk.add(Ob(func, COMP[2], pid, hy, z3.BoolVal(not writes), {"writes": [w[0] for w in writes]}))
    i = path.fresh("i", IntS)
    if not fresh:
        chk.add(Ob(func, COMP[1], pid, hy, z3.BoolVal(False)))
        return
    if kind == "iterable":
        s = seq_of(res)
        chk.add(Ob(func, COMP[1], pid, hy + [i >= 0, i < _n(s)],
                   to_val(s.at(SInt(i))) == run(to_val(slf.fields["values"]), rw.val_at(val, i))))
    elif kind == "fixedtuple":
        s = seq_of(res)
        chk.add(Ob(func, COMP[1], pid, hy + [i >= 0, i < _n(s)], to_val(s.at(SInt(i))) == run(cur["r"](i), rw.val_at(val, i))))
    elif kind == "mapping":
        chk.add(Ob(func, COMP[1], pid, hy + [i >= 0, i < _nt(res.n)],
                   z3.And(to_val(res.key(SInt(i))) == run(to_val(slf.fields["keys"]), rw.item_k(val, i)),
                          to_val(res.val(SInt(i))) == run(to_val(slf.fields["values"]), rw.item_v(val, i)))))
    else:
        fget = cur["fget"]
        k_i = rw.item_k(val, i)
        # keys are the field names themselves (exact str by the iteritems contract), values the field routine's result
        chk.add(Ob(func, COMP[1], pid, hy + [i >= 0, i < _nt(res.n), res.keep(SInt(i))],
                   z3.And(to_val(res.key(SInt(i))) == k_i, to_val(res.val(SInt(i))) == run(fget(k_i), rw.item_v(val, i)))))


def _n(s):
    return s.length if not isinstance(s.length, int) else z3.IntVal(s.length)


def _nt(n):
    return n if not isinstance(n, int) else z3.IntVal(n)


def obligations(chk):
    for c in LEAVES:
        leaf_obligations(chk, c)
    literal_obligations(chk)
    composite_obligations(chk)
    frame_scan(chk)
    none_member_obligations(chk)
    writer_cache_scan(chk)


# ----------------------------------------------------------------------------- the temporal writer keeps no value-keyed cache
def writer_cache_scan(chk):
    """The leaf clauses treat serdes.isoformat as a function of its argument *object*.  A cache keyed by the value's equality
    would break that: temporals that compare and hash equal are written differently (aware datetimes of one instant in two
    zones; pendulum.duration(months=1) == timedelta(days=30), "P1M" vs "P30D"), so the text would depend on which of them was
    marshalled first.  Exhaustive scan: neither isoformat nor any package function it reaches is memoised."""
    import ast
    from pyvc.source import Source
    src = Source()
    mod = "typelib.serdes"
    defs = {n.name: n for n in src.toplevel(mod) if isinstance(n, ast.FunctionDef)}
    aliases = {}
    for n in src.toplevel(mod):          # `g = cache(f)` style aliases count as memoised entry points
        if isinstance(n, ast.Assign) and isinstance(n.value, ast.Call) and "cache" in ast.unparse(n.value.func) and isinstance(n.targets[0], ast.Name):
            aliases[n.targets[0].id] = ast.unparse(n.value)
    seen, todo, memo = set(), ["isoformat"], []
    while todo:
        f = todo.pop()
        if f in seen:
            continue
        seen.add(f)
        if f in aliases:
            memo.append(f"{f} = {aliases[f]}")
            continue
        node = defs.get(f)
        if node is None:
            continue
        if any("cache" in ast.unparse(d) for d in node.decorator_list):
            memo.append(f)
        for c in ast.walk(node):
            if isinstance(c, ast.Call) and isinstance(c.func, ast.Name) and (c.func.id in defs or c.func.id in aliases):
                todo.append(c.func.id)
    chk.add(Ob(f"{mod}.isoformat", "the-temporal-writer-and-everything-it-reaches-is-free-of-value-keyed-caches", "ast-scan", [],
               z3.BoolVal("isoformat" in defs and not memo), {"reached": sorted(seen), "memoised": memo}))


# ----------------------------------------------------------------------------- frame scan (same on every call)
MUTATORS = {"append", "appendleft", "insert", "remove", "pop", "popleft", "clear", "update", "extend", "sort", "reverse",
            "setdefault", "add", "discard", "rotate", "__setitem__", "__delitem__"}


def self_writes_in(fn):
    """Attribute stores / item stores / mutating method calls on `self.<attr>` inside a method body."""
    import ast
    bad = []
    # locals that alias routine state: `x = self.attr`, `x = self.attr[i]`, `a, b = self.p, self.q`
    tainted = {"self"}

    def is_state_expr(e):
        return isinstance(e, (ast.Attribute, ast.Subscript, ast.Name)) and \
            bool(tainted & {x.id for x in ast.walk(e) if isinstance(x, ast.Name)}) and \
            not any(isinstance(x, ast.Call) for x in ast.walk(e))
    for _ in range(3):
        for n in ast.walk(fn):
            if isinstance(n, (ast.Assign, ast.AnnAssign)) and getattr(n, "value", None) is not None:
                tg = n.targets if isinstance(n, ast.Assign) else [n.target]
                for t in tg:
                    if isinstance(t, ast.Name) and is_state_expr(n.value):
                        tainted.add(t.id)
                    if isinstance(t, ast.Tuple) and isinstance(n.value, ast.Tuple):
                        for tt, vv_ in zip(t.elts, n.value.elts):
                            if isinstance(tt, ast.Name) and is_state_expr(vv_):
                                tainted.add(tt.id)

    def touches_state(e):
        return bool(tainted & {x.id for x in ast.walk(e) if isinstance(x, ast.Name)})
    for n in ast.walk(fn):
        targets = []
        if isinstance(n, ast.Assign):
            targets = n.targets
        elif isinstance(n, (ast.AugAssign, ast.AnnAssign)):
            targets = [n.target]
        elif isinstance(n, ast.Delete):
            targets = n.targets
        for t in targets:
            for sub_ in ast.walk(t):
                if isinstance(sub_, (ast.Attribute, ast.Subscript)) and touches_state(sub_):
                    bad.append(f"line {n.lineno}: store to {ast.unparse(sub_)}")
        if isinstance(n, ast.Call) and isinstance(n.func, ast.Attribute) and n.func.attr in MUTATORS:
            if touches_state(n.func.value):
                bad.append(f"line {n.lineno}: {ast.unparse(n.func)}(...)")
        if isinstance(n, ast.Call) and isinstance(n.func, ast.Name) and n.func.id in ("setattr", "delattr"):
            bad.append(f"line {n.lineno}: {n.func.id}(...)")
    return bad


def frame_scan(chk, modname=MA, skip=()):
    """Exhaustive over the current source: no routine __call__ writes routine state."""
    import ast
    from pyvc.source import Source
    src = Source()
    for node in src.toplevel(modname):
        if isinstance(node, ast.ClassDef):
            for s in node.body:
                if isinstance(s, ast.FunctionDef) and s.name == "__call__" and node.name not in skip:
                    bad = self_writes_in(s)
                    chk.add(Ob(f"{modname}.{node.name}.__call__", "writes-no-routine-state", "ast-scan", [],
                               z3.BoolVal(not bad), {"writes": bad}))


# ----------------------------------------------------------------------------- the None member of an optional union
def none_member_obligations(chk):
    """The routine the marshal dispatch binds to NoneType (read from the `_HANDLERS` table) passes None through and rejects every
    other value with ValueError - otherwise it 'accepts' whatever the other members of an Optional[...] rejected, and a value that
    is not a member of Optional[Literal[...]] would be emitted instead of rejected."""
    import ast
    from pyvc.core import PyRaise
    I = R.make_interp()
    api = R.MA.replace(".routines", ".api")
    cls = None
    for st in I.src.toplevel(api):
        tg = st.targets[0] if isinstance(st, ast.Assign) else getattr(st, "target", None)
        if isinstance(st, (ast.Assign, ast.AnnAssign)) and isinstance(tg, ast.Name) and tg.id == "_HANDLERS" and isinstance(st.value, ast.Dict):
            for k, v in zip(st.value.keys, st.value.values):
                if ast.unparse(k) == "inspection.isnonetype":
                    cls = ast.unparse(v).split(".")[-1]
    func = f"{R.MA}.{cls}.__call__"
    names = ["none-passes-through", "anything-else-is-rejected-with-ValueError"]
    if cls is None:
        for nm in names:
            chk.add(Ob(f"{api}._HANDLERS[isnonetype]", nm, "ast", [], z3.BoolVal(False), {"note": "no isnonetype entry"}))
        return

    def mk(I, path):
        val = path.fresh("val")
        slf = rw.routine_self(I, R.MA, cls, {"t": SV(to_val(type(None))), "context": rw.Ctx(path.fresh("ctx")), "var": None})
        return [slf, SV(val)], {}, {"val": val}
    key = f"{api}._HANDLERS[isnonetype].__call__"
    for pi, (path, out, obls, writes, cur) in enumerate(I.run_function(func, mk)):
        pid, hy, val = f"p{pi}", path.hyps, cur["val"]
        if out.kind == "ret":
            chk.add(Ob(key, names[0], pid, hy + [val == VNone], to_val(out.value) == VNone, {"class": cls}))
            chk.add(Ob(key, names[1], pid, hy, val == VNone, {"class": cls, "note": "a returning path must be the None path"}))
        elif out.kind == "raise":
            is_ve = isinstance(out.exc.exc_cls, type) and issubclass(out.exc.exc_cls, ValueError)
            chk.add(Ob(key, names[0], pid, hy, val != VNone, {"class": cls}))
            chk.add(Ob(key, names[1], pid, hy, z3.BoolVal(bool(is_ve)), {"class": cls, "exc": str(out.exc.exc_cls)}))
        else:
            for nm in names:
                chk.add(Ob(key, nm, pid, hy, z3.BoolVal(False), {"engine": str(out.value)}))
