"""C03 — executable twin: whatever unmarshal returns must conform to the target (bounded search)."""
from __future__ import annotations

import json
import warnings

from props import typepool as tp
from props.concrete_util import clear_typelib_caches

GENERIC_INPUTS = [None, 0, 1, -1, 1.5, True, "", "1", "abc", "null", "[]", "{}", "[1]", '{"a": 1}', b"1", b"abc", [], [1],
                  ["a", "b"], (1,), {}, {"a": 1}, {"x": 1, "y": 2}, {"name": "n"}, {"qty": 1}, [[1, 2]], [("a", 1)],
                  object(), 10 ** 30, {"value": 1, "child": {"value": "x"}}, [1, "a"], [1, "a", 2.5, "extra"], {1: 2}]


def corrupted(wire):
    """Systematically corrupted wire forms of a valid value."""
    out = []
    if isinstance(wire, dict):
        for k in list(wire):
            d = dict(wire); d.pop(k); out.append(d)
            d = dict(wire); d[str(k) + "_x"] = d.pop(k); out.append(d)
            d = dict(wire); d[k] = [wire[k]]; out.append(d)
            d = dict(wire); d[k] = None; out.append(d)
    if isinstance(wire, list):
        out.append(wire[:-1]); out.append(wire + wire[:1]); out.append([wire]); out.append(wire[::-1])
        if wire:
            out.append([None] + wire[1:])
    if isinstance(wire, str):
        out.append(wire + "x"); out.append(wire[:-1]); out.append(wire.encode())
    return out


def search(stop_at=1, names=None):
    import typelib
    warnings.simplefilter("ignore")
    fails, n, distinct = [], 0, set()
    clear_typelib_caches()
    for name, T, values in tp.pool():
        if names and name not in names:
            continue
        inputs = list(GENERIC_INPUTS)
        for v in values:
            try:
                w = typelib.marshal(v, t=T)
            except Exception:
                continue
            inputs.append(w)
            inputs.extend(corrupted(w))
            try:
                inputs.append(json.dumps(w))
            except Exception:
                pass
        for xi, x in enumerate(inputs):
            n += 1
            distinct.add((name, xi))
            try:
                r = typelib.unmarshal(T, x)
            except Exception:
                continue
            try:
                ok = tp.conf(T, r)
            except Exception as e:
                ok = False
            if not ok:
                fails.append({"type": name, "input": repr(x), "input_index": xi,
                              "failure": f"unmarshal({name}, {x!r}) returned {r!r}, which does not conform"})
                if stop_at and len(fails) >= stop_at:
                    return fails, n, len(distinct)
    return fails, n, len(distinct)


def run_recorded(case):
    f, _, _ = search(stop_at=None, names=[case["type"]])
    for c in f:
        if c["input_index"] == case["input_index"]:
            return c["failure"]
    return None


def user_generic_witness():
    """Known finding C03-user-generic-type-argument: a parameterised user generic takes its annotations from the class it was
    subscripted from, so a TypeVar field is passed through whatever the type argument says."""
    import dataclasses
    import typing
    import typelib
    T = typing.TypeVar("T")
    # (make_dataclass: this module postpones its own annotations)
    Box = dataclasses.make_dataclass("Box", [("item", T)], bases=(typing.Generic[T],))
    with warnings.catch_warnings():
        warnings.simplefilter("ignore")
        clear_typelib_caches()
        try:
            r = typelib.unmarshal(Box[int], {"item": "x"})
        except Exception:
            return None
    return None if not isinstance(r, Box) or isinstance(r.item, int) else f"unmarshal(Box[int], {{'item': 'x'}}) == {r!r} for @dataclass Box(Generic[T]) with item: T"
