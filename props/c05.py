"""C05 — nested members are converted by their own type's rules.

Functions under contract: __init__ and __call__ of every composite routine class
(Subscripted{Iterable,Iterator,Mapping}, FixedTuple, StructuredType; unmarshal and marshal side),
StructuredType*._fields_by_var (loop invariant), the Delayed* proxies and the two factory loops.

Contract shape (from the statement): __init__ binds each member routine to `lookup(context,
<member's annotation>)` - keyed by annotation, never by name; __call__ returns the composite rebuilt
from run(member routine, member value) for *every* member value of the (decoded) input, in order,
and raises exactly when a member routine raises.
"""
from __future__ import annotations

import z3

from pyvc.core import (SV, SInt, SBool, SSeq, SDict, Obj, Val, VNone, BoolS, IntS, to_val, to_int, to_bool_term,
                       run, run_raises)
from pyvc.core import Unsupported, Stub
from pyvc.driver import Ob, cover_hyps
from pyvc.ground import Q
from pyvc.expr import seq_of
from props import routine_world as rw
from props import routines as R

CALL_CLAUSES = ["built-by-the-bound-constructor", "every-member-converted-by-its-routine-in-order",
                "raises-exactly-when-a-member-routine-raises"]


def _fail_all(chk, func, names, pid, hy, why):
    for nm in names:
        chk.add(Ob(func, nm, pid, hy, z3.BoolVal(False), why))


def call_clauses(chk, I, mod, cls, kind):
    func, results = R.run_call(I, mod, cls, kind)
    is_un = mod == R.UN
    for pi, (path, out, obls, writes, cur) in enumerate(results):
        for nm, pc, goal in obls:
            if nm.startswith("loop-"):
                chk.add(Ob(func, nm, f"p{pi}", pc, goal))
        if out.kind == "end":
            continue
        n0 = len(chk.obs)
        try:
            _call_one(chk, func, kind, is_un, pi, path, out, cur)
        except Unsupported as e:
            # engine limit met while stating the clauses (lazily evaluated comprehension bodies): undischarged, not a crash
            del chk.obs[n0:]
            _fail_all(chk, func, CALL_CLAUSES, f"p{pi}", path.hyps, {"engine": f"Unsupported {e}"})
    chk.add(Ob(func, "cover", "pre", cover_hyps(results), z3.BoolVal(True), expect="sat"))


def _call_one(chk, func, kind, is_un, pi, path, out, cur):
    pid, hy = f"p{pi}", path.hyps
    val, slf = cur["val"], cur["self"]
    if out.kind == "raise" and out.exc.exc_cls is ValueError and is_un and kind in ("fixedtuple", "structured"):
        # the routine rejects an input that cannot satisfy the target (too few members / missing required key)
        for nm in CALL_CLAUSES:
            chk.add(Ob(func, nm, pid, hy, z3.BoolVal(True), {"trivial": True, "note": "input rejected with ValueError"}))
        return
    if out.kind != "ret":
        _fail_all(chk, func, CALL_CLAUSES, pid, hy,
                  {"outcome": out.kind, "why": str(out.value if out.kind == "unsupported" else out.exc.exc_cls)})
        return
    src = R.source_of(is_un, val)
    res = out.value
    i = path.fresh("i", IntS)
    # ---- which constructor
    if is_un and kind != "iterator":
        want_ctor = slf.fields["t"] if kind == "structured" else slf.fields["origin"]
        ok = isinstance(res, rw.Built) and res.ctor is want_ctor
        chk.add(Ob(func, CALL_CLAUSES[0], pid, hy, z3.BoolVal(bool(ok))))
        body = (res.kwargs if kind == "structured" else res.source) if isinstance(res, rw.Built) else None
    else:
        # marshallers build a fresh exact list / dict display; the iterator unmarshaller returns the generator
        ok = isinstance(res, (SSeq, list, rw.CompDict)) and not isinstance(res, rw.Built)
        if not is_un and kind in ("iterable", "fixedtuple"):
            ok = ok and (isinstance(res, list) or res.kind == "list")
        chk.add(Ob(func, CALL_CLAUSES[0], pid, hy, z3.BoolVal(bool(ok))))
        body = res
    if body is None:
        _fail_all(chk, func, CALL_CLAUSES[1:], pid, hy, {"note": "result is not the expected construction"})
        return
    # ---- member-wise equality + exception parity
    if kind in ("iterable", "iterator"):
        s = seq_of(body) if not isinstance(body, rw.CompDict) else None
        if s is None:
            _fail_all(chk, func, CALL_CLAUSES[1:], pid, hy, {"note": "not a sequence"})
            return
        member = to_val(slf.fields["values"])
        n = s.length if not isinstance(s.length, int) else z3.IntVal(s.length)
        chk.add(Ob(func, CALL_CLAUSES[1], pid, hy + [i >= 0, i < rw.vals_n(src)],
                   z3.And(n == rw.vals_n(src), to_val(s.at(SInt(i))) == run(member, rw.val_at(src, i)))))
        raises = getattr(s, "saved_raises", None) or s.elem_raises
        rz = raises(SInt(i)) if raises else z3.BoolVal(False)
        chk.add(Ob(func, CALL_CLAUSES[2], pid, hy + [i >= 0, i < rw.vals_n(src)],
                   rz == run_raises(member, rw.val_at(src, i))))
    elif kind == "fixedtuple":
        s = seq_of(body)
        n, r = cur["n"], cur["r"]
        ln = s.length if not isinstance(s.length, int) else z3.IntVal(s.length)
        m = z3.If(n <= rw.vals_n(src), n, rw.vals_n(src))
        chk.add(Ob(func, CALL_CLAUSES[1], pid, hy + [i >= 0, i < m],
                   z3.And(ln == m, to_val(s.at(SInt(i))) == run(r(i), rw.val_at(src, i)))))
        raises = getattr(s, "saved_raises", None) or s.elem_raises
        rz = raises(SInt(i)) if raises else z3.BoolVal(False)
        chk.add(Ob(func, CALL_CLAUSES[2], pid, hy + [i >= 0, i < m], rz == run_raises(r(i), rw.val_at(src, i))))
    elif kind == "mapping":
        kr, vr = to_val(slf.fields["keys"]), to_val(slf.fields["values"])
        if isinstance(body, rw.CompDict):
            n = body.n
            key_i, val_i = to_val(body.key(SInt(i))), to_val(body.val(SInt(i)))
            keep = body.keep(SInt(i))
            rz = body.raises(SInt(i))
        else:
            s = seq_of(body)
            n = s.length
            pair = s.at(SInt(i))
            key_i, val_i = to_val(pair[0]), to_val(pair[1])
            keep = z3.BoolVal(True)
            raises = getattr(s, "saved_raises", None) or s.elem_raises
            rz = raises(SInt(i)) if raises else z3.BoolVal(False)
        n = n if not isinstance(n, int) else z3.IntVal(n)
        chk.add(Ob(func, CALL_CLAUSES[1], pid, hy + [i >= 0, i < rw.items_n(src)],
                   z3.And(n == rw.items_n(src), keep, key_i == run(kr, rw.item_k(src, i)),
                          val_i == run(vr, rw.item_v(src, i)))))
        chk.add(Ob(func, CALL_CLAUSES[2], pid, hy + [i >= 0, i < rw.items_n(src)],
                   rz == z3.Or(run_raises(kr, rw.item_k(src, i)), run_raises(vr, rw.item_v(src, i)))))
    elif kind == "structured":
        fhas, fget = cur["fhas"], cur["fget"]
        if not isinstance(body, rw.CompDict):
            _fail_all(chk, func, CALL_CLAUSES[1:], pid, hy, {"note": "kwargs are not a field comprehension"})
            return
        n = body.n if not isinstance(body.n, int) else z3.IntVal(body.n)
        k_i, v_i = rw.item_k(src, i), rw.item_v(src, i)
        chk.add(Ob(func, CALL_CLAUSES[1], pid, hy + [i >= 0, i < rw.items_n(src)],
                   z3.And(n == rw.items_n(src), body.keep(SInt(i)) == fhas(k_i),
                          z3.Implies(fhas(k_i), z3.And(to_val(body.key(SInt(i))) == k_i,
                                                       to_val(body.val(SInt(i))) == run(fget(k_i), v_i))))))
        chk.add(Ob(func, CALL_CLAUSES[2], pid, hy + [i >= 0, i < rw.items_n(src)],
                   body.raises(SInt(i)) == z3.And(fhas(k_i), run_raises(fget(k_i), v_i))))


INIT_CLAUSE = "member-routines-are-looked-up-by-member-annotation"


def init_clauses(chk, I, mod, cls, kind):
    if kind == "structured":
        return fields_by_var_clauses(chk, I, mod, cls)
    func, results = R.run_init(I, mod, cls, kind)
    for pi, (path, out, obls, writes, cur) in enumerate(results):
        _init_one(chk, func, kind, pi, path, out, cur)
    chk.add(Ob(func, "cover", "pre", cover_hyps(results), z3.BoolVal(True), expect="sat"))


def _init_one(chk, func, kind, pi, path, out, cur):
    pid, hy = f"p{pi}", path.hyps
    t, c, slf = cur["t"], cur["ctx"], cur["self"]
    if out.kind == "raise" and out.exc.exc_cls is KeyError:
        # a failed member lookup propagates as KeyError: allowed (C15 proves it does not happen)
        chk.add(Ob(func, INIT_CLAUSE, pid, hy, z3.BoolVal(True), {"trivial": True}))
        return
    if out.kind != "ret":
        _fail_all(chk, func, [INIT_CLAUSE], pid, hy, {"outcome": out.kind, "why": str(out.value or out.exc.exc_cls)})
        return
    look = lambda j: rw.ctx_val(c.ident, rw.arg(t, j))
    f = slf.fields
    if kind in ("iterable", "iterator"):
        goal = to_val(f["values"]) == look(0) if "values" in f else z3.BoolVal(False)
    elif kind == "mapping":
        goal = z3.And(to_val(f["keys"]) == look(0), to_val(f["values"]) == look(1)) \
            if "keys" in f and "values" in f else z3.BoolVal(False)
    else:
        s = seq_of(f.get("ordered_routines"))
        if s is None:
            goal = z3.BoolVal(False)
        else:
            j = path.fresh("j", IntS)
            n = s.length if not isinstance(s.length, int) else z3.IntVal(s.length)
            hy = hy + [j >= 0, j < rw.nargs(t)]
            goal = z3.And(n == rw.nargs(t), to_val(s.at(SInt(j))) == look(j))
    chk.add(Ob(func, INIT_CLAUSE, pid, hy, goal))


# ----------------------------------------------------------------------------- StructuredType._fields_by_var
def fields_by_var_clauses(chk, I, mod, cls):
    """Loop over the type hints: fields[name_j] = lookup(ctx, hint_j) or lookup(ctx, evaluate(hint_j))
    or a no-op routine - keyed by the field's *annotation*."""
    from pyvc.stmt import LoopSpec
    from pyvc.core import Stub
    func = f"{mod}.{cls}._fields_by_var"
    hint_n = z3.Function("hints_n", Val, IntS)
    hint_name = z3.Function("hint_name", Val, IntS, Val)
    hint_t = z3.Function("hint_type", Val, IntS, Val)
    hidx = z3.Function("hint_index", Val, IntS)
    noop = z3.Function("noop_routine_for", Val, Val)
    box = {}

    def cached_type_hints(I, path, a, k):
        t = to_val(a[0])
        d = SDict(lambda key: z3.And(hidx(key) >= 0, hidx(key) < hint_n(t), hint_name(t, hidx(key)) == key),
                  lambda key: SV(hint_t(t, hidx(key))),
                  keyseq=SSeq(hint_n(t), lambda i: SV(hint_name(t, to_int(i))), "list"))
        d.items_at = lambda i: (SV(hint_name(t, to_int(i))), SV(hint_t(t, to_int(i))))
        return d
    I.stubs["typelib.py.inspection.cached_type_hints"] = Stub(
        "inspection.cached_type_hints", cached_type_hints,
        "cached_type_hints(t): field name -> annotation, distinct names, definition order (typing.get_type_hints)")

    def iter_hook(I, path, v):
        from pyvc.env import _MISSING
        from pyvc.expr import ItemsView
        if isinstance(v, ItemsView) and hasattr(v.d, "items_at"):
            return SSeq(v.d.keyseq.length, v.d.items_at, "list")
        return _MISSING
    I.hooks["iter"] = iter_hook

    # the unmarshaller leaves out dataclass fields that are not constructor arguments (fix 85dc48c): the set of their names is
    # taken by contract for exactly this expression (dataclasses: __dataclass_fields__ maps field name -> Field, Field.init)
    noinit = z3.Function("is_init_false_field", Val, Val, BoolS)

    class NoInitNames:
        host_symbolic = True

        def __init__(self, t):
            self.t = t
    I.expr_contracts = {
        "{f.name for f in getattr(self.t, '__dataclass_fields__', {}).values() if not f.init}":
            lambda I, env, path: (I.assumed_used.add("dataclasses: {f.name for f in t.__dataclass_fields__.values() if not f.init} is the set of "
                                                      "names of t's fields declared init=False (empty for a class that is not a dataclass)"),
                                  NoInitNames(to_val(I.getattr(env.lookup("self"), "t", path))))[1]}
    prev_contains = I.hooks.get("contains")

    def contains(I, path, container, item):
        if isinstance(container, NoInitNames):
            return SBool(noinit(container.t, to_val(item)))
        if prev_contains is not None:
            return prev_contains(I, path, container, item)
        raise Unsupported(f"`in` on {container!r}")
    I.hooks["contains"] = contains
    is_un = "unmarshals" in mod

    def inst(I, path, cv, args, kwargs):
        from pyvc.env import _MISSING
        if cv.name.startswith("NoOp"):
            return SV(noop(to_val(args[0])))
        return _MISSING
    I.hooks["instantiate"] = inst

    def spec_value(c, t, j):
        h = hint_t(t, j)
        e = rw.evaluate_f(h)
        return z3.If(rw.ctx_has(c, h), rw.ctx_val(c, h), z3.If(rw.ctx_has(c, e), rw.ctx_val(c, e), noop(h)))

    import ast as _ast
    _m, _c, _node = I.src.find_def(f"{mod}.{cls}._fields_by_var")
    FBV = next((a.targets[0].id for a in _ast.walk(_node) if isinstance(a, _ast.Assign) and len(a.targets) == 1 and isinstance(a.targets[0], _ast.Name)
                and isinstance(a.value, _ast.Dict) and not a.value.keys), "fields_by_var")     # the local initialised with {} (by role, not by name)

    def havoc(I, path, env, k):
        env.set(FBV, SDict.from_arrays(path.fresh("f_has", z3.ArraySort(Val, BoolS)),
                                                   path.fresh("f_val", z3.ArraySort(Val, Val))))

    def dom(t, key, k):
        base = z3.And(hidx(key) >= 0, hidx(key) < k, hint_name(t, hidx(key)) == key)
        return z3.And(base, z3.Not(noinit(t, key))) if is_un else base

    def inv(I, path, env, k):
        t, c = box["t"], box["c"]
        d = env.lookup(FBV)
        if isinstance(d, dict) and not d:
            has, get = (lambda key: z3.BoolVal(False)), (lambda key: VNone)
        else:
            has, get = d.has, (lambda key: to_val(d.get(key)))
        return [Q([Val], lambda key: has(key) == dom(t, key, k), name="fields-domain"),
                Q([Val], lambda key: z3.Implies(dom(t, key, k), get(key) == spec_value(c.ident, t, hidx(key))),
                  name="fields-values")]
    I.loop_specs[(func, 0)] = LoopSpec("hints", havoc, inv)

    def mk(I, path):
        for a in R.routine_axioms():
            path.assume(a)
        t = path.fresh("t")
        c = rw.Ctx(path.fresh("ctx"))
        path.assume(hint_n(t) >= 0)
        path.assume(Q([IntS], lambda j: z3.Implies(z3.And(j >= 0, j < hint_n(t)), hidx(hint_name(t, j)) == j),
                      trigger=hint_name, pick=[1], name="field-names-distinct"))
        box.update(t=t, c=c)
        slf = rw.routine_self(I, mod, cls, {"t": SV(t), "context": c, "origin": SV(path.fresh("origin")), "var": None})
        return [slf], {}, {"t": t, "ctx": c}
    results = I.run_function(func, mk)
    for pi, (path, out, obls, writes, cur) in enumerate(results):
        _fbv_one(chk, func, pi, path, out, obls, cur, hint_n, hidx, hint_name, spec_value, noinit if is_un else None)
    chk.add(Ob(func, "cover", "pre", cover_hyps(results), z3.BoolVal(True), expect="sat"))


def _fbv_one(chk, func, pi, path, out, obls, cur, hint_n, hidx, hint_name, spec_value, noinit=None):
    pid, hy = f"p{pi}", path.hyps
    t, c = cur["t"], cur["ctx"]
    for nm, pc, goal in obls:
        chk.add(Ob(func, nm, pid, pc, goal))
    if out.kind == "end":
        return
    # (for the unmarshaller: the hinted names that are constructor arguments - init=False dataclass fields are left out)
    names = ["fields-are-exactly-the-hinted-names", "field-routine-is-looked-up-by-the-field's-annotation"]
    if out.kind != "ret" or not isinstance(out.value, (SDict, dict)):
        _fail_all(chk, func, names + ["loop-preserve:hints"], pid, hy,
                  {"outcome": out.kind, "why": str(out.value if out.kind != "raise" else out.exc.exc_cls)})
        return
    d = out.value
    key = path.fresh("key")
    dom = z3.And(hidx(key) >= 0, hidx(key) < hint_n(t), hint_name(t, hidx(key)) == key)
    if noinit is not None:
        dom = z3.And(dom, z3.Not(noinit(t, key)))
    if isinstance(d, dict):
        chk.add(Ob(func, names[0], pid, hy, z3.BoolVal(False), {"note": "concrete dict returned"}))
        return
    chk.add(Ob(func, names[0], pid, hy, d.has(key) == dom))
    chk.add(Ob(func, names[1], pid, hy + [dom], to_val(d.get(key)) == spec_value(c.ident, t, hidx(key))))


def obligations(chk):
    constructor_obligations(chk)
    I = R.make_interp()
    for mod, cls, kind in R.COMPOSITES:
        call_clauses(chk, I, mod, cls, kind)
    for mod, cls, kind in R.COMPOSITES:
        I2 = R.make_interp()
        init_clauses(chk, I2, mod, cls, kind)
        chk.trusted.update(I2.assumed_used)
    chk.trusted.update(I.assumed_used)
    for mod, cls, fac in DELAYED:
        delayed_clauses(chk, mod, cls, fac)
    slots_scan_obligation(chk, I)
    # "irrespective of name coincidences ... or one type reachable through several paths": the reference that stands for a
    # revisited member type is pinned to that type on an object of its own (props/c11.py; shared with C07 and C11)
    from props import c11
    c11.forwardref_obligations(chk)


# ----------------------------------------------------------------------------- Delayed proxies
DELAYED = [("typelib.unmarshals.api", "DelayedUnmarshaller", "unmarshaller"),
           ("typelib.marshals.api", "DelayedMarshaller", "marshaller")]
factory_f = z3.Function("factory", Val, Val)          # (un)marshaller(t): the memoised factory (C12: a function of t)
slots_n = z3.Function("slots_n", Val, IntS)
slot_name = z3.Function("slot_name", Val, IntS, Val)
attr_of = z3.Function("attr_of", Val, Val, Val)


def delayed_interp(mod, factory_name):
    import builtins as B
    from pyvc.core import Stub, VStr, str_id
    from pyvc.stmt import LoopSpec
    from pyvc.env import _MISSING
    I = R.make_interp()
    I.stubs[f"{mod}.{factory_name}"] = Stub(f"{factory_name} (memoised factory; own contract)",
                                            lambda I, p, a, k: SV(factory_f(to_val(a[0]))), None)
    I.sv_attr["__slots__"] = lambda I, path, obj: SSeq(slots_n(obj.t), lambda i, t=obj.t: SV(slot_name(t, to_int(i))),
                                                       "tuple")

    def getattr_model(I, path, args, kw):
        if len(args) == 2 and isinstance(args[0], SV) and isinstance(args[1], SV):
            return SV(attr_of(args[0].t, args[1].t))
        return _MISSING
    prev_getattr = I.builtin_models[B.getattr]
    I.builtin_models[B.getattr] = lambda I, p, a, k: (lambda r: r if r is not _MISSING else prev_getattr(I, p, a, k))(
        getattr_model(I, p, a, k))

    def setattr_model(I, path, args, kw):
        obj, name, v = args
        if isinstance(obj, Obj) and isinstance(name, SV):
            for f in list(obj.fields):
                old = obj.fields[f]
                fname = VStr(z3.IntVal(str_id(f)))
                obj.fields[f] = SV(z3.If(name.t == fname, to_val(v), to_val(old)))
            return None
        if isinstance(obj, Obj) and isinstance(name, str):
            obj.fields[name] = v
            return None
        return _MISSING
    I.builtin_models[B.setattr] = setattr_model
    return I


def delayed_clauses(chk, mod, cls, factory_name):
    from pyvc.core import VStr, str_id
    from pyvc.stmt import LoopSpec
    box = {}

    def slot_axiom(r):
        # no routine class declares a slot called `_resolved` or `t`'s ghost: proved exhaustively over the
        # current source by `slots_scan_obligation`
        res = VStr(z3.IntVal(str_id("_resolved")))
        return Q([IntS], lambda i: slot_name(r, i) != res, trigger=slot_name, pick=[1], name="no-slot-named-_resolved")

    def mk_self(I, path, resolved_state):
        t0 = path.fresh("t0")
        R0 = factory_f(t0)
        path.assume(Val.is_VObj(R0))
        path.assume(slots_n(R0) >= 0)
        path.assume(slot_axiom(R0))
        fields = {"t": SV(t0), "origin": SV(path.fresh("origin")), "context": rw.Ctx(path.fresh("ctx")), "var": None}
        if resolved_state == "none":
            fields["_resolved"] = None
        else:
            fields["_resolved"] = SV(R0)           # class invariant: None or factory(t0)
        slf = rw.routine_self(I, mod, cls, fields)
        box.update(t0=t0, R0=R0)
        return slf, t0, R0

    for state in ("none", "set"):
        I = delayed_interp(mod, factory_name)
        func = f"{mod}.{cls}.resolved"

        def havoc(I, path, env, k):
            slf = env.lookup("self")
            for f in list(slf.fields):
                if not isinstance(slf.fields[f], rw.Ctx):
                    slf.fields[f] = SV(path.fresh("h_" + f))

        def inv(I, path, env, k):
            slf = env.lookup("self")
            return [to_val(slf.fields["_resolved"]) == box["R0"]]
        I.loop_specs[(func, 0)] = LoopSpec("slots", havoc, inv)

        def mk(I, path, state=state):
            slf, t0, R0 = mk_self(I, path, state)
            return [slf], {}, {"self": slf, "t0": t0, "R0": R0}
        results = I.run_function(func, mk)
        for pi, (path, out, obls, writes, cur) in enumerate(results):
            _delayed_resolved_one(chk, func, state, pi, path, out, obls, cur)
        chk.trusted.update(I.assumed_used)

        func2 = f"{mod}.{cls}.__call__"
        I.loop_specs[(func, 0)] = LoopSpec("slots", havoc, inv)

        def mk2(I, path, state=state):
            slf, t0, R0 = mk_self(I, path, state)
            val = path.fresh("val")
            return [slf, SV(val)], {}, {"self": slf, "t0": t0, "R0": R0, "val": val}
        results = I.run_function(func2, mk2)
        for pi, (path, out, obls, writes, cur) in enumerate(results):
            _delayed_call_one(chk, func2, state, pi, path, out, obls, cur)


def _delayed_resolved_one(chk, func, state, pi, path, out, obls, cur):
    pid, hy = f"{state}/p{pi}", path.hyps
    for nm, pc, goal in obls:
        chk.add(Ob(func, nm, pid, pc, goal))
    if out.kind == "end":
        return
    names = ["resolves-own-reference-through-the-factory", "keeps-class-invariant"]
    if out.kind != "ret":
        _fail_all(chk, func, names, pid, hy, {"outcome": out.kind, "why": str(out.value if out.kind != "raise" else out.exc.exc_cls)})
        return
    chk.add(Ob(func, names[0], pid, hy, to_val(out.value) == cur["R0"]))
    chk.add(Ob(func, names[1], pid, hy, to_val(cur["self"].fields["_resolved"]) == cur["R0"]))


def _delayed_call_one(chk, func, state, pi, path, out, obls, cur):
    pid, hy = f"{state}/p{pi}", path.hyps
    if out.kind == "end":
        return
    names = ["delegates-to-the-routine-of-its-own-reference", "raises-exactly-when-that-routine-raises"]
    R0, val = cur["R0"], cur["val"]
    if out.kind == "unsupported":
        _fail_all(chk, func, names, pid, hy, {"engine": out.value})
        return
    if out.kind == "ret":
        chk.add(Ob(func, names[0], pid, hy, to_val(out.value) == run(R0, val)))
        chk.add(Ob(func, names[1], pid, hy, z3.Not(run_raises(R0, val))))
    else:
        from_member = not isinstance(out.exc.exc_cls, type)
        chk.add(Ob(func, names[0], pid, hy, z3.BoolVal(True), {"trivial": True}))
        chk.add(Ob(func, names[1], pid, hy, z3.And(z3.BoolVal(from_member), run_raises(R0, val))))


def slots_scan_obligation(chk, I):
    """Exhaustive over the current source: no class in the routines/api modules declares a slot named
    `_resolved` (the Delayed proxies copy the resolved routine's slots onto themselves)."""
    import ast
    bad, n = [], 0
    for m in ("typelib.unmarshals.routines", "typelib.marshals.routines", "typelib.unmarshals.api", "typelib.marshals.api"):
        for node in ast.walk(I.src.module(m)):
            if isinstance(node, ast.ClassDef):
                for s in node.body:
                    if isinstance(s, ast.Assign) and any(isinstance(t, ast.Name) and t.id == "__slots__" for t in s.targets):
                        n += 1
                        try:
                            names = ast.literal_eval(s.value)
                        except Exception:
                            bad.append(f"{m}.{node.name}: __slots__ is not a literal")
                            continue
                        if "_resolved" in names:
                            bad.append(f"{m}.{node.name}")
    chk.add(Ob("typelib.(un)marshals.routines.*.__slots__", "no-slot-named-_resolved", "ast-scan", [],
               z3.BoolVal(not bad), {"classes_scanned": n, "bad": bad}))


# ----------------------------------------------------------------------------- constructors: the class invariant the __call__ contracts assume
def constructor_obligations(chk):
    """Every contract above describes a routine object by its attributes (t, origin, context, var, caster, values,
    fields_by_var, _resolved): here the constructors are run on an arbitrary annotation and context and proved to establish
    exactly that - t is the annotation given, origin is inspection.origin(t), context / var are the arguments unchanged,
    the cast target is the origin, the literal values are inspection.args(t) (evaluated on the unmarshal side), the structured
    field table is whatever `_fields_by_var()` returns (its own clauses are above), a delayed proxy starts unresolved."""
    import ast as _ast
    from pyvc.core import Closure
    cases = [(R.UN, "AbstractUnmarshaller", {}), (R.MA, "AbstractMarshaller", {}),
             (R.UN, "CastUnmarshaller", {"caster": "origin"}), (R.UN, "LiteralUnmarshaller", {"values": "args"}),
             (R.MA, "LiteralMarshaller", {"values": "args"}),
             (R.UN, "StructuredTypeUnmarshaller", {"fields_by_var": "fbv"}), (R.MA, "StructuredTypeMarshaller", {"fields_by_var": "fbv"}),
             ("typelib.unmarshals.api", "DelayedUnmarshaller", {"_resolved": "none"}), ("typelib.marshals.api", "DelayedMarshaller", {"_resolved": "none"})]
    for mod, cls, extra in cases:
        I = R.make_interp()
        func = f"{mod}.{cls}.__init__"
        fbv = z3.Function("fields_by_var_result", Val, Val)
        for m_ in (R.UN, R.MA):
            for c_ in ("StructuredTypeUnmarshaller", "StructuredTypeMarshaller"):
                if c_.endswith("Unmarshaller") == (m_ == R.UN):
                    I.stubs[f"{m_}.{c_}._fields_by_var"] = Stub("_fields_by_var", lambda I, p, a, k: SV(fbv(to_val(a[0].fields["t"]))), None)

        def mk(I, path, mod=mod, cls=cls):
            for a in R.routine_axioms():
                path.assume(a)
            t, v = path.fresh("t"), path.fresh("var")
            c = rw.Ctx(path.fresh("ctx"))
            slf = rw.routine_self(I, mod, cls, {})
            return [slf, SV(t), c], {"var": SV(v)}, {"t": t, "v": v, "ctx": c, "self": slf}
        names = ["t-origin-context-var-are-the-annotation-its-origin-and-the-arguments-unchanged"] + \
                (["the-extra-attribute-is-what-the-call-contracts-assume"] if extra else [])
        results = I.run_function(func, mk)
        for pi, (path, out, obls, writes, cur) in enumerate(results):
            pid, hy = f"p{pi}", path.hyps
            f = cur["self"].fields
            if out.kind not in ("ret", "end"):
                for nm in names:
                    chk.add(Ob(func, nm, pid, hy, z3.BoolVal(False), {"outcome": out.kind, "why": str(out.value if out.kind != "raise" else out.exc.exc_cls)[:160]}))
                continue
            t, v = cur["t"], cur["v"]
            ok = all(k in f for k in ("t", "origin", "context", "var")) and f.get("context") is cur["ctx"]
            goal = z3.And(to_val(f["t"]) == t, to_val(f["origin"]) == rw.origin_f(t), to_val(f["var"]) == v) if ok else z3.BoolVal(False)
            chk.add(Ob(func, names[0], pid, hy, goal))
            for attr_, what in extra.items():
                if attr_ not in f:
                    g = z3.BoolVal(False)
                elif what == "origin":
                    g = to_val(f[attr_]) == rw.origin_f(t)
                elif what == "none":
                    g = z3.BoolVal(f[attr_] is None)
                elif what == "fbv":
                    g = to_val(f[attr_]) == fbv(t)
                else:   # the member annotations of t, in order
                    sq = f[attr_]
                    j = path.fresh("j", IntS)
                    from pyvc.expr import seq_of, _len_term
                    s_ = seq_of(sq)
                    g = z3.BoolVal(False) if s_ is None else z3.And(_len_term(s_.length) == rw.nargs(t),
                                                                   z3.Implies(z3.And(j >= 0, j < rw.nargs(t)), to_val(s_.at(SInt(j))) == rw.arg(t, j)))
                chk.add(Ob(func, names[1], pid, hy, g, {"attribute": attr_}))
        if results:
            chk.add(Ob(func, "cover", "pre", cover_hyps(results), z3.BoolVal(True), expect="sat"))
        chk.trusted.update(I.assumed_used)
