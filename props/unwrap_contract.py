"""Contract of inspection.unwrap (shared by C11, C16, C09): unwrap(t) = base(t) for wrapper chains of any
length and any interleaving of NewType / TypeAliasType / Final / ClassVar, with a string-valued alias
becoming a module-qualified forward reference.  Proved with a while-loop invariant on the real AST.
"""
from __future__ import annotations

import z3

from pyvc.core import (SV, SBool, SInt, Obj, Val, VNone, BoolS, IntS, Cls, to_val, cls_of, sub, cls_const, class_axioms, Stub)
from pyvc.driver import Ob, cover_hyps
from pyvc.ground import Q
from pyvc.stmt import LoopSpec
from pyvc.env import _MISSING
from pyvc.expr import SCls
from pyvc.interp import Interp
from pyvc.builtins_model import install

INSP = "typelib.py.inspection"
is_qual = z3.Function("is_final_or_classvar_form", Val, BoolS)     # should_unwrap(t)
qual_arg = z3.Function("qualifier_argument", Val, Val)             # t.__args__[0]
is_alias = z3.Function("is_type_alias", Val, BoolS)                # istypealiastype(t)
alias_value = z3.Function("alias_value", Val, Val)                 # t.__value__
module_of = z3.Function("module_of", Val, Val)                     # t.__module__
is_newtype = z3.Function("is_newtype", Val, BoolS)                 # hasattr(t, '__supertype__')
supertype = z3.Function("newtype_supertype", Val, Val)
fwd = z3.Function("forwardref", Val, Val, Val)                     # refs.forwardref(text, module=m)
base = z3.Function("base", Val, Val)                               # the spec: every wrapper layer removed
depth = z3.Function("wrapper_depth", Val, IntS)


def is_text(v):
    return sub(cls_of(v), cls_const(str))


def wrapper(t):
    return z3.Or(is_qual(t), is_alias(t), is_newtype(t))


def inner(t):
    return z3.If(is_qual(t), qual_arg(t), z3.If(is_alias(t), alias_value(t), supertype(t)))


def spec_axioms():
    """Definition of base (by cases on the outermost layer) + well-foundedness of wrapper nesting."""
    def base_def(t):
        str_alias = z3.And(is_alias(t), is_text(alias_value(t)))
        return base(t) == z3.If(z3.Not(wrapper(t)), t,
                                z3.If(str_alias, fwd(alias_value(t), module_of(t)), base(inner(t))))
    return [
        Q([Val], base_def, trigger=base, name="base-definition"),
        # a type object is at most one kind of wrapper (Final[...] / ClassVar[...] forms, TypeAliasType instances and
        # NewType callables are different kinds of objects)
        Q([Val], lambda t: z3.And(z3.Not(z3.And(is_qual(t), is_alias(t))), z3.Not(z3.And(is_qual(t), is_newtype(t))),
                                 z3.Not(z3.And(is_alias(t), is_newtype(t)))), trigger=[is_qual, is_alias, is_newtype], name="wrapper-kinds-disjoint"),
        # wrapper objects are finite: nesting depth decreases strictly (so a wrapper never wraps itself)
        Q([Val], lambda t: z3.And(depth(t) >= 0, z3.Implies(z3.And(wrapper(t), z3.Not(z3.And(is_alias(t), is_text(alias_value(t))))),
                                                            depth(inner(t)) < depth(t))), trigger=[is_qual, is_alias, is_newtype, depth], name="wrappers-well-founded"),
        z3.Not(wrapper(VNone)),
        # a ForwardRef / a str is not a wrapper
        Q([Val, Val], lambda a, m: z3.Not(wrapper(fwd(a, m))), trigger=fwd, name="forwardref-is-not-a-wrapper"),
    ]


def make_interp():
    I = install(Interp())
    I.stubs[f"{INSP}.should_unwrap"] = Stub("inspection.should_unwrap", lambda I, p, a, k: SBool(is_qual(to_val(a[0]))),
                                            "should_unwrap(t) <=> t is a Final[...] / ClassVar[...] form and not a Literal (C17)")
    I.stubs[f"{INSP}.istypealiastype"] = Stub("inspection.istypealiastype", lambda I, p, a, k: SBool(is_alias(to_val(a[0]))),
                                              "istypealiastype(t) <=> isinstance(t, TypeAliasType) (C17)")
    I.stubs["typelib.py.refs.forwardref"] = Stub(
        "refs.forwardref", lambda I, p, a, k: SV(fwd(to_val(a[0]), to_val(k.get("module")))),
        "refs.forwardref(text, module=m) builds typing.ForwardRef(text, module=m) (C11 obligation on refs.forwardref)")

    class ArgsOf:
        host_symbolic = True

        def __init__(self, t):
            self.t = t
    I.sv_attr["__args__"] = lambda I, path, obj: ArgsOf(obj.t)
    I.sv_attr["__value__"] = lambda I, path, obj: SV(alias_value(obj.t))
    I.sv_attr["__module__"] = lambda I, path, obj: SV(module_of(obj.t))
    I.sv_attr["__supertype__"] = lambda I, path, obj: SV(supertype(obj.t))
    orig_subscript = I.subscript

    def subscript(obj, idx, path, merge=False):
        if isinstance(obj, ArgsOf) and idx == 0:
            return SV(qual_arg(obj.t))
        return orig_subscript(obj, idx, path, merge)
    I.subscript = subscript

    def hasattr_hook(I, path, obj, name):
        if isinstance(obj, SV) and name == "__supertype__":
            return SBool(is_newtype(obj.t))
        return _MISSING
    I.hooks["hasattr"] = hasattr_hook
    return I


def obligations(chk):
    I = make_interp()
    func = f"{INSP}.unwrap"
    box = {}

    # the loop's two locals by role: the parameter being peeled, and the local that remembers its previous value (`<x> = <param>`)
    import ast as _ast
    _m, _c, _node = I.src.find_def(func)
    T = _node.args.args[0].arg
    LT = next((a.targets[0].id for a in _ast.walk(_node) if isinstance(a, _ast.Assign) and len(a.targets) == 1 and isinstance(a.targets[0], _ast.Name)
               and isinstance(a.value, _ast.Name) and a.value.id == T and a.targets[0].id != T), "lt")

    def havoc(I, path, env, k):
        env.set(T, SV(path.fresh("t_loop")))
        env.set(LT, SV(path.fresh("lt_loop")))

    def inv(I, path, env, k):
        t, lt = to_val(env.lookup(T)), to_val(env.lookup(LT))
        t0 = box["t0"]
        return [base(t) == base(t0), z3.Implies(lt == t, z3.Not(wrapper(t)))]

    spec = LoopSpec("layers", havoc, inv)
    spec.variant = lambda I, path, env: depth(to_val(env.lookup(T)))
    I.loop_specs[(func, 0)] = spec

    def mk(I, path):
        cls_const(str)
        t0 = path.fresh("t0")
        for a in spec_axioms():
            path.assume(a)
        box["t0"] = t0
        return [SV(t0)], {}, {"t0": t0}
    results = I.run_function(func, mk)
    n_ret = 0
    for pi, (path, out, obls, writes, cur) in enumerate(results):
        pid = f"p{pi}"
        for nm, pc, goal in obls:
            chk.add(Ob(func, nm, pid, pc + class_axioms(), goal))
        if out.kind == "end":
            continue
        hy = path.hyps + class_axioms()
        if out.kind == "ret":
            n_ret += 1
            chk.add(Ob(func, "result-is-the-type-with-every-wrapper-layer-removed", pid, hy, to_val(out.value) == base(cur["t0"])))
        else:
            chk.add(Ob(func, "result-is-the-type-with-every-wrapper-layer-removed", pid, hy, z3.BoolVal(False),
                       {"outcome": out.kind, "why": str(out.value if out.kind == "unsupported" else out.exc.exc_cls)}))
    # (a function none of whose paths returns fails the driver's `some-call-returns-normally` clause: a named violation, not a
    #  checker failure - seeds C09-8 / C17-8 were at first lost behind an exit 3 here)
    chk.add(Ob(func, "cover", "pre", cover_hyps(results), z3.BoolVal(True), expect="sat"))
    # lemma (induction on wrapper depth): base is idempotent
    t = z3.Const("t_ind", Val)
    ih = Q([Val], lambda s_: z3.Implies(depth(s_) < depth(t), base(base(s_)) == base(s_)), name="induction-hypothesis")
    chk.add(Ob(f"{INSP}.unwrap(spec base)", "lemma::base-is-idempotent (induction step on wrapper depth)", "lemma",
               spec_axioms() + [ih] + class_axioms(), base(base(t)) == base(t)))
    chk.trusted.update(I.assumed_used)
    chk.trusted.add("induction principle: a statement closed under the step 'holds for all types of smaller wrapper depth => holds "
                    "for t' holds for all types (wrapper depth is a natural number)")
    return I
