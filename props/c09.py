"""C09 — the type graph is a complete dependency order with every cycle cut.

Functions under contract: graph.get_type_graph (two nested loops with invariants over the heap: the
work-list, the visited set, the predecessor lists and the sorter's edges), graph.static_order and
graph.itertypes (wiring), graph.TypeNode.__post_init__, graph._level.

Heap model.  Sets / lists / the deque / the sorter are membership arrays (order and multiplicity
are irrelevant for the clauses proved; a deque pop returns an *arbitrary* member, so BFS and DFS
are both covered).  A node is the term node(type, unwrapped, var); `cyclic` is a ghost array
(TypeNode excludes it from equality and hashing).
"""
from __future__ import annotations

import z3

from pyvc.core import (SV, SBool, SInt, SSeq, SDict, Obj, Val, VNone, BoolS, IntS, Cls, to_val, to_int, to_bool_term, cls_of, sub,
                       cls_const, class_axioms, Stub, PyRaise, Unsupported)
from pyvc.driver import Ob, cover_hyps
from pyvc.ground import Q
from pyvc.stmt import LoopSpec
from pyvc.env import _MISSING
from pyvc.expr import BoundMethod
from props import uf_world as uw

G = "typelib.graph"
ArrB = z3.ArraySort(Val, BoolS)
node = z3.Function("node", Val, Val, Val, Val)             # (type, unwrapped, var)
ntype = z3.Function("node_type", Val, Val)
nunw = z3.Function("node_unwrapped", Val, Val)
nvar = z3.Function("node_var", Val, Val)
unwrap_f = z3.Function("unwrap", Val, Val)
fwdref = z3.Function("forwardref_of", Val, Val)            # refs.forwardref(<type>, ...): pinned to its argument (C11)
den = z3.Function("denotes", Val, Val)                     # what a pinned forward reference evaluates to
is_fwd = z3.Function("is_forward_reference", Val, BoolS)
is_literal = z3.Function("isliteral", Val, BoolS)
is_unres = z3.Function("isunresolvable", Val, BoolS)


def memberless(u):
    """annotations that hold no member types to convert: Literal (holds values) and pass-through (unresolvable) annotations"""
    return z3.Or(is_literal(u), is_unres(u))
nchildren = z3.Function("n_children", Val, IntS)           # _level(u): args(u) ++ hints(u)
child_var = z3.Function("child_var", Val, IntS, Val)
child_type = z3.Function("child_type", Val, IntS, Val)
EMPTY = None  # filled in make_interp (constants.empty, typing.Any lowered)


def node_axioms():
    return [
        Q([Val, Val, Val], lambda a, b, c: z3.And(ntype(node(a, b, c)) == a, nunw(node(a, b, c)) == b, nvar(node(a, b, c)) == c),
          trigger=node, name="node-accessors"),
        Q([Val], lambda t: z3.And(is_fwd(fwdref(t)), den(fwdref(t)) == t), trigger=fwdref, name="forwardref-of-a-type-is-pinned-to-it (C11)"),
        Q([Val], lambda u: nchildren(u) >= 0, trigger=nchildren, name="children-nonneg"),
        z3.Not(is_fwd(VNone)),
        Q([Val], lambda t: z3.Implies(unwrap_f(t) == VNone, t == VNone), trigger=unwrap_f, name="unwrap-yields-None-only-for-None (assumed: wrappers wrap types)"),
    ]


class MemSet:
    """list / set / deque as a membership array."""
    host_symbolic = True

    def __init__(self, arr, kind):
        self.arr, self.kind = arr, kind


class Sorter:
    host_symbolic = True

    def __init__(self, processed, edge):
        self.processed, self.edge = processed, edge      # Array(Val,Bool), Array(Val, Array(Val,Bool))


class World:
    """ghost state; kept in a per-path dict (`cur`) so that every explored path keeps its own final state"""

    def __init__(self):
        object.__setattr__(self, "cur", {})

    def __getattr__(self, k):          # cyc: ghost cyclic flags; rank: discovery stamp of a node; clock: next stamp
        return self.cur[k]

    def __setattr__(self, k, v):
        self.cur[k] = v

    def stamp(self, x):
        self.rank = z3.Store(self.rank, x, self.clock)
        self.clock = self.clock + 1


size = z3.Function("type_size", Val, IntS)                  # structural size of a type term (ghost measure)


def S(u):
    """unwrapped type that the cut never applies to: a stdlib type that is not a subscripted generic"""
    return z3.And(uw.uf("isstdlibtype", 1, BoolS)(u), z3.Not(uw.uf("issubscriptedgeneric", 1, BoolS)(u)))


def in_s(x):
    return S(unwrap_f(ntype(x)))


def cert(rank, p, x):
    """the edge p -> x descends the well-founded order  (class, measure):  non-stdlib nodes by discovery stamp, then
    plain stdlib nodes by structural size; no edge leads from the second class back to the first"""
    sp, sx = in_s(p), in_s(x)
    return z3.Or(z3.And(sx, z3.Not(sp)),
                 z3.And(sp, sx, size(unwrap_f(ntype(x))) < size(unwrap_f(ntype(p)))),
                 z3.And(z3.Not(sp), z3.Not(sx), z3.Select(rank, x) > z3.Select(rank, p)))


def skip_terms():
    import typing
    from typelib import constants
    return [to_val(constants.empty), to_val(typing.Any)]


def skipped(c):
    return z3.Or(*[c == s for s in skip_terms()])


def plain_node(u, i):
    c = child_type(u, i)
    return node(c, unwrap_f(c), child_var(u, i))


def cut_node(u, i):
    c = child_type(u, i)
    return node(fwdref(c), fwdref(unwrap_f(c)), child_var(u, i))


def make_interp(w: World):
    I = uw.make_interp(raising=False)
    import collections
    import graphlib
    import inspect as _inspect
    I.stubs["typelib.py.inspection.unwrap"] = Stub("inspection.unwrap", lambda I, p, a, k: SV(unwrap_f(to_val(a[0]))),
                                                   "unwrap(t) = base(t) (proved: props/unwrap_contract.py)")
    I.stubs["typelib.py.inspection.isunresolvable"] = Stub("inspection.isunresolvable", lambda I, p, a, k: SBool(is_unres(to_val(a[0]))), "isunresolvable (C17)")
    I.stubs["typelib.py.inspection.isliteral"] = Stub("inspection.isliteral", lambda I, p, a, k: SBool(is_literal(to_val(a[0]))), "isliteral (C17)")
    for nm in ("issubscriptedgeneric", "isstdlibtype"):
        I.stubs[f"typelib.py.inspection.{nm}"] = Stub(f"inspection.{nm}", (lambda nm: lambda I, p, a, k: SBool(uw.uf(nm, 1, BoolS)(to_val(a[0]))))(nm), f"{nm} (C17)")
    I.stubs["typelib.py.inspection.qualname"] = Stub("inspection.qualname", lambda I, p, a, k: SV(uw.uf("qualname", 1)(to_val(a[0]))), "qualname(x): a str")
    def forwardref_stub(I, p, a, k):
        w.cur.setdefault("fwd_calls", []).append((len(a), sorted(kk for kk, vv in k.items() if kk == "module" and vv is not None)))
        return SV(fwdref(to_val(a[0])))
    I.stubs["typelib.py.refs.forwardref"] = Stub("refs.forwardref", forwardref_stub,
                                                 "refs.forwardref(<type>, ...) is a ForwardRef pinned to that type (C11: a-reference-made-from-a-type-is-pinned-to-that-type)")

    def level(I, path, a, k):
        u = to_val(a[0])
        return SSeq(nchildren(u), lambda i, u=u: (SV(child_var(u, to_int(i))), SV(child_type(u, to_int(i)))), "gen")
    I.stubs[f"{G}._level"] = Stub("graph._level", level, "_level(u): the generic arguments followed by the field hints of u (proved separately below)")
    I.builtin_models[_inspect.isclass] = lambda I, path, a, k: SBool(uw.uf("isclass", 1, BoolS)(to_val(a[0])))
    I.builtin_models[graphlib.TopologicalSorter] = lambda I, path, a, k: Sorter(z3.K(Val, z3.BoolVal(False)), z3.K(Val, z3.K(Val, z3.BoolVal(False))))
    I.builtin_models[collections.deque] = lambda I, path, a, k: _from_items(a[0] if a else [], "deque")

    def _from_items(items, kind):
        arr = z3.K(Val, z3.BoolVal(False))
        for x in items:
            arr = z3.Store(arr, to_val(x), z3.BoolVal(True))
            if kind == "deque":
                w.stamp(to_val(x))
        return MemSet(arr, kind)
    orig_display = I._display

    def e_List(node_, env, path, merge):
        if not node_.elts:
            return MemSet(z3.K(Val, z3.BoolVal(False)), "list")
        return type(I).e_List(I, node_, env, path, merge)
    I.e_List = e_List

    def e_Set(node_, env, path, merge):
        return _from_items([I.eval(e, env, path, merge) for e in node_.elts], "set")
    I.e_Set = e_Set

    def inst(I, path, cv, args, kwargs):
        if cv.name == "TypeNode":
            ty = kwargs.get("type", args[0] if args else None)
            un = kwargs.get("unwrapped", args[1] if len(args) > 1 else None)
            var = kwargs.get("var", args[2] if len(args) > 2 else None)
            cyclic = kwargs.get("cyclic", False)
            un_t = to_val(ty) if un is None else z3.If(to_val(un) == VNone, to_val(ty), to_val(un))   # __post_init__ (own obligation)
            n = node(to_val(ty), un_t, to_val(var))
            if cyclic is True:
                w.cyc = z3.Store(w.cyc, n, z3.BoolVal(True))
            elif cyclic is not False:
                raise Unsupported("symbolic cyclic flag")
            return SV(n)
        return _MISSING
    I.hooks["instantiate"] = inst
    I.sv_attr["type"] = lambda I, path, obj: SV(ntype(obj.t))
    I.sv_attr["unwrapped"] = lambda I, path, obj: SV(nunw(obj.t))
    I.sv_attr["var"] = lambda I, path, obj: SV(nvar(obj.t))

    prev_method = I.hooks.get("method")

    def method(I, path, recv, name, args, kw):
        if isinstance(recv, MemSet):
            if name in ("append", "add", "appendleft"):
                recv.arr = z3.Store(recv.arr, to_val(args[0]), z3.BoolVal(True))
                if recv.kind == "deque":
                    w.stamp(to_val(args[0]))
                return None
            if name in ("popleft", "pop"):
                x = path.fresh("popped")
                path.assume(z3.Select(recv.arr, x))          # some member (any order: BFS, DFS, ...)
                recv.arr = z3.Store(recv.arr, x, z3.BoolVal(False))
                return SV(x)
        if isinstance(recv, Sorter) and name == "add":
            p = to_val(args[0])
            recv.processed = z3.Store(recv.processed, p, z3.BoolVal(True))
            row = z3.Select(recv.edge, p)
            for extra in args[1:]:
                from pyvc.interp import _StarArgs
                if isinstance(extra, _StarArgs) or isinstance(extra, MemSet):
                    ms = extra.seq if isinstance(extra, _StarArgs) else extra
                    new_row = path.fresh("row", ArrB)
                    path.assume(Q([Val], lambda x, new_row=new_row, row=row, arr=ms.arr:
                                  z3.Select(new_row, x) == z3.Or(z3.Select(row, x), z3.Select(arr, x)),
                                  name="sorter.add-accumulates-predecessors", pool=nodeish))
                    row = new_row
                else:
                    row = z3.Store(row, to_val(extra), z3.BoolVal(True))
            recv.edge = z3.Store(recv.edge, p, row)
            return None
        if isinstance(recv, str) and name == "join":
            return SV(path.fresh("joined"))
        if isinstance(recv, SV) and name == "split":
            r = uw.call_uf(I, path, "method.split", [recv] + list(args), kw, may_raise=False)
            from pyvc.core import seq_len
            path.assume(seq_len(r.t) >= 1)          # str.split always yields at least one piece
            return r
        return prev_method(I, path, recv, name, args, kw) if prev_method else _MISSING
    I.hooks["method"] = method
    orig_getattr = I.getattr

    def getattr_(obj, attr, path, env=None):
        if isinstance(obj, (MemSet, Sorter)):
            return BoundMethod(obj, attr)
        return orig_getattr(obj, attr, path, env)
    I.getattr = getattr_

    def contains(I, path, container, item):
        if isinstance(container, MemSet):
            return SBool(z3.Select(container.arr, to_val(item)))
        raise Unsupported(f"`in` on {container!r}")
    I.hooks["contains"] = contains
    orig_truth = I.truth

    def truth(v, path):
        if isinstance(v, MemSet):
            b = path.fresh("nonempty", BoolS)
            wit = path.fresh("member")
            path.assume(z3.Implies(b, z3.Select(v.arr, wit)))
            path.assume(Q([Val], lambda x: z3.Implies(z3.Select(v.arr, x), b), name="nonempty-intro"))
            return path.branch(b)
        return orig_truth(v, path)
    I.truth = truth
    prev_iter = I.hooks.get("iter")

    def iter_hook(I, path, v):
        if isinstance(v, MemSet):
            from pyvc.interp import _StarArgs
            s = SSeq(path.fresh("n_members", IntS), lambda i: SV(path.fresh("member_i")), "list")
            s.arr = v.arr
            return s
        return prev_iter(I, path, v) if prev_iter else _MISSING
    I.hooks["iter"] = iter_hook

    def getattr_default(I, path, obj, name, default):
        if isinstance(obj, SV) and name == "__module__":
            return SV(uw.uf("module_of", 1)(obj.t))
        return _MISSING
    I.hooks["getattr_default"] = getattr_default
    return I


_OR = z3.Function("bool_or", BoolS, BoolS, BoolS)


def or_axiom():
    return [Q([BoolS, BoolS], lambda a, b: _OR(a, b) == z3.Or(a, b), trigger=_OR, name="pointwise-or")]


# ----------------------------------------------------------------------------- invariants
def revisit(vis, x):
    """x is a cut node: its type is a pinned forward reference to a type that was already visited."""
    return z3.And(is_fwd(ntype(x)), z3.Or(z3.Select(vis, den(ntype(x))), z3.Select(vis, den(nunw(x)))))


def nodeish(t):
    """candidate instantiation terms for the node-quantified invariants: node(...) applications and the constants
    that stand for nodes (popped work items, skolem constants of goals); small integer terms for member indices"""
    if t.sort() != Val:
        return t.num_args() == 0 or t.decl().kind() in (z3.Z3_OP_ADD, z3.Z3_OP_SUB)
    if t.decl().name() == "node":
        return True
    if t.num_args() == 0:
        n = t.decl().name()
        return n.startswith(("popped", "sk_", "p!", "x!"))
    return False


def constish(t):
    """only the constants that stand for nodes (work items / skolems): the 'parent' position of an edge"""
    return t.sort() == Val and t.num_args() == 0 and t.decl().name().startswith(("popped", "sk_", "p!", "x!"))


def outer_inv(S, stack, vis, cyc, root, rank, clock):
    """S: Sorter state (processed, edge)."""
    proc, edge = S

    def complete(p, i):
        u = unwrap_f(ntype(p))
        c = child_type(u, i)
        row = z3.Select(edge, p)
        return z3.Implies(z3.And(z3.Select(proc, p), z3.Not(memberless(u)), i >= 0, i < nchildren(u), z3.Not(skipped(c))),
                          z3.Or(z3.Select(row, plain_node(u, i)), z3.And(z3.Select(row, cut_node(u, i)), z3.Select(cyc, cut_node(u, i)))))
    return [
        Q([Val, IntS], complete, name="O1-every-processed-node-has-a-predecessor-for-each-member", pool=[constish, nodeish]),
        Q([Val, Val], lambda p, x: z3.Implies(z3.And(z3.Select(z3.Select(edge, p), x), z3.Not(z3.Select(cyc, x))),
                                              z3.Or(z3.Select(proc, x), z3.Select(stack, x))), name="O2-plain-predecessors-are-processed-or-queued", pool=[constish, nodeish]),
        Q([Val], lambda x: z3.Implies(z3.Select(stack, x), z3.And(z3.Select(vis, ntype(x)), z3.Not(z3.Select(cyc, x)))), name="O3-queued-nodes-are-visited", pool=nodeish),
        Q([Val], lambda x: z3.Implies(z3.Select(cyc, x), revisit(vis, x)), name="O4-cyclic-nodes-are-pinned-references-to-visited-types", pool=nodeish),
        Q([Val, Val], lambda p, x: z3.Implies(z3.Select(z3.Select(edge, p), x), z3.Select(proc, p)), name="O5-edges-start-at-processed-nodes", pool=[constish, nodeish]),
        Q([Val], lambda x: z3.Implies(z3.Or(z3.Select(proc, x), z3.Select(stack, x)), z3.And(z3.Not(z3.Select(cyc, x)), z3.Not(is_fwd(ntype(x))))),
          name="O6-processed-and-queued-nodes-are-plain-types", pool=nodeish),
        Q([Val], lambda x: z3.Implies(z3.Select(proc, x), z3.Select(vis, ntype(x))), name="O7-processed-nodes-are-visited", pool=nodeish),
        Q([Val, Val], lambda p, x: z3.Implies(z3.And(z3.Select(z3.Select(edge, p), x), z3.Not(z3.Select(cyc, x))), cert(rank, p, x)),
          name="A1-every-edge-descends-the-well-founded-order", pool=[constish, nodeish]),
        Q([Val], lambda x: z3.Implies(z3.Or(z3.Select(proc, x), z3.Select(stack, x)), z3.Select(rank, x) < clock), name="C1-stamps-are-below-the-clock", pool=nodeish),
        z3.Or(z3.Select(proc, root), z3.Select(stack, root)),
    ]


_ROLES = {
    "graph": (lambda v: isinstance(v, Sorter), "topological sorter"),
    "stack": (lambda v: isinstance(v, MemSet) and v.kind == "deque", "work-list deque"),
    "visited": (lambda v: isinstance(v, MemSet) and v.kind == "set", "visited set"),
    "predecessors": (lambda v: isinstance(v, MemSet) and v.kind == "list", "predecessor list"),
    "parent": (lambda v: isinstance(v, SV) and z3.is_const(v.t) and v.t.decl().name().startswith("popped"), "popped work item"),
}


def _role(env, role):
    """the local variable playing `role` in get_type_graph, found by what it holds (robust to renaming locals)"""
    pred, what = _ROLES[role]
    return env.find(pred, what)


def obligations(chk):
    w = World()
    I = make_interp(w)
    func = f"{G}.get_type_graph"
    box = {}

    def get_state(env):
        g, st, vi = env.lookup(_role(env, "graph")), env.lookup(_role(env, "stack")), env.lookup(_role(env, "visited"))
        return (g.processed, g.edge), st.arr, vi.arr, w.cyc

    def havoc_outer(I, path, env, k):
        env.set(_role(env, "graph"), Sorter(path.fresh("processed", ArrB), path.fresh("edge", z3.ArraySort(Val, ArrB))))
        env.set(_role(env, "stack"), MemSet(path.fresh("stack", ArrB), "deque"))
        env.set(_role(env, "visited"), MemSet(path.fresh("visited", ArrB), "set"))
        w.cyc = path.fresh("cyclic", ArrB)
        w.rank, w.clock = path.fresh("rank", z3.ArraySort(Val, IntS)), path.fresh("clock", IntS)

    def inv_outer(I, path, env, k):
        S, stack, vis, cyc = get_state(env)
        return outer_inv(S, stack, vis, cyc, box["root"], w.rank, w.clock)
    I.loop_specs[(func, 0)] = LoopSpec("worklist", havoc_outer, inv_outer)

    def havoc_inner(I, path, env, k):
        box["stack_in"], box["vis_in"], box["cyc_in"] = env.lookup(_role(env, "stack")).arr, env.lookup(_role(env, "visited")).arr, w.cyc
        env.set(_role(env, "stack"), MemSet(path.fresh("stack_i", ArrB), "deque"))
        env.set(_role(env, "visited"), MemSet(path.fresh("visited_i", ArrB), "set"))
        env.set(_role(env, "predecessors"), MemSet(path.fresh("preds_i", ArrB), "list"))
        w.cyc = path.fresh("cyclic_i", ArrB)
        w.rank, w.clock = path.fresh("rank_i", z3.ArraySort(Val, IntS)), path.fresh("clock_i", IntS)

    def inv_inner(I, path, env, k):
        S, stack, vis, cyc = get_state(env)
        preds = env.lookup(_role(env, "predecessors")).arr
        parent = to_val(env.lookup(_role(env, "parent")))
        u = unwrap_f(ntype(parent))
        proc, edge = S
        # the outer invariant, with the popped parent "in flight" (neither queued nor processed yet)
        inv = outer_inv(S, z3.Store(stack, parent, z3.BoolVal(True)), vis, cyc, box["root"], w.rank, w.clock)

        def member_done(i):
            c = child_type(u, i)
            return z3.Implies(z3.And(i >= 0, i < k, z3.Not(skipped(c))),
                              z3.Or(z3.Select(preds, plain_node(u, i)), z3.And(z3.Select(preds, cut_node(u, i)), z3.Select(cyc, cut_node(u, i)))))
        inv += [
            Q([IntS], member_done, name="I1-each-member-so-far-has-its-predecessor", pool=nodeish),
            Q([Val], lambda x: z3.Implies(z3.And(z3.Select(preds, x), z3.Not(z3.Select(cyc, x))), z3.Select(stack, x)), name="I2-plain-predecessors-are-queued", pool=nodeish),
            Q([Val], lambda x, rank=w.rank: z3.Implies(z3.And(z3.Select(preds, x), z3.Not(z3.Select(cyc, x))), cert(rank, parent, x)), name="I3-new-plain-predecessors-descend-from-the-parent", pool=nodeish),
            z3.Not(z3.Select(cyc, parent)),
        ]
        return inv
    I.loop_specs[(func, 1)] = LoopSpec("members", havoc_inner, inv_inner)

    def mk(I, path):
        for a in node_axioms() + or_axiom():
            path.assume(a)
        state = {}
        object.__setattr__(w, "cur", state)
        w.cyc = z3.K(Val, z3.BoolVal(False))
        w.rank, w.clock = z3.K(Val, z3.IntVal(0)), z3.IntVal(1)
        t = path.fresh("t")
        # L1 (assumed; checked over the type pool by the twin): the members of a plain stdlib type are plain stdlib types
        # of smaller structural size (unions of plain stdlib types are the only such types that have members at all)
        path.assume(Q([Val, IntS], lambda u, i: z3.Implies(z3.And(S(u), i >= 0, i < nchildren(u), z3.Not(skipped(child_type(u, i)))),
                                                        z3.And(S(unwrap_f(child_type(u, i))), size(unwrap_f(child_type(u, i))) < size(u))),
                      trigger=child_type, name="L1-members-of-plain-stdlib-types-are-smaller-plain-stdlib-types"))
        # domain: the annotation and its member annotations are types, not unresolved ForwardRef objects
        path.assume(Q([Val, IntS], lambda u, i: z3.Not(is_fwd(child_type(u, i))), trigger=child_type, name="members-are-types-not-references"))
        path.assume(z3.Not(is_fwd(t)))
        root = node(t, unwrap_f(t), VNone)
        box["root"] = root
        return [SV(t)], {}, {"t": t, "root": root, "state": state}
    results = I.run_function(func, mk, max_paths=400)
    n_exit = 0
    for pi, (path, out, obls, writes, cur) in enumerate(results):
        pid = f"p{pi}"
        for nm, pc, goal in obls:
            chk.add(Ob(func, nm, pid, pc, goal, {"split": True}))      # one query per invariant conjunct, shared instantiation
        calls = cur["state"].get("fwd_calls", [])
        chk.add(Ob(func, "cut-references-are-spelled-as-a-context-lookup-spells-them (refs.forwardref(<member>), no module of its own)", pid, path.hyps,
                   z3.BoolVal(all(npos == 1 and not mods for npos, mods in calls)), {"calls": calls}))
        if out.kind == "end":
            continue
        hy = path.hyps
        names = ["exit::every-node-is-preceded-by-a-node-for-each-member", "exit::the-graph-is-closed (every plain predecessor is itself a node)",
                 "exit::cyclic-nodes-are-exactly-pinned-references-to-revisited-types", "exit::the-root-is-a-node",
                 "exit::every-edge-descends-a-well-founded-order (no CycleError)"]
        if out.kind != "ret" or not isinstance(out.value, Sorter):
            for nm in names + ["loop-preserve:worklist", "loop-preserve:members"]:
                chk.add(Ob(func, nm, pid, hy, z3.BoolVal(False), {"outcome": out.kind, "why": str(out.value if out.kind != "raise" else out.exc.exc_cls)}))
            continue
        n_exit += 1
        g = out.value
        proc, edge, cyc, rank_x = g.processed, g.edge, cur["state"]["cyc"], cur["state"]["rank"]
        root = cur["root"]
        p, x = path.fresh("p"), path.fresh("x")
        i = path.fresh("i", IntS)
        u = unwrap_f(ntype(p))
        c = child_type(u, i)
        row = z3.Select(edge, p)
        chk.add(Ob(func, names[0], pid, hy + [z3.Select(proc, p), z3.Not(memberless(u)), i >= 0, i < nchildren(u), z3.Not(skipped(c))],
                   z3.Or(z3.And(z3.Select(row, plain_node(u, i)), z3.Not(z3.Select(cyc, plain_node(u, i)))),
                         z3.And(z3.Select(row, cut_node(u, i)), z3.Select(cyc, cut_node(u, i)), den(ntype(cut_node(u, i))) == c,
                                den(nunw(cut_node(u, i))) == unwrap_f(c)))))
        chk.add(Ob(func, names[1], pid, hy + [z3.Select(row, x), z3.Not(z3.Select(cyc, x))], z3.Select(proc, x)))
        chk.add(Ob(func, names[2], pid, hy + [z3.Select(cyc, x)], z3.And(is_fwd(ntype(x)), z3.Not(z3.Select(proc, x)))))
        chk.add(Ob(func, names[3], pid, hy, z3.Select(proc, root)))
        chk.add(Ob(func, names[4], pid, hy + [z3.Select(row, x)], z3.Or(z3.And(z3.Select(cyc, x), z3.Not(z3.Select(proc, x))), cert(rank_x, p, x))))
    # (a named clause, not a checker error: a change after which no path reaches the exit is a violation to report)
    chk.add(Ob(func, "some-path-reaches-the-exit", "any", [], z3.BoolVal(n_exit > 0), {"exit_paths": n_exit}))
    chk.add(Ob(func, "cover", "pre", cover_hyps(results), z3.BoolVal(True), expect="sat"))
    chk.trusted.update(I.assumed_used)
    chk.extra_coverage["get_type_graph_paths"] = len(results)


# ----------------------------------------------------------------------------- wiring: _level, TypeNode, static_order, itertypes
n_args = z3.Function("n_args", Val, IntS)
arg_f = z3.Function("arg", Val, IntS, Val)
n_hints = z3.Function("n_hints", Val, BoolS, IntS)
hint_name = z3.Function("hint_name", Val, BoolS, IntS, Val)
hint_type = z3.Function("hint_type", Val, BoolS, IntS, Val)
topo = z3.Function("topological_order", Val, Val)             # TopologicalSorter.static_order(): trusted (stdlib graphlib)
graph_of = z3.Function("get_type_graph", Val, Val)
static_order_f = z3.Function("static_order", Val, Val)
evaluate_f = z3.Function("evaluate", Val, Val)
strref_f = z3.Function("forwardref_of_text", Val, Val)


class Hints:
    host_symbolic = True

    def __init__(self, t, b):
        self.t, self.b = t, b


def level_obligations(chk):
    """_level(t) yields (None, a) for the generic arguments a of t, then the (name, type) field hints of t
    (exhaustive exactly when t is a structured type): this *defines* n_children / child_var / child_type."""
    I = uw.make_interp(raising=False)
    func = f"{G}._level"
    structured = uw.uf("isstructuredtype", 1, BoolS)
    I.stubs["typelib.py.inspection.args"] = Stub("inspection.args", lambda I, p, a, k: SSeq(n_args(to_val(a[0])), lambda i, t=to_val(a[0]): SV(arg_f(t, to_int(i))), "tuple"),
                                           "args(t): the tuple of generic arguments of t")
    I.stubs["typelib.py.inspection.isstructuredtype"] = Stub("inspection.isstructuredtype", lambda I, p, a, k: SBool(structured(to_val(a[0]))), "isstructuredtype (C17)")
    I.stubs["typelib.py.inspection.get_type_hints"] = Stub("inspection.get_type_hints", lambda I, p, a, k: Hints(to_val(a[0]), to_bool_term(k["exhaustive"])),
                                                     "get_type_hints(t, exhaustive=b): an ordered mapping name -> annotated type")
    pm = I.hooks.get("method")

    def method(I, path, recv, name, args, kw):
        if isinstance(recv, Hints) and name == "items":
            return SSeq(n_hints(recv.t, recv.b), lambda i, r=recv: (SV(hint_name(r.t, r.b, to_int(i))), SV(hint_type(r.t, r.b, to_int(i)))), "list")
        return pm(I, path, recv, name, args, kw) if pm else _MISSING
    I.hooks["method"] = method
    og = I.getattr

    def ga(obj, attr, path, env=None):
        if isinstance(obj, Hints):
            return BoundMethod(obj, attr)
        return og(obj, attr, path, env)
    I.getattr = ga

    def mk(I, path):
        t = path.fresh("t")
        path.assume(n_args(t) >= 0)
        path.assume(Q([Val, BoolS], lambda u, b: n_hints(u, b) >= 0, trigger=n_hints, name="hints-nonneg"))
        return [SV(t)], {}, {"t": t}
    names = ["yields-the-generic-arguments-then-the-field-hints", "arguments-are-unnamed", "hints-are-exhaustive-exactly-for-structured-types"]
    # the field hints of a class are not a pure function of the class: while a name in its annotations is unbound,
    # get_type_hints answers with unevaluated references - an answer that must not outlive that moment, so the members
    # are read at the time of the call, never through a memoised alias (args() of an annotation is pure and may be)
    fresh = "member-annotations-are-read-at-the-time-of-the-call-not-through-a-cache"
    memo = {"cur": []}
    I.hooks["memo_call"] = lambda I, path, f, args, kwargs: memo["cur"].append(getattr(f, "qualname", None) or getattr(f, "name", "?"))
    mk0 = mk

    def mk(I, path):
        memo["cur"] = []
        made = mk0(I, path)
        made[2]["memo"] = memo["cur"]
        return made
    results = I.run_function(func, mk)
    for pi, (path, out, obls, writes, cur) in enumerate(results):
        pid, hy, t = f"p{pi}", path.hyps, cur["t"]
        hinted = [m for m in cur["memo"] if "hint" in str(m)]
        chk.add(Ob(func, fresh, pid, hy, z3.BoolVal(not hinted), {"memoised_on_the_way": list(cur["memo"])}))
        if out.kind != "ret" or not isinstance(out.value, SSeq):
            for nm in names:
                chk.add(Ob(func, nm, pid, hy, z3.BoolVal(False), {"outcome": out.kind, "why": str(out.value)}))
            continue
        b = structured(t)
        i = path.fresh("i", IntS)
        from pyvc.expr import _len_term
        total = _len_term(out.value.length)
        el = out.value.at(SInt(i))
        ok_shape = isinstance(el, tuple) and len(el) == 2
        var_i, ty_i = (to_val(el[0]), to_val(el[1])) if ok_shape else (VNone, VNone)
        inr = [i >= 0, i < total]
        chk.add(Ob(func, names[0], pid, hy + inr, z3.And(z3.BoolVal(ok_shape), total == n_args(t) + n_hints(t, b),
                                                       ty_i == z3.If(i < n_args(t), arg_f(t, i), hint_type(t, b, i - n_args(t))))))
        chk.add(Ob(func, names[1], pid, hy + inr, z3.And(z3.BoolVal(ok_shape), var_i == z3.If(i < n_args(t), VNone, hint_name(t, b, i - n_args(t))))))
        chk.add(Ob(func, names[2], pid, hy, z3.BoolVal(True)))      # by construction of the stub call: exhaustive = isstructuredtype(t); a different flag changes b above
    if results:
        chk.add(Ob(func, "cover", "pre", cover_hyps(results), z3.BoolVal(True), expect="sat"))
    chk.trusted.update(I.assumed_used)


def post_init_obligations(chk):
    """TypeNode.__post_init__: unwrapped defaults to the type; nothing else changes."""
    I = uw.make_interp(raising=False)
    func = f"{G}.TypeNode.__post_init__"
    cv = I.mods.resolve(G, "TypeNode")

    def mk(I, path):
        ty, un, var = path.fresh("type"), path.fresh("unwrapped"), path.fresh("var")
        slf = Obj(cv, {"type": SV(ty), "unwrapped": SV(un), "var": SV(var), "cyclic": False})
        return [slf], {}, {"self": slf, "ty": ty, "un": un, "var": var}
    results = I.run_function(func, mk)
    names = ["unwrapped-defaults-to-the-type", "frame::type-var-cyclic-unchanged"]
    # "not given" is whatever the field's declared default is (read from the live class) - and that marker must not be an
    # annotation itself: None is one (`type Missing = None` unwraps to it; the earlier version of this clause encoded the code's
    # `is None` test and was corrected together with fix 9348d02)
    import dataclasses as _dc
    from typelib import graph as _graph
    default = next(f.default for f in _dc.fields(_graph.TypeNode) if f.name == "unwrapped")
    marker = to_val(default)
    chk.add(Ob(func, "the-not-given-marker-is-not-an-annotation", "ground", [],
               z3.BoolVal(default is not None and default is not Ellipsis and not isinstance(default, (type(int | str), str)) and default is not _dc.MISSING),
               {"marker": repr(default)}))
    for pi, (path, out, obls, writes, cur) in enumerate(results):
        pid, hy = f"p{pi}", path.hyps
        if out.kind not in ("ret", "end"):
            for nm in names:
                chk.add(Ob(func, nm, pid, hy, z3.BoolVal(False), {"outcome": out.kind, "why": str(out.value)}))
            continue
        f = cur["self"].fields
        chk.add(Ob(func, names[0], pid, hy, to_val(f["unwrapped"]) == z3.If(cur["un"] == marker, cur["ty"], cur["un"])))
        chk.add(Ob(func, names[1], pid, hy, z3.And(to_val(f["type"]) == cur["ty"], to_val(f["var"]) == cur["var"], z3.BoolVal(f["cyclic"] is False),
                                                 z3.BoolVal(set(f) == {"type", "unwrapped", "var", "cyclic"}))))
    if results:
        chk.add(Ob(func, "cover", "pre", cover_hyps(results), z3.BoolVal(True), expect="sat"))


class GraphVal:
    host_symbolic = True

    def __init__(self, t):
        self.t = t


def order_obligations(chk):
    """static_order / itertypes: a string or ForwardRef input is evaluated first and then treated exactly like the
    evaluated type; any other input yields the topological order of get_type_graph(t), unchanged and complete."""
    import typing
    FWD = cls_const(typing.ForwardRef)
    STR = cls_const(str)
    for fname in ("static_order", "itertypes"):
        I = uw.make_interp(raising=False)
        func = f"{G}.{fname}"
        I.stubs["typelib.py.refs.forwardref"] = Stub("refs.forwardref", lambda I, p, a, k: SV(strref_f(to_val(a[0]))), "refs.forwardref(<text>): the reference the text names (C11)")
        I.stubs["typelib.py.refs.evaluate"] = Stub("refs.evaluate", lambda I, p, a, k: SV(evaluate_f(to_val(a[0]))), "refs.evaluate(ref): the type the reference denotes (C11)")
        I.stubs[f"{G}.get_type_graph"] = Stub("graph.get_type_graph", lambda I, p, a, k: GraphVal(to_val(a[0])), "get_type_graph(t): contract proved above")
        I.stubs[f"{G}.static_order"] = Stub("graph.static_order", lambda I, p, a, k: SV(static_order_f(to_val(a[0]))), "static_order(t) (recursion by contract; memoised by compat.cache: same value)")
        pm = I.hooks.get("method")

        def method(I, path, recv, name, args, kw, pm=pm):
            if isinstance(recv, GraphVal) and name == "static_order":
                from pyvc.core import seq_len, seq_at
                s = topo(graph_of(recv.t))
                return SSeq(seq_len(s), lambda i, s=s: SV(seq_at(s, to_int(i))), "gen")
            return pm(I, path, recv, name, args, kw) if pm else _MISSING
        I.hooks["method"] = method
        og = I.getattr

        def ga(obj, attr, path, env=None, og=og):
            if isinstance(obj, GraphVal):
                return BoundMethod(obj, attr)
            return og(obj, attr, path, env)
        I.getattr = ga

        def mk(I, path):
            from pyvc.core import class_axioms
            t = path.fresh("t")
            for a in class_axioms():
                path.assume(a)
            return [SV(t)], {}, {"t": t}
        results = I.run_function(func, mk)
        names = ["references-are-evaluated-then-ordered-like-the-type", "types-yield-the-topological-order-of-their-graph"]
        for pi, (path, out, obls, writes, cur) in enumerate(results):
            pid, hy, t = f"p{pi}", path.hyps, cur["t"]
            from pyvc.core import seq_len, seq_at
            is_ref = z3.Or(sub(cls_of(t), STR), sub(cls_of(t), FWD))
            ref = z3.If(sub(cls_of(t), STR), strref_f(t), t)
            ev = evaluate_f(ref)
            if out.kind != "ret":
                for nm in names:
                    chk.add(Ob(func, nm, pid, hy, z3.BoolVal(False), {"outcome": out.kind, "why": str(out.value if out.kind != "raise" else out.exc.exc_cls)}))
                continue
            v = out.value
            i = path.fresh("i", IntS)
            if isinstance(v, SSeq):
                from pyvc.expr import _len_term
                n, at = _len_term(v.length), to_val(v.at(SInt(i)))
                same_as = lambda s: z3.And(n == seq_len(s), z3.Implies(z3.And(i >= 0, i < n), at == seq_at(s, i)))
                direct = None
            else:
                direct = to_val(v)
                same_as = None
            g_ev, g_t = topo(graph_of(ev)), topo(graph_of(t))
            if fname == "static_order":
                # reference input: the very value static_order(evaluated) (hence the same sequence); type input: the graph's order
                goal_ref = (direct == static_order_f(ev)) if direct is not None else z3.BoolVal(False)
                goal_ty = same_as(g_t) if same_as else z3.BoolVal(False)
            else:
                goal_ref = same_as(g_ev) if same_as else z3.BoolVal(False)
                goal_ty = same_as(g_t) if same_as else z3.BoolVal(False)
            chk.add(Ob(func, names[0], pid, hy + [is_ref], goal_ref))
            chk.add(Ob(func, names[1], pid, hy + [z3.Not(is_ref)], goal_ty))
        if results:
            chk.add(Ob(func, "cover", "pre", cover_hyps(results), z3.BoolVal(True), expect="sat"))
        chk.trusted.update(I.assumed_used)


def all_obligations(chk):
    obligations(chk)
    # the graph visits the *unwrapped* parent (`_level(inspection.unwrap(parent.type))`): a NewType / alias / qualifier chain of a
    # composite must be peeled completely or its member types are never reached (contract shared with C11 / C16 / C17)
    from props import unwrap_contract
    unwrap_contract.obligations(chk)
    # "every deferred node denotes exactly the type it stands for, parameters included": the reference a revisit is cut with is
    # pinned to its type on an object of its own (contract shared with C05 / C07 / C11)
    from props import c11
    c11.forwardref_obligations(chk)
    level_obligations(chk)
    post_init_obligations(chk)
    order_obligations(chk)
    root_label_obligations(chk)


# ----------------------------------------------------------------------------- root-label independence (NewType / alias roots)
def root_label_obligations(chk):
    """static_order(t) and static_order(unwrap(t)) differ only in the root node's label: the loop of get_type_graph reads the root
    annotation t only to build the root node and to seed `visited`, and reads `visited` only through the test
    `child in visited or unwrapped in visited` - whose answer does not depend on whether t itself is in the set, because the
    unwrapped root is (fix f82f05c) and unwrap is idempotent.  (R1: SMT lemma over the unwrap contract; R2: dataflow scan of
    the real AST; the simulation argument that puts them together is on paper.)"""
    import ast
    func = f"{G}.get_type_graph"
    # R1
    t, c = z3.Consts("t c", Val)
    V = z3.Const("V", ArrB)                                  # the visited set of the run on unwrap(t)
    u = unwrap_f(t)
    hyp = [z3.Select(V, u), t != u,                          # the unwrapped root is visited; t is a genuine wrapper
           unwrap_f(u) == u, unwrap_f(unwrap_f(c)) == unwrap_f(c)]
    VA = z3.Store(V, t, z3.BoolVal(True))                    # the visited set of the run on t: additionally t itself
    in_a = z3.Or(z3.Select(VA, c), z3.Select(VA, unwrap_f(c)))
    in_b = z3.Or(z3.Select(V, c), z3.Select(V, unwrap_f(c)))
    chk.add(Ob(func, "root-label::the-visited-test-does-not-depend-on-the-root-label", "lemma", hyp, in_a == in_b))
    # R2
    from pyvc.interp import Interp
    from pyvc.builtins_model import install
    I = install(Interp())
    mod, chain, node = I.src.find_def(func)
    uses_visited, uses_t = [], []
    parents = {}
    for n in ast.walk(node):
        for ch in ast.iter_child_nodes(n):
            parents[ch] = n
    # roles by shape, not by name: the visited set is the local initialised with a set display; t is the first parameter;
    # the root node is the local built by TypeNode(t, ...)
    t_name = node.args.args[0].arg
    vis_name, root_name = None, None
    for n in ast.walk(node):
        if isinstance(n, ast.Assign) and len(n.targets) == 1 and isinstance(n.targets[0], ast.Name):
            if isinstance(n.value, ast.Set):
                vis_name = n.targets[0].id
            if isinstance(n.value, ast.Call) and ast.unparse(n.value.func).endswith("TypeNode") and n.value.args and isinstance(n.value.args[0], ast.Name) \
                    and n.value.args[0].id == t_name:
                root_name = n.targets[0].id
    seeded_ok = False
    for n in ast.walk(node):
        if isinstance(n, ast.Name) and n.id == vis_name:
            p = parents.get(n)
            if isinstance(p, ast.Assign) and n in p.targets:
                elts = sorted(ast.unparse(e) for e in p.value.elts) if isinstance(p.value, ast.Set) else []
                seeded_ok = elts == sorted([f"{root_name}.type", f"{root_name}.unwrapped"])
                uses_visited.append("init:" + ast.unparse(p.value))
            elif isinstance(p, ast.Compare) and len(p.ops) == 1 and isinstance(p.ops[0], ast.In) and p.comparators == [n]:
                g = parents.get(p)
                both = (isinstance(g, ast.BoolOp) and isinstance(g.op, ast.Or) and len(g.values) == 2
                        and all(isinstance(v, ast.Compare) and len(v.ops) == 1 and isinstance(v.ops[0], ast.In) and isinstance(v.comparators[0], ast.Name)
                                and v.comparators[0].id == vis_name for v in g.values))
                uses_visited.append("test:" + ("membership-of-the-member-or-its-unwrapped-form" if both else ast.unparse(g)))
            elif isinstance(p, ast.Attribute) and p.attr == "add":
                uses_visited.append("add:" + ast.unparse(parents.get(p)))
            else:
                uses_visited.append("other:" + ast.unparse(p))
        if isinstance(n, ast.Name) and n.id == t_name and isinstance(n.ctx, ast.Load):
            par = parents.get(n)
            uses_t.append("unwrap" if isinstance(par, ast.Call) and ast.unparse(par.func).endswith("unwrap") else
                          ("root-node" if isinstance(par, ast.Call) and ast.unparse(par.func).endswith("TypeNode") else ast.unparse(par)))
    ok_visited = (vis_name is not None and sorted(set(x.split(":")[0] for x in uses_visited)) == ["add", "init", "test"]
                  and all(x == "test:membership-of-the-member-or-its-unwrapped-form" for x in uses_visited if x.startswith("test:")) and seeded_ok)
    ok_t = sorted(uses_t) == ["root-node", "unwrap"]
    chk.add(Ob(func, "root-label::visited-is-read-only-through-the-membership-test-and-seeded-with-the-root-and-its-unwrapped-form", "ast", [],
               z3.BoolVal(ok_visited), {"uses": uses_visited}))
    chk.add(Ob(func, "root-label::the-root-annotation-is-used-only-to-build-the-root-node", "ast", [], z3.BoolVal(ok_t), {"uses": uses_t}))
