"""C14 check driver."""
from pyvc.driver import Check
from props import c14, c14_concrete

ASSUMPTIONS = [
    "Standard library: memoryview.tobytes() yields bytes with the same content; bytes/bytearray.decode('utf-8') yields "
    "the text of that content; bytes(x) of a bytes-like object has the same content; these are exact str/bytes objects.",
    "JSON backend (compat.json.loads): the result and acceptance depend only on the text, rejection raises a ValueError "
    "subclass, and str/bytes/bytearray/memoryview inputs are accepted (orjson; the stdlib json module accepts the first three).",
    "The configured backend (orjson) accepts exactly the JSON texts the statement's decoder accepts and returns the same value, "
    "except that it reads an integer outside the 64-bit range as a float; such an integer needs at least 19 digits in a row "
    "(the longest run inside the range is 20 for 2**64-1 and 19 for -2**63, so the test is conservative). The standard "
    "library's json.loads IS the statement's decoder on JSON text (it additionally accepts NaN/Infinity tokens, modelled). "
    "<compiled \\d{19}>.search(text) is truthy exactly when the text has such a run.",
    "ast.literal_eval raises only ValueError, TypeError, SyntaxError, MemoryError or RecursionError.",
    "functools.lru_cache hashes its argument: str, bytes and read-only memoryviews are hashable, bytearray and writable "
    "memoryviews are not.",
    "Routine-level clause: a sufficient syntactic+semantic non-interference condition - after the initial "
    "serdes.decode/serdes.load every branch either ignores the raw input or is decided by its being a text carrier, and "
    "the result mentions the raw input only through decode(val)/load(val); external calls are congruent (uninterpreted "
    "functions of their arguments). LiteralUnmarshaller is proved by a two-run relational argument instead, assuming "
    "declared literals (int/bool/str/None) never compare equal to a bytes-like object.",
    "Domain: inputs whose class is exactly str/bytes/bytearray/memoryview holding valid UTF-8.",
    "CastUnmarshaller targets are never a superclass of a carrier class (dispatch order sends str/bytes targets to their "
    "own routines; text-like Cast targets are Enum mix-ins).",
]


def searcher(ob):
    fails, n, d = c14_concrete.search(stop_at=1)
    if fails:
        return {"found": True, "kind": "c14-case", "case": fails[0], "searched": n}
    return {"found": False, "searched": n, "engine": ob.meta.get("engine"),
            "note": "string pool x 5 carriers x type pool: all carriers agree; load/strload agree with the JSON decoder"}


def replay(data):
    case = data.get("case")
    if not case:
        print("replay: no concrete input recorded for", data.get("obligation"), data.get("solver"))
        return 1
    r = c14_concrete.run_recorded(case)
    print("replay", {k: v for k, v in case.items() if k != "failure"}, "->", r)
    return 1 if r else 0


def main(tier, seed):
    chk = Check("C14", tier, seed)
    chk.assumptions = list(ASSUMPTIONS)
    c14.obligations(chk)
    if tier in ("quick", "thorough"):      # the replay on the real code takes < 1 s: run it in both tiers (never counted as proved)
        fails, n, d = c14_concrete.search(stop_at=3)
        chk.bounded.append({"name": "bounded cross-check: string pool x 5 carriers x type pool on the real code",
                            "evaluations": n, "distinct_nontrivial": d, "failures": len(fails),
                            "rule": "JSON / literal text of every composite pool wire value (and of integers at the 64-bit boundaries) vs the decoded value; 35 strings (look-alikes, malformed JSON, control/non-ASCII, pathological nesting) + wire forms (json.dumps and repr) of pool values; str/bytes/bytearray/memoryview(ro)/memoryview(rw)"})
        for f in fails:
            chk.violation("bounded-cross-check", {"found": True, "kind": "c14-case", "case": f}, True)
    chk.known_witness("C14-json-integers-beyond-64-bit", c14_concrete.beyond_64_bit_witness,
                      "JSON text holding an integer outside the 64-bit range")
    chk.resolve_failures(searcher)
    return chk.finish()
