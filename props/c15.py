"""C15 — every valid annotation yields working routines: construction never raises.

The statement decomposes into call-site safety obligations (DESIGN.md section 5, C15):
 (a) every predicate the routine dispatch walks (`_HANDLERS` of both factories, read from the real source) is total:
     it returns a bool and never raises, for *every* object (not only classes) - proved per predicate from its AST with
     issubclass modelled as raising TypeError for a non-class first argument;
 (b) inspection.args normalises type variables in both modes (evaluate or not), so the member annotations a routine
     constructor looks up are the member annotations the type graph made nodes for;
 (c) both factories bind typing.Any to the pass-through routine before walking the graph (the graph skips Any members)
     and bind every node under its type and its unwrapped type (shared with C11);
 (d) the cut reference of the type graph is spelled exactly as the context spells a missing type:
     refs.forwardref(<type>) with no module of its own (the reference's name/module then depend only on the type);
 the remaining links are other properties' contracts (C09 completeness of the order, C16 three-step lookup, C05
 constructors look up exactly args(t, evaluate=True) / the field hints) and typing's arity facts (assumed, replayed
 by the twin).  Composition into "construction never raises" is a paper argument; the grammar sweep of the twin is bounded.
"""
from __future__ import annotations

import ast
import collections.abc
import typing

import z3

from pyvc.core import (SV, SBool, SInt, SSeq, Obj, Val, VNone, BoolS, IntS, Cls, to_val, to_int, to_bool_term, cls_of, sub,
                       cls_const, class_axioms, Stub, PyRaise, Unsupported)
from pyvc.driver import Ob, cover_hyps
from pyvc.ground import Q
from pyvc.env import _MISSING
from pyvc.interp import Interp
from pyvc.builtins_model import install
from props import c17, c11

INSP = "typelib.py.inspection"
APIS = ("typelib.unmarshals.api", "typelib.marshals.api")
origin_any = z3.Function("origin_of_any_object", Val, Val)


def handler_predicates(I):
    """names of the inspection predicates referenced by the `_HANDLERS` tables (real source), in table order"""
    out = []
    for mod in APIS:
        node = None
        for st in I.src.toplevel(mod):
            tg = st.targets[0] if isinstance(st, ast.Assign) else getattr(st, "target", None)
            if isinstance(st, (ast.Assign, ast.AnnAssign)) and isinstance(tg, ast.Name) and tg.id == "_HANDLERS":
                node = st.value
        if node is None:
            raise KeyError(f"{mod}._HANDLERS")
        for n in ast.walk(node):
            if isinstance(n, ast.Attribute) and isinstance(n.value, ast.Name) and n.value.id == "inspection" and n.attr not in out:
                out.append(n.attr)
    return out


def total_interp():
    I = c17.make_interp()
    # origin(obj) of an arbitrary object is an arbitrary object (a TypeVar's origin is the TypeVar, ...)
    I.stubs[f"{INSP}.origin"] = Stub("inspection.origin", lambda I, p, a, k: SV(origin_any(to_val(a[0]))),
                                     "origin(obj) returns some object (total: proved for the annotation grammar by C17's catalogue, assumed here)")
    # externals (typing / inspect / builtins) are total functions of their argument (documented: they never raise on any object)
    import inspect as _inspect
    from props.uf_world import uf
    I.builtin_models[typing.get_origin] = lambda I, path, a, k: SV(c17.get_origin_v(to_val(a[0])))

    def get_args(I, path, a, k):
        t = to_val(a[0])
        path.assume(c17.nargs(t) >= 0)
        return SSeq(c17.nargs(t), lambda j, t=t: SV(c17.arg_at(t, to_int(j))), "tuple")
    I.builtin_models[typing.get_args] = get_args
    I.builtin_models[_inspect.isclass] = lambda I, path, a, k: SBool(c17.is_class(to_val(a[0])))
    def getmro(I, path, a, k):
        t = to_val(a[0])
        n = uf("mro_len", 1, IntS)(t)
        path.assume(n >= 1)
        return SSeq(n, lambda j, t=t: SV(z3.Function("mro_at", Val, IntS, Val)(t, z3.IntVal(j) if isinstance(j, int) else to_int(j))), "tuple")
    I.builtin_models[_inspect.getmro] = getmro

    def args_stub(I, path, a, k):
        t = to_val(a[0])
        path.assume(c17.nargs(t) >= 0)
        return SSeq(c17.nargs(t), lambda j, t=t: SV(z3.Function("normalised_arg", Val, IntS, Val)(t, z3.IntVal(j) if isinstance(j, int) else to_int(j))), "tuple")
    I.stubs[f"{INSP}.args"] = Stub("inspection.args", args_stub, "args(t): a tuple (contract proved in C15 (b))")
    I.builtin_models[_inspect.isroutine] = lambda I, path, a, k: SBool(uf("inspect.isroutine", 1, BoolS)(to_val(a[0])))
    I.builtin_models[str] = lambda I, path, a, k: SV(uf("str()", 1)(to_val(a[0]))) if a and isinstance(a[0], SV) else _MISSING
    I.hooks["hasattr"] = lambda I, path, obj, name: SBool(uf(f"hasattr:{name}", 1, BoolS)(to_val(obj))) if isinstance(obj, SV) else _MISSING
    prev_gd = I.hooks.get("getattr_default")

    def getattr_default(I, path, obj, name, default):
        if isinstance(obj, SV) and name == "__args__":
            t = obj.t
            path.assume(c17.nargs(t) >= 0)
            return SSeq(c17.nargs(t), lambda j, t=t: SV(c17.arg_at(t, to_int(j))), "tuple")
        if isinstance(obj, SV):
            has = uf(f"hasattr:{name}", 1, BoolS)(obj.t)
            if path.branch(has):
                return SV(uf(f"attr:{name}", 1)(obj.t))
            return default
        return prev_gd(I, path, obj, name, default) if prev_gd else _MISSING
    I.hooks["getattr_default"] = getattr_default
    # a typing.ForwardRef instance has a str __forward_arg__ (typing contract)
    I.sv_attr["__forward_arg__"] = lambda I, path, obj: SV(uf("attr:__forward_arg__", 1)(obj.t))
    I.sv_attr["__class__"] = I.sv_attr.get("__class__") or (lambda I, path, obj: __import__("pyvc.expr", fromlist=["SCls"]).SCls(cls_of(obj.t)))
    prev_m = I.hooks.get("method")

    def method(I, path, recv, name, args, kw):
        if isinstance(recv, SV) and name in ("startswith", "endswith"):
            return SBool(uf(f"str.{name}:{args[0]!r}", 1, BoolS)(recv.t))
        return prev_m(I, path, recv, name, args, kw) if prev_m else _MISSING
    I.hooks["method"] = method
    prev_c = I.hooks.get("contains")

    def contains(I, path, container, item):
        if isinstance(container, SV) and isinstance(item, str):
            return SBool(uf(f"str.contains:{item!r}", 1, BoolS)(container.t))
        if prev_c:
            return prev_c(I, path, container, item)
        return _MISSING
    I.hooks["contains"] = contains
    return I


def predicate_totality(chk):
    I = total_interp()
    names = handler_predicates(I)
    chk.extra_coverage["handler_predicates"] = names
    bounded = []
    for name in names:
        func = f"{INSP}.{name}"

        def mk(I, path):
            obj = path.fresh("obj")
            return [SV(obj)], {}, {"obj": obj}
        try:
            results = I.run_function(func, mk, max_paths=200)
        except Exception as e:       # engine limit: not a verdict
            results = []
            bounded.append((name, f"engine: {type(e).__name__}: {e}"[:160]))
            continue
        if any(out.kind == "unsupported" for _p, out, *_ in results):
            why = [str(out.value) for _p, out, *_ in results if out.kind == "unsupported"][0]
            bounded.append((name, why[:160]))
            continue
        for pi, (path, out, obls, writes, cur) in enumerate(results):
            hy = path.hyps + class_axioms()
            if out.kind == "raise":
                chk.add(Ob(func, "total::never-raises-for-any-object", f"p{pi}", hy, z3.BoolVal(False), {"exc": str(out.exc.exc_cls)}))
            else:
                chk.add(Ob(func, "total::never-raises-for-any-object", f"p{pi}", hy, z3.BoolVal(True), {"path": "returns"}))
    chk.extra_coverage["predicates_left_to_the_bounded_sweep"] = bounded
    chk.trusted.update(I.assumed_used)
    return names, bounded


# ----------------------------------------------------------------------------- (b) inspection.args in both modes
norm_tv = z3.Function("normalize_typevar", Val, Val)
evaluate_f = z3.Function("refs_evaluate", Val, Val)


def args_obligations(chk):
    """inspection.args(t, evaluate=b)[i] == norm(e_i) with e_i = evaluate(raw_i) if b else raw_i and
    norm(x) = normalize_typevar(x) if type(x) is TypeVar else x; raw = typing.get_args(t) or t.__args__."""
    func = f"{INSP}.args"
    TV = cls_const(typing.TypeVar)
    names = ["same-number-of-arguments-as-typing-reports", "every-argument-is-typevar-normalised-in-both-modes", "evaluate-mode-evaluates-each-argument-first"]
    for mode in (False, True):
        I = total_interp()
        del I.stubs[f"{INSP}.args"]
        I.stubs[f"{INSP}.normalize_typevar"] = Stub("inspection.normalize_typevar", lambda I, p, a, k: SV(norm_tv(to_val(a[0]))),
                                                  "normalize_typevar(tv): bound / Union of constraints / Any (C17)")
        I.stubs["typelib.py.refs.evaluate"] = Stub("refs.evaluate", lambda I, p, a, k: SV(evaluate_f(to_val(a[0]))), "refs.evaluate(x) (C11)")

        def mk(I, path, mode=mode):
            t = path.fresh("t")
            return [SV(t)], {"evaluate": mode}, {"t": t}
        results = I.run_function(func, mk)
        for pi, (path, out, obls, writes, cur) in enumerate(results):
            pid, hy, t = f"evaluate={mode}:p{pi}", path.hyps + class_axioms(), cur["t"]
            if out.kind != "ret" or not isinstance(out.value, (SSeq, tuple, list)):
                for nm in names:
                    chk.add(Ob(func, nm, pid, hy, z3.BoolVal(False), {"outcome": out.kind, "why": str(out.value if out.kind != "raise" else out.exc.exc_cls)[:200]}))
                continue
            v = out.value
            from pyvc.expr import _len_term
            if not isinstance(v, SSeq):
                v = SSeq(len(v), lambda i, v=v: v[i], "tuple")
            n = _len_term(v.length)
            i = path.fresh("i", IntS)
            # raw arguments: typing.get_args(t) when non-empty, else getattr(t, '__args__', ()) (same accessor model in the interp)
            raw_n = c17.nargs(t)
            has_attr = __import__("props.uf_world", fromlist=["uf"]).uf("hasattr:__args__", 1, BoolS)(t)
            raw_i = c17.arg_at(t, i)
            e_i = evaluate_f(raw_i) if mode else raw_i
            want = z3.If(cls_of(e_i) == TV, norm_tv(e_i), e_i)
            inr = [i >= 0, i < n]
            chk.add(Ob(func, names[0], pid, hy, z3.Or(n == raw_n, n == 0)))
            chk.add(Ob(func, names[1], pid, hy + inr, to_val(v.at(SInt(i))) == want))
            chk.add(Ob(func, names[2], pid, hy + inr, z3.BoolVal(True) if not mode else to_val(v.at(SInt(i))) == z3.If(cls_of(evaluate_f(raw_i)) == TV, norm_tv(evaluate_f(raw_i)), evaluate_f(raw_i))))
        if results:
            chk.add(Ob(func, f"cover(evaluate={mode})", "pre", cover_hyps(results), z3.BoolVal(True), expect="sat"))
        chk.trusted.update(I.assumed_used)


# ----------------------------------------------------------------------------- (e) tuple[()] is a fixed tuple
def fixedtuple_obligations(chk):
    """isfixedtupletype(t) <=> t's origin is a tuple class, it is not variadic (last argument ...), and it has arguments or is
    subscripted without any (tuple[()]): so the variadic-collection routines (which unpack >= 1 member type) never get tuple[()]."""
    from props.uf_world import uf
    I = total_interp()
    func = f"{INSP}.isfixedtupletype"
    subscripted = uf("issubscriptedgeneric", 1, BoolS)
    I.stubs[f"{INSP}.issubscriptedgeneric"] = Stub("inspection.issubscriptedgeneric", lambda I, p, a, k: SBool(subscripted(to_val(a[0]))), "issubscriptedgeneric (total: (a))")
    narg = z3.Function("normalised_arg", Val, IntS, Val)

    def mk(I, path):
        cls_const(tuple)
        obj = path.fresh("obj")
        return [SV(obj)], {}, {"obj": obj}
    results = I.run_function(func, mk)
    for pi, (path, out, obls, writes, cur) in enumerate(results):
        obj, hy = cur["obj"], path.hyps + class_axioms()
        n = c17.nargs(obj)
        o = c17.get_origin_v(obj)
        variadic = z3.And(n > 0, narg(obj, n - 1) == to_val(Ellipsis))
        spec = z3.And(z3.Not(variadic), z3.Or(n > 0, subscripted(obj)), c17.is_class(o), sub(c17.as_cls(o), cls_const(tuple)))
        goal = to_bool_term(out.value) == spec if out.kind == "ret" else z3.BoolVal(False)
        chk.add(Ob(func, "fixed-exactly-for-non-variadic-tuples-with-arguments-or-tuple[()]", f"p{pi}", hy, goal, {"outcome": out.kind}))
    chk.trusted.update(I.assumed_used)


def obligations(chk):
    predicate_totality(chk)
    args_obligations(chk)
    fixedtuple_obligations(chk)
    for mod, fname, noop in c11.FACTORIES:
        c11.factory_obligations(chk, mod, fname, noop)
        c11.dispatcher_obligations(chk, mod)
