"""C07 — executable twin: cycle topologies over <= 3 classes / recursive aliases, every edge kind, any class or container
of a cyclic class as root, values nested to depth 0..D: every level is converted (bounded).

A case is a JSON spec (topology, style, root, depth), rebuilt from source text each time, so failures replay.
"""
from __future__ import annotations

import dataclasses
import itertools
import random
import sys
import types
import typing
import warnings

from props.concrete_util import clear_typelib_caches

KINDS = {"opt": "typing.Optional[C{j}]", "list": "list[C{j}]", "dict": "dict[str, C{j}]", "tup": "tuple[C{j}, ...]",
         "union": "C{j} | None", "member": "Wrap{j}"}
EMPTY = {"opt": None, "list": [], "dict": {}, "tup": (), "union": None}
ROOTS = ("cls", "list", "dict", "tup", "opt", "newtype")
_n = itertools.count()


def source(spec):
    """dataclasses C0..Cn-1 with a scalar field k and one field per edge; 'member' edges go through a holder class
    Wrap{j} whose field is  C{j} | None  (X | None in a field of a member class)."""
    lines = ["import dataclasses, typing"]
    wraps = sorted({b for (_a, b, kind) in spec["edges"] if kind == "member"})
    for j in wraps:
        lines.append(f"@dataclasses.dataclass\nclass Wrap{j}:\n    inner: 'C{j} | None' = None")
    for i in range(spec["n"]):
        body = ["    k: int = 0"]
        for (a, b, kind) in spec["edges"]:
            if a == i:
                ann = KINDS[kind].format(j=b)
                default = {"opt": "None", "union": "None", "list": "dataclasses.field(default_factory=list)",
                           "dict": "dataclasses.field(default_factory=dict)", "tup": "()",
                           "member": f"dataclasses.field(default_factory=lambda: Wrap{b}())"}[kind]
                body.append(f"    f{b}_{kind}: {ann!r} = {default}")
        lines.append("@dataclasses.dataclass\nclass C%d:\n%s" % (i, "\n".join(body)))
    return "\n".join(lines) + "\n"


ALIAS_SRC = ("import typing\nfrom typelib.py import compat\nNest = compat.TypeAliasType('Nest', 'list[Nest] | int')\n"
             "Tree = compat.TypeAliasType('Tree', 'dict[str, Tree] | int')\n"
             "Json = compat.TypeAliasType('Json', 'dict[str, Json] | list[Json] | int | None')\n")


def build(spec):
    name = f"c07_synth_{next(_n)}"
    mod = types.ModuleType(name)
    sys.modules[name] = mod
    exec(compile(source(spec), name, "exec"), mod.__dict__)
    base = getattr(mod, f"C{spec.get('root_i', 0)}")
    rk = spec.get("root", "cls")
    root = {"cls": base, "list": list[base], "dict": dict[str, base], "tup": tuple[base, ...], "opt": typing.Optional[base]}.get(rk)
    if rk == "newtype":
        root = typing.NewType("NT", base)
        root.__module__ = name
    return root, base, mod


def make_value(spec, mod, i, depth):
    """-> (wire, expected object, marshalled form) following the first outgoing edge of each class down to `depth`"""
    cls = getattr(mod, f"C{i}")
    wire, kwargs, out = {"k": str(depth)}, {"k": depth}, {"k": depth}
    outgoing = [(b, kind) for (a, b, kind) in spec["edges"] if a == i]
    for idx, (b, kind) in enumerate(outgoing):
        f = f"f{b}_{kind}"
        if depth > 0 and idx == (depth % len(outgoing)):
            cw, ce, cm = make_value(spec, mod, b, depth - 1)
            if kind in ("opt", "union"):
                wire[f], kwargs[f], out[f] = cw, ce, cm
            elif kind == "list":
                wire[f], kwargs[f], out[f] = [cw], [ce], [cm]
            elif kind == "dict":
                wire[f], kwargs[f], out[f] = {"a": cw}, {"a": ce}, {"a": cm}
            elif kind == "tup":
                wire[f], kwargs[f], out[f] = [cw], (ce,), [cm]
            elif kind == "member":
                wire[f], kwargs[f], out[f] = {"inner": cw}, getattr(mod, f"Wrap{b}")(inner=ce), {"inner": cm}
        else:
            if kind == "member":
                wire[f], kwargs[f], out[f] = {"inner": None}, getattr(mod, f"Wrap{b}")(), {"inner": None}
            else:
                e = EMPTY[kind]
                wire[f], kwargs[f], out[f] = (list(e) if isinstance(e, tuple) else e), e, (list(e) if isinstance(e, tuple) else e)
    return wire, cls(**kwargs), out


def mixed_wire(spec, mod, i, depth):
    """The wire form of make_value(...) in which the child reached from the root is handed over as an *instance* of its class
    holding raw, unconverted wire values (its own members still plain dicts / lists): the expected result is unchanged - every
    level is converted whatever carrier a level arrives in.  None when the root descends into no child."""
    wire, _, _ = make_value(spec, mod, i, depth)
    outgoing = [(b, kind) for (a, b, kind) in spec["edges"] if a == i]
    for idx, (b, kind) in enumerate(outgoing):
        f = f"f{b}_{kind}"
        if depth > 0 and idx == (depth % len(outgoing)) and kind in ("opt", "union", "list", "dict", "tup"):
            cw, _, _ = make_value(spec, mod, b, depth - 1)
            try:
                inst = getattr(mod, f"C{b}")(**cw)
            except Exception:
                return None
            wire[f] = {"opt": inst, "union": inst, "list": [inst], "dict": {"a": inst}, "tup": [inst]}[kind]
            return wire
    return None


def wrap_root(rk, w, e, m):
    if rk in ("cls", "opt", "newtype"):
        return w, e, m
    if rk == "list":
        return [w, w], [e, e], [m, m]
    if rk == "dict":
        return {"r": w}, {"r": e}, {"r": m}
    if rk == "tup":
        return [w], (e,), [m]
    raise ValueError(rk)


def run_case(spec):
    """-> None if every level is converted at the spec's depth, else a description"""
    import typelib
    with warnings.catch_warnings(record=True) as caught:
        warnings.simplefilter("always")
        clear_typelib_caches()
        if spec.get("alias"):
            return run_alias(spec)
        root, base, mod = build(spec)
        d = spec["depth"]
        w, e, m = make_value(spec, mod, spec.get("root_i", 0), d)
        w, e, m = wrap_root(spec.get("root", "cls"), w, e, m)
        try:
            got = typelib.unmarshal(root, w)
        except RecursionError:
            return None if d > 100 else f"unmarshal at depth {d} hit the recursion limit"
        except Exception as ex:
            return f"unmarshal({root!r}, depth {d}) raised {type(ex).__name__}: {ex}"[:300]
        if got != e or type(got) is not type(e):
            return f"unmarshal({root!r}) at depth {d}: some level is not converted: got {got!r}"[:400]
        if spec.get("root", "cls") in ("cls", "opt", "newtype") and 0 < d <= 6:
            mw = mixed_wire(spec, mod, spec.get("root_i", 0), d)
            if mw is not None:
                try:
                    got2 = typelib.unmarshal(root, mw)
                except Exception as ex:
                    return f"unmarshal({root!r}, depth {d}) of a value whose child is an instance holding raw members raised {type(ex).__name__}: {ex}"[:300]
                if got2 != e or type(got2) is not type(e):
                    return f"unmarshal({root!r}) at depth {d}: a child given as an instance holding raw members is not converted below it: got {got2!r}"[:400]
        try:
            back = typelib.marshal(e, t=root)
        except RecursionError:
            return None if d > 100 else f"marshal at depth {d} hit the recursion limit"
        except Exception as ex:
            return f"marshal(depth {d}, t={root!r}) raised {type(ex).__name__}: {ex}"[:300]
        if back != m:
            return f"marshal(t={root!r}) at depth {d}: got {back!r}, expected {m!r}"[:400]
        try:
            again = typelib.unmarshal(root, back)
        except Exception as ex:
            return f"round trip at depth {d} raised {type(ex).__name__}: {ex}"[:300]
        if again != e:
            return f"round trip at depth {d} differs: {again!r}"[:300]
        noop = [str(c.message) for c in caught if "no-op" in str(c.message)]
        if noop:
            return f"a member fell back to a no-op routine: {noop[0]}"[:300]
    return None


class _Timeout(BaseException):
    pass


def _alarm(_s, _f):
    raise _Timeout()


def run_probe(spec, t):
    """termination on a value with a non-numeric text leaf: the call must return or raise within 10 s"""
    import signal
    import typelib
    value = {"x": "x", "nested": {"a": [1, {"c": "x"}]}, "pairs": [{"a": 1, "b": 2}]}[spec["probe"]]
    old = signal.signal(signal.SIGALRM, _alarm)
    signal.alarm(10)
    try:
        typelib.unmarshal(t, value)
    except _Timeout:
        return f"unmarshal({spec['alias']}, {value!r}) did not return within 10 s"
    except Exception:
        pass
    finally:
        signal.alarm(0)
        signal.signal(signal.SIGALRM, old)
    return None


def run_alias(spec):
    import typelib
    name = f"c07_alias_{next(_n)}"
    mod = types.ModuleType(name)
    sys.modules[name] = mod
    exec(compile(ALIAS_SRC, name, "exec"), mod.__dict__)
    t = getattr(mod, spec["alias"])
    if "probe" in spec:
        return run_probe(spec, t)
    d = spec["depth"]
    if spec["alias"] == "Tree":
        w, e = 7, 7
        for _ in range(d):
            w, e = {"a": w}, {"a": e}
        w_in = w
    else:
        w, e = "7", 7
        for lvl in range(d):
            w, e = [w, str(lvl)], [e, lvl]
        w_in = w
    try:
        got = typelib.unmarshal(t, w_in)
    except RecursionError:
        return None if d > 100 else "recursion limit"
    except Exception as ex:
        return f"unmarshal({spec['alias']}, depth {d}) raised {type(ex).__name__}: {ex}"[:300]
    if got != e:
        return f"unmarshal({spec['alias']}) at depth {d}: got {got!r}, expected {e!r}"[:400]
    try:
        back = typelib.marshal(e, t=t)
    except Exception as ex:
        return f"marshal({spec['alias']}, depth {d}) raised {type(ex).__name__}: {ex}"[:300]
    if back != e:
        return f"marshal({spec['alias']}) at depth {d}: got {back!r}"[:300]
    return None


def specs(tier="quick", seed=0):
    rnd = random.Random(seed)
    kinds = list(KINDS)
    depths = (0, 1, 2, 3, 5, 12) if tier == "quick" else (0, 1, 2, 3, 4, 7, 12, 40, 150)
    out = []
    for a in ("Tree", "Nest"):
        for d in depths:
            out.append({"alias": a, "depth": d})
    for a in ("Json", "Tree", "Nest"):
        for p in ("x", "nested", "pairs"):
            out.append({"alias": a, "probe": p})
    # every simple cycle over 1..3 classes with each edge kind, every root kind
    for n in (1, 2, 3):
        cycle = [(i, (i + 1) % n) for i in range(n)]
        for kind in kinds:
            for root in ROOTS:
                for d in depths:
                    out.append({"n": n, "edges": [[a, b, kind] for a, b in cycle], "root": root, "root_i": 0, "depth": d})
    # mixed kinds, chords, self loops + 2-cycles, any class as root
    count = 150 if tier == "quick" else 1500
    for _ in range(count):
        n = rnd.choice((2, 3))
        pairs = [(a, b) for a in range(n) for b in range(n)]
        es = rnd.sample(pairs, rnd.randint(n, min(len(pairs), n + 3)))
        edges = [[a, b, rnd.choice(kinds)] for a, b in es]
        # every class needs an outgoing edge for the value generator to descend; add a self loop if missing
        for i in range(n):
            if not any(a == i for a, _b, _k in edges):
                edges.append([i, (i + 1) % n, rnd.choice(kinds)])
        out.append({"n": n, "edges": edges, "root": rnd.choice(ROOTS), "root_i": rnd.randrange(n), "depth": rnd.choice(depths)})
    return out


def search(tier="quick", seed=0, stop_at=1):
    fails, n = [], 0
    for spec in specs(tier, seed):
        n += 1
        r = run_case(spec)
        if r:
            fails.append({"spec": spec, "violation": r})
            if len(fails) >= stop_at:
                break
    return fails, n


def run_recorded(rec):
    return run_case(rec["spec"])
