"""C11 — executable twin: wrapper chains (NewType / TypeAliasType / string alias / Final / ClassVar / string and
ForwardRef references) behave like the plain type, at the root and at nested positions (bounded)."""
from __future__ import annotations

import dataclasses
import datetime
import decimal
import itertools
import typing
from typing import Literal  # noqa: F401  (named by the string aliases below)
import warnings

from typelib.py import compat
from props import typepool as tp
from props.concrete_util import clear_typelib_caches

MODULE = __name__
When = datetime.datetime
_counter = itertools.count()

BASES = [("int", int, ["7", 3, "x"]), ("When", datetime.date, ["2020-01-02", 86400, "nope"]),
         ("Decimal", decimal.Decimal, ["1.50", 2, "abc"]), ("list[int]", list[int], ['["1", 2]', (3, "4"), "zz"]),
         ("Point", tp.Point, [{"x": "1", "y": "2.5"}, '{"x": 3}', {"y": 1}]),
         ("Optional[int]", typing.Optional[int], [None, "5", "q"]),
         ("Literal['r','w']", typing.Literal["r", "w"], ["r", b"w", "x"]),
         ("bytes", bytes, [b"raw \xff bytes", "text", 7]),
         ("NoneType", type(None), [None, "x", 0]), ("None", None, [None, "x", 0])]
globals()["Point"] = tp.Point


def wrappers():
    def newtype(t):
        return typing.NewType(f"NT{next(_counter)}", t)

    def alias(t):
        return compat.TypeAliasType(f"AL{next(_counter)}", t)

    def final(t):
        return typing.Final[t]

    def classvar(t):
        return typing.ClassVar[t]
    return {"NewType": newtype, "Alias": alias, "Final": final, "ClassVar": classvar}


def chains(max_len=3):
    w = wrappers()
    names = list(w)
    for L in range(1, max_len + 1):
        for combo in itertools.product(names, repeat=L):
            # Final / ClassVar are only legal outermost (root / field) - keep them first
            if "Final" in combo[1:] or "ClassVar" in combo[1:]:
                continue
            yield combo


def apply_chain(t, combo):
    w = wrappers()
    for name in reversed(combo):
        t = w[name](t)
    return t


def outcome(f):
    try:
        return ("ok", f())
    except Exception as e:
        return ("reject", type(e).__name__)


def same_outcome(a, b):
    if a[0] != b[0]:
        return False
    if a[0] == "ok":
        return tp.same(a[1], b[1]) or repr(a[1]) == repr(b[1])
    return True


def positions(W, name):
    """The wrapped annotation at the root and at nested positions, with the matching plain annotation builder."""
    yield "root", (lambda t: t), (lambda x: x)
    if "Final" not in name and "ClassVar" not in name:
        yield "list member", (lambda t: list[t]), (lambda x: [x])
        yield "dict value", (lambda t: dict[str, t]), (lambda x: {"k": x})
        yield "tuple member", (lambda t: tuple[int, t]), (lambda x: [1, x])
        yield "union member", (lambda t: typing.Union[t, None]), (lambda x: x)
        yield "union member after str", (lambda t: typing.Union[str, t]), (lambda x: x)


def search(stop_at=1, max_len=2):
    import typelib
    warnings.simplefilter("ignore")
    clear_typelib_caches()
    fails, n, distinct = [], 0, set()
    for bname, B, inputs in BASES:
        for combo in chains(max_len):
            cname = "(".join(combo) + "(" + bname + ")" * len(combo)
            W = apply_chain(B, combo)
            for pname, mkT, mkX in positions(W, cname):
                Tw, Tp = mkT(W), mkT(B)
                for x in inputs:
                    n += 1
                    distinct.add((bname, combo, pname))
                    xin = mkX(x)
                    a = outcome(lambda: typelib.unmarshal(Tw, xin))
                    b = outcome(lambda: typelib.unmarshal(Tp, xin))
                    msg = None
                    if not same_outcome(a, b):
                        msg = f"unmarshal through {cname} at {pname}: {a!r}, plain type gives {b!r} (input {xin!r})"
                    elif a[0] == "ok":
                        ma = outcome(lambda: typelib.marshal(a[1], t=Tw))
                        mb = outcome(lambda: typelib.marshal(b[1], t=Tp))
                        if not same_outcome(ma, mb):
                            msg = f"marshal through {cname} at {pname}: {ma!r}, plain type gives {mb!r}"
                    if not msg and a[0] == "ok" and pname == "root":
                        # ... and codecs: the wrapped annotation's codec encodes / decodes like the plain type's
                        ca = outcome(lambda: typelib.codec(Tw).encode(a[1]))
                        cb = outcome(lambda: typelib.codec(Tp).encode(b[1]))
                        if not same_outcome(ca, cb):
                            msg = f"codec({cname}).encode: {ca!r}, plain type gives {cb!r}"
                        elif ca[0] == "ok":
                            da = outcome(lambda: typelib.codec(Tw).decode(ca[1]))
                            db = outcome(lambda: typelib.codec(Tp).decode(cb[1]))
                            if not same_outcome(da, db):
                                msg = f"codec({cname}).decode: {da!r}, plain type gives {db!r}"
                    if msg:
                        fails.append({"base": bname, "chain": list(combo), "position": pname, "input": repr(x), "failure": msg})
                        if stop_at and len(fails) >= stop_at:
                            return fails, n, len(distinct)
    # string / ForwardRef references (explicit module, qualified name, nested call depth)
    refs = [("string alias", compat.TypeAliasType("SA_When", "When"), datetime.datetime, ({"x": "1"}, "2020-01-02T03:04:05+00:00")),
            ("ForwardRef(module=...)", typing.ForwardRef("Point", module=MODULE), tp.Point, ({"x": "1"}, "2020-01-02T03:04:05+00:00")),
            # a reference whose *text* starts like a special form is still a reference
            ("string alias of a Literal", compat.TypeAliasType("SA_Mode", "Literal['r', 'w']"), typing.Literal["r", "w"], ("r", "x")),
            ("list of a string alias of a Literal", list[compat.TypeAliasType("SA_Mode2", "Literal['r', 'w']")],
             list[typing.Literal["r", "w"]], (["r", "w"], ["x"]))]
    for rname, R, plain, xs in refs:
        for x in xs:
            n += 1
            distinct.add((rname,))

            def depth3(R=R, x=x):
                def a():
                    def b():
                        return typelib.unmarshal(R, x)
                    return b()
                return a()
            a1, a2, b = outcome(lambda: typelib.unmarshal(R, x)), outcome(depth3), outcome(lambda: typelib.unmarshal(plain, x))
            if not (same_outcome(a1, b) and same_outcome(a2, b)):
                fails.append({"base": rname, "chain": [], "position": "reference", "input": repr(x),
                              "failure": f"reference {rname}: direct {a1!r}, nested depth {a2!r}, plain {b!r}"})
                if stop_at and len(fails) >= stop_at:
                    return fails, n, len(distinct)
    # text references from another module, every name qualified with the defining module (also more than once in one expression)
    import sys as _sys
    import types as _types
    modname = "c11_shapes_mod"
    if modname not in _sys.modules:
        m = _types.ModuleType(modname)
        _sys.modules[modname] = m
        exec("import dataclasses, typing\n@dataclasses.dataclass\nclass Circle:\n    r: int\n@dataclasses.dataclass\nclass Square:\n    side: int\n"
             "ShapeId = typing.NewType('ShapeId', int)\n", m.__dict__)
        for c_ in (m.Circle, m.Square):
            c_.__module__ = modname
        _sys.modules[modname] = m
    m = _sys.modules[modname]
    # (only references that *start* with the qualifying module are within the statement: a generic such as list[mod.X] written in a
    #  module that has not imported `mod` is not "resolvable from the caller's module")
    texts = [(f"{modname}.Circle", m.Circle, {"r": "1"}), (f"{modname}.Circle | {modname}.Square", m.Circle | m.Square, {"side": "2"}),
             (f"{modname}.Square | {modname}.Circle | None", m.Square | m.Circle | None, {"r": "3"}), (f"{modname}.ShapeId", m.ShapeId, "4")]
    for text, plain, x in texts:
        n += 1
        distinct.add(("text", text))
        a, b = outcome(lambda: typelib.unmarshal(text, x)), outcome(lambda: typelib.unmarshal(plain, x))
        if not same_outcome(a, b):
            fails.append({"base": "text:" + text, "chain": [], "position": "reference", "input": repr(x),
                          "failure": f"text reference {text!r}: {a!r}, the type itself gives {b!r}"})
            if stop_at and len(fails) >= stop_at:
                return fails, n, len(distinct)
    return fails, n, len(distinct)


def run_recorded(case):
    f, _, _ = search(stop_at=None, max_len=max(2, len(case.get("chain", []))))
    for c in f:
        if all(c[k] == case[k] for k in ("base", "chain", "position", "input")):
            return c["failure"]
    return None


def string_reference_memo_witness():
    """Known finding C11-string-reference-memoised-by-text: a bare string reference is resolved against the caller's module
    but memoised on its text, so the same text issued from a second module gets the first module's type."""
    import sys
    import types
    import typelib
    src = ("import dataclasses, typelib\n@dataclasses.dataclass\nclass C11Point:\n    x: {T}\n"
           "def run(v):\n    return typelib.unmarshal('C11Point', v)\n")
    mods = []
    try:
        for name, T in (("c11_memo_a", "int"), ("c11_memo_b", "str")):
            m = types.ModuleType(name)
            sys.modules[name] = m
            exec(compile(src.replace("{T}", T), name, "exec"), m.__dict__)
            m.C11Point.__module__ = name
            mods.append(m)
        warnings.simplefilter("ignore")
        a = mods[0].run({"x": "1"})
        b = mods[1].run({"x": "1"})
        if type(b) is not mods[1].C11Point:
            return (f"unmarshal('C11Point', ...) issued from module c11_memo_b returned an instance of {type(b).__module__}.C11Point "
                    f"({b!r}) after the same text had been resolved from module c11_memo_a ({a!r})")
        return None
    finally:
        for name in ("c11_memo_a", "c11_memo_b"):
            sys.modules.pop(name, None)
