"""C08 — executable twin: unions over a member pool vs the per-member routines in declared order."""
from __future__ import annotations

import dataclasses
import datetime
import decimal
import enum
import itertools
import random
import typing
import uuid
import warnings

from props.concrete_util import clear_typelib_caches


@dataclasses.dataclass
class DC:
    a: int
    b: str = "x"


class Color(enum.Enum):
    RED = "red"
    BLUE = "blue"


from typelib.py import compat as _compat
MAYBE_INT = _compat.TypeAliasType("MaybeInt", typing.Optional[int])          # type MaybeInt = int | None
MAYBE_DATE = typing.NewType("MaybeDate", typing.Optional[datetime.date])
NONE_NT = typing.NewType("NoneNT", type(None))
POOL = [int, str, float, decimal.Decimal, datetime.date, datetime.datetime, uuid.UUID, list[int],
        dict[str, int], DC, Color, typing.Literal["lit", 3], MAYBE_INT, MAYBE_DATE, NONE_NT]
NONE = type(None)


def nullable(m):
    """the member is None - as written, behind NewType / alias layers, or as a member of an optional union behind such layers
    (judged with typing's own attributes)"""
    for _ in range(8):
        if hasattr(m, "__supertype__"):
            m = m.__supertype__
        elif type(m).__name__ == "TypeAliasType":
            m = m.__value__
        else:
            break
    return m is None or m is NONE or (typing.get_origin(m) in (typing.Union, __import__("types").UnionType)
                                      and any(nullable(a) for a in typing.get_args(m)))

INPUTS = [None, 0, 1, -5, 1.5, True, "1", "1.5", "abc", "", "null", "None", "red", "lit", 3, "3", b"7", b"abc",
          "2020-01-02", "2020-01-02T03:04:05+00:00", "12345678-1234-5678-1234-567812345678", [1, 2], ["a"], (),
          {"a": 1}, {"a": "x"}, {"a": 1, "b": "y"}, "[1, 2]", '{"a": 1}', DC(1), Color.RED, decimal.Decimal("2"),
          datetime.date(2020, 1, 2), object(), 10 ** 30, float("inf"), "P1D", {"x": object()}]


def member_result(member, x, marshal):
    import typelib
    try:
        if marshal:
            return ("ok", typelib.marshal(x, t=member))
        return ("ok", typelib.unmarshal(member, x))
    except Exception as e:      # whichever error: a rejection
        return ("reject", type(e).__name__)


def expected(members, x, marshal):
    if x is None and any(nullable(m) for m in members):
        return ("ok", None)
    for m in members:
        r = member_result(m, x, marshal)
        if r[0] == "ok":
            return r
    return ("raise", "ValueError")


def same(a, b):
    try:
        return type(a) is type(b) and (a == b or (a != a and b != b))
    except Exception:
        return a is b


def check_case(members, x, marshal, spelling="Union"):
    import typelib
    warnings.simplefilter("ignore")
    clear_typelib_caches()
    exp = expected(members, x, marshal)
    clear_typelib_caches()
    if spelling == "Union":
        T = typing.Union[tuple(members)]
    elif spelling == "pipe":
        T = members[0]
        for m in members[1:]:
            T = T | m
    else:
        T = typing.Optional[typing.Union[tuple(m for m in members if m is not NONE)]]
    try:
        got = ("ok", typelib.marshal(x, t=T) if marshal else typelib.unmarshal(T, x))
    except ValueError:
        got = ("raise", "ValueError")
    except Exception as e:
        got = ("raise", type(e).__name__)
    finally:
        clear_typelib_caches()
    if exp[0] != got[0]:
        return f"{T}: input {x!r}: expected {exp!r}, got {got!r}"
    if exp[0] == "ok" and not same(exp[1], got[1]):
        return f"{T}: input {x!r}: first acceptor gives {exp[1]!r}, union gave {got[1]!r}"
    if exp[0] == "raise" and got[1] != "ValueError":
        return f"{T}: input {x!r}: every member rejects, expected ValueError, got {got[1]}"
    return None


def cases(seed=0, n_random=400):
    rnd = random.Random(seed)
    # systematic: pairs / triples with None at every position over a small core, then random over the pool
    core = [int, str, decimal.Decimal, datetime.date]
    out = [[str, MAYBE_INT], [MAYBE_INT, str], [str, int, MAYBE_DATE], [str, NONE_NT], [decimal.Decimal, NONE_NT, int]]
    for k in (2, 3):
        for ms in itertools.permutations(core + [NONE], k):
            if len(set(ms)) == k:
                out.append(list(ms))
    for _ in range(n_random):
        k = rnd.randint(2, 4)
        ms = rnd.sample(POOL + [NONE, NONE], k)
        if len(set(map(repr, ms))) == k:
            out.append(ms)
    return out


def _name(t):
    return getattr(t, "__name__", None) or repr(t)


def make_union(members, spelling="Union"):
    if spelling == "pipe":
        T = members[0]
        for m in members[1:]:
            T = T | m
        return T
    return typing.Union[tuple(members)]


def run_union(ms, xs, marshal):
    """One union routine, applied to the inputs xs in sequence (so history effects are visible);
    each answer is compared with the per-member routines in declared order."""
    import typelib
    warnings.simplefilter("ignore")
    clear_typelib_caches()
    exps = [expected(ms, x, marshal) for x in xs]
    clear_typelib_caches()
    T = make_union(ms)
    out = []
    for x, exp in zip(xs, exps):
        try:
            got = ("ok", typelib.marshal(x, t=T) if marshal else typelib.unmarshal(T, x))
        except ValueError:
            got = ("raise", "ValueError")
        except Exception as e:
            got = ("raise", type(e).__name__)
        r = None
        if exp[0] != got[0]:
            r = f"{T}: input {x!r}: expected {exp!r}, got {got!r}"
        elif exp[0] == "ok" and not same(exp[1], got[1]):
            r = f"{T}: input {x!r}: first acceptor gives {exp[1]!r}, union gave {got[1]!r}"
        elif exp[0] == "raise" and got[1] != "ValueError":
            r = f"{T}: input {x!r}: every member rejects, expected ValueError, got {got[1]}"
        out.append(r)
    clear_typelib_caches()
    return out


def search(seed=0, stop_at=1, n_random=150, marshal_too=True):
    fails, n, distinct = [], 0, set()
    rnd = random.Random(seed)
    for ms in cases(seed, n_random):
        order = list(range(len(INPUTS)))
        rnd.shuffle(order)
        for marshal in ((False, True) if marshal_too else (False,)):
            xs = [INPUTS[i] for i in order]
            res = run_union(ms, xs, marshal)
            for pos, (i, r) in enumerate(zip(order, res)):
                n += 1
                distinct.add((tuple(map(_name, ms)), i, marshal))
                if r:
                    fails.append({"members": [_name(m) for m in ms], "input_order": order[:pos + 1],
                                  "input": repr(INPUTS[i]), "marshal": marshal, "failure": r})
                    break
            if stop_at and len(fails) >= stop_at:
                return fails, n, len(distinct)
    return fails, n, len(distinct)


BY_NAME = {_name(t): t for t in POOL + [NONE]}


def run_recorded(case):
    ms = [BY_NAME[n] for n in case["members"]]
    xs = [INPUTS[i] for i in case["input_order"]]
    res = run_union(ms, xs, case["marshal"])
    return next((r for r in res if r), None)
