"""Symbolic runs of the composite routine classes (shared by C05, C03, C06, C13).

Each `run_*` explores one method of one routine class on arbitrary inputs and returns, per path,
a summary record; the property modules turn summaries into clauses.
"""
from __future__ import annotations

import z3

from pyvc.core import (SV, SInt, SBool, SSeq, SDict, Obj, Val, VNone, BoolS, IntS, to_val, to_int, to_bool_term,
                       PyRaise, run, run_raises, run_exc, truthy)
from pyvc.ground import Q
from pyvc.stmt import LoopSpec
from pyvc.expr import seq_of
from props import routine_world as rw

UN = "typelib.unmarshals.routines"
MA = "typelib.marshals.routines"

# (module, class, kind)
COMPOSITES = [
    (UN, "SubscriptedIterableUnmarshaller", "iterable"),
    (UN, "SubscriptedIteratorUnmarshaller", "iterator"),
    (UN, "SubscriptedMappingUnmarshaller", "mapping"),
    (UN, "FixedTupleUnmarshaller", "fixedtuple"),
    (UN, "StructuredTypeUnmarshaller", "structured"),
    (MA, "SubscriptedIterableMarshaller", "iterable"),
    (MA, "SubscriptedMappingMarshaller", "mapping"),
    (MA, "FixedTupleMarshaller", "fixedtuple"),
    (MA, "StructuredTypeMarshaller", "structured"),
]


def is_required_keys_loop(node):
    """the loop of StructuredTypeUnmarshaller.__call__ that checks a TypedDict's required keys: identified by what it iterates over"""
    import ast as _ast
    if not isinstance(node, _ast.For):
        return False
    if "__required_keys__" in _ast.unparse(node.iter):
        return True
    # ... or by what it does: `for k in <anything>: if k not in <kwargs>: raise ...` (the keys may have been computed earlier,
    # e.g. in the constructor; that they ARE the target's required keys is then an obligation of the loop's invariant)
    b = node.body
    return (len(b) == 1 and isinstance(b[0], _ast.If) and isinstance(b[0].test, _ast.Compare) and len(b[0].test.ops) == 1
            and isinstance(b[0].test.ops[0], _ast.NotIn) and isinstance(node.target, _ast.Name)
            and isinstance(b[0].test.left, _ast.Name) and b[0].test.left.id == node.target.id
            and any(isinstance(x, _ast.Raise) for x in b[0].body))


def make_interp():
    I = rw.install_serdes(rw.make_interp())

    def keep_raises(s, path):
        s.saved_raises = s.elem_raises      # consumed by the constructor / list display: parity clause uses it
    I.on_elem_raises = keep_raises
    I.on_dict_raises = lambda d, r, path: None

    # StructuredTypeUnmarshaller.__call__: the required-keys loop (TypedDict targets)
    def inv(I, path, env, k):
        import ast as _ast
        if "KW" not in _ROLE:
            _m, _c, _node = I.src.find_def(f"{UN}.StructuredTypeUnmarshaller.__call__")
            # the keyword-argument dict: the local assigned from the dict comprehension (by role, not by name)
            # ... i.e. the name unpacked into the constructor call `self.t(**<name>)`
            _ROLE["KW"] = next((k.value.id for c in _ast.walk(_node) if isinstance(c, _ast.Call) for k in c.keywords
                                if k.arg is None and isinstance(k.value, _ast.Name)), "kwargs")
        kw = env.lookup(_ROLE["KW"])
        slf = env.lookup("self")
        t = to_val(slf.fields["t"])
        n = kw.n if not isinstance(kw.n, int) else z3.IntVal(kw.n)

        return [Q([IntS], lambda j: z3.Implies(z3.And(j >= 0, j < k), kw.has_f(rw.required_key(t, j))), name="required-present")]
    I.loop_specs[(f"{UN}.StructuredTypeUnmarshaller.__call__", is_required_keys_loop)] = LoopSpec("required-keys", lambda I, p, e, k: None, inv)
    return I


_ROLE = {}
required_witness = z3.Function("required_witness", Val, IntS, IntS)


def routine_axioms():
    r, v = z3.Consts("r v", Val)
    return [Q([Val], lambda t: rw.required_n(t) >= 0, trigger=rw.required_n, name="required-nonneg"),
            Q([Val, Val], lambda c, k: z3.Implies(rw.ctx_has(c, k), z3.And(truthy(rw.ctx_val(c, k)),
                                                                          Val.is_VObj(rw.ctx_val(c, k)))),
              trigger=rw.ctx_val, name="context-values-are-routine-objects")] + rw.world_axioms()


# ----------------------------------------------------------------------------- __call__
def run_call(I, mod, cls, kind):
    func = f"{mod}.{cls}.__call__"
    is_un = mod == UN

    def mk(I, path):
        for a in routine_axioms():
            path.assume(a)
        val = path.fresh("val")
        fields = {"t": rw.ctor(path.fresh("self_t")), "origin": rw.ctor(path.fresh("self_origin")),
                  "context": rw.Ctx(path.fresh("ctx")), "var": None}
        cur = {"val": val}
        if kind in ("iterable", "iterator"):
            fields["values"] = SV(path.fresh("values_routine"))
        elif kind == "mapping":
            fields["keys"] = SV(path.fresh("keys_routine"))
            fields["values"] = SV(path.fresh("values_routine"))
        elif kind == "fixedtuple":
            n, r, seq = rw.routines_seq(path, "member_routine")
            fields["ordered_routines"] = seq
            fields["stack"] = SV(path.fresh("stack"))
            cur.update(n=n, r=r)
        elif kind == "structured":
            fhas = z3.Function("fields_has", Val, BoolS)
            fget = z3.Function("fields_get", Val, Val)
            fields["fields_by_var"] = SDict(lambda k: fhas(k), lambda k: SV(fget(k)))
            cur.update(fhas=fhas, fget=fget)
        slf = rw.routine_self(I, mod, cls, fields)
        cur["self"] = slf
        return [slf, SV(val)], {}, cur
    return func, I.run_function(func, mk)


def source_of(is_un, val):
    """What the composite iterates over: unmarshallers decode text first (serdes.load)."""
    return rw.load_f(val) if is_un else val


# ----------------------------------------------------------------------------- __init__
def run_init(I, mod, cls, kind):
    func = f"{mod}.{cls}.__init__"

    def mk(I, path):
        for a in routine_axioms():
            path.assume(a)
        t = path.fresh("t")
        c = rw.Ctx(path.fresh("ctx"))
        # well-formedness of T for this routine class (C15 proves the dispatch guarantees it)
        if kind in ("iterable",):
            path.assume(rw.nargs(t) >= 1)
        elif kind == "iterator":
            path.assume(rw.nargs(t) == 1)
        elif kind == "mapping":
            path.assume(rw.nargs(t) == 2)
        slf = rw.routine_self(I, mod, cls, {})
        cur = {"t": t, "ctx": c, "self": slf}
        return [slf, SV(t), c], {"var": None}, cur
    return func, I.run_function(func, mk)
