"""C19 — executable twin: classes.slotted(C) behaves like dataclass C (bounded sweep over synthesised dataclasses).

A case is a JSON spec: fields (with defaults / default_factory), dataclass flags, an optional base (slotted or not, with its
own fields), user __getstate__/__setstate__, the (dict, weakref) flags, nesting of the class definition, and a decoration
order for several classes (incl. repeated names).  Classes are built from generated source text so that a case replays."""
from __future__ import annotations

import copy
import itertools
import pickle
import random
import sys
import types
import warnings

_n = itertools.count()


def source(spec):
    """module source defining plain twins (P*) and the classes to be slotted (S*), identical but for the names"""
    lines = ["import dataclasses", "from typelib.py import classes"]

    def cls_src(name, fields, flags, base, user_state, indent=""):
        deco = f"{indent}@dataclasses.dataclass({', '.join(f'{k}={v}' for k, v in flags.items())})"
        head = f"{indent}class {name}{'(' + base + ')' if base else ''}:"
        body = []
        for fname, kind in fields:
            if kind == "req":
                body.append(f"{indent}    {fname}: int")
            elif kind == "default":
                body.append(f"{indent}    {fname}: int = 7")
            elif kind == "factory":
                body.append(f"{indent}    {fname}: list = dataclasses.field(default_factory=list)")
            elif kind == "nocompare":
                body.append(f"{indent}    {fname}: int = dataclasses.field(default=3, compare=False)")
        if user_state:
            body.append(f"{indent}    def __getstate__(self):\n{indent}        return {{'mine': [getattr(self, f.name) for f in dataclasses.fields(self)]}}")
            body.append(f"{indent}    def __setstate__(self, state):\n{indent}        for f, v in zip(dataclasses.fields(self), state['mine']):\n{indent}            object.__setattr__(self, f.name, v)")
        if not body:
            body.append(f"{indent}    pass")
        return "\n".join([deco, head] + body)
    for prefix in ("P", "S"):
        base_name = None
        if spec.get("base"):
            b = spec["base"]
            lines.append(cls_src(f"{prefix}Base", b["fields"], b.get("flags", {}), None, bool(b.get("user_state"))))
            if prefix == "S" and b.get("slotted"):
                lines.append(f"SBase = classes.slotted(SBase, dict={b.get('dict', False)}, weakref={b.get('weakref', False)})")
            base_name = f"{prefix}Base"
        name = f"{prefix}{spec.get('name', 'Model')}"
        if spec.get("nested"):
            lines.append(f"class {prefix}Outer:\n" + cls_src(name, spec["fields"], spec.get("flags", {}), base_name, spec.get("user_state"), indent="    "))
            lines.append(f"{name} = {prefix}Outer.{name}")
        else:
            lines.append(cls_src(name, spec["fields"], spec.get("flags", {}), base_name, spec.get("user_state")))
    return "\n".join(lines) + "\n"


class InvalidCase(Exception):
    pass


def build(spec):
    name = f"c19_synth_{next(_n)}"
    mod = types.ModuleType(name)
    sys.modules[name] = mod
    try:
        exec(compile(source(spec), name, "exec"), mod.__dict__)
    except (TypeError, ValueError) as e:
        # the plain dataclass definitions themselves are rejected by dataclasses (a required field after a default, ...):
        # not a case.  (Only this step may be skipped - a failure of slotted() below is always a failure.)
        if "slotted" not in "".join(__import__("traceback").format_exception(e)):
            raise InvalidCase(str(e)) from None
        raise
    cname = spec.get("name", "Model")
    P, S0 = getattr(mod, "P" + cname), getattr(mod, "S" + cname)
    from typelib.py import classes
    S = classes.slotted(S0, dict=spec.get("dict", False), weakref=spec.get("weakref", True))
    setattr(mod, "S" + cname, S)
    if spec.get("nested"):
        setattr(getattr(mod, "SOuter"), "S" + cname, S)
    return mod, P, S0, S


def arg_sets(spec):
    import dataclasses
    fields = list(spec.get("base", {}).get("fields", [])) + list(spec["fields"])
    # later definitions of a name override earlier ones but keep the position
    order = []
    for f, k in fields:
        if f not in order:
            order.append(f)
    kinds = {f: k for f, k in fields}
    req = [f for f in order if kinds[f] == "req"]
    out = [{f: i + 1 for i, f in enumerate(req)}]
    full = {}
    for i, f in enumerate(order):
        full[f] = [i] if kinds[f] == "factory" else 10 + i
    out.append(full)
    return out


def norm_repr(r, S, P):
    return r.replace(S.__qualname__, "#").replace(P.__qualname__, "#")


def run_case(spec):
    import dataclasses
    with warnings.catch_warnings():
        warnings.simplefilter("ignore")
        try:
            mod, P, S0, S = build(spec)
        except InvalidCase:
            return None
        except Exception as e:
            return f"decorating raised {type(e).__name__}: {e}"[:300]
        bad = []
        flags = spec.get("flags", {})
        own = [f for f, _k in spec["fields"]]
        inherited = set()
        for c in S.__mro__[1:]:
            inherited |= set(getattr(c, "__slots__", ()))
        want = [f for f in own if f not in inherited]
        # dataclasses.fields order for own names (re-declared inherited fields keep the base position but are still "fields")
        all_fields = [f.name for f in dataclasses.fields(S)]
        want = [f for f in all_fields if f not in inherited]
        # a base without __slots__ already provides both (dictoffset / weakrefoffset): no slot may be added for them
        base_dict = any(getattr(b, "__dictoffset__", 0) != 0 for b in S.__bases__)
        base_weak = any(getattr(b, "__weakrefoffset__", 0) != 0 for b in S.__bases__)
        if spec.get("dict", False) and "__dict__" not in inherited and not base_dict:
            want.append("__dict__")
        if spec.get("weakref", True) and "__weakref__" not in inherited and not base_weak:
            want.append("__weakref__")
        if tuple(S.__slots__) != tuple(want):
            bad.append(f"__slots__ is {S.__slots__!r}, expected {tuple(want)!r}")
        if S.__qualname__ != S0.__qualname__ or S.__module__ != S0.__module__ or S.__name__ != S0.__name__:
            bad.append("name / qualname / module not preserved")
        if [f.name for f in dataclasses.fields(S)] != [f.name.replace("", "") for f in dataclasses.fields(P)]:
            bad.append("fields differ from the plain dataclass")
        if S.__dataclass_params__.frozen != P.__dataclass_params__.frozen:
            bad.append("frozen-ness differs")
        for kw in arg_sets(spec):
            try:
                p = P(**copy.deepcopy(kw))
            except Exception:
                continue
            try:
                s = S(**copy.deepcopy(kw))
            except Exception as e:
                bad.append(f"S(**{kw}) raised {type(e).__name__}: {e}")
                continue
            for f in dataclasses.fields(P):
                if getattr(p, f.name) != getattr(s, f.name):
                    bad.append(f"field {f.name}: {getattr(s, f.name)!r} vs dataclass {getattr(p, f.name)!r}")
            if norm_repr(repr(s), S, P) != norm_repr(repr(p), S, P):
                bad.append(f"repr {s!r} vs {p!r}")
            s2, p2 = S(**copy.deepcopy(kw)), P(**copy.deepcopy(kw))
            if (s == s2) != (p == p2):
                bad.append("equality differs")
            for hs, hp in ((s, p),):
                try:
                    hp_ok = (hash(hp) == hash(p2), None)
                except TypeError as e:
                    hp_ok = (None, "TypeError")
                try:
                    hs_ok = (hash(hs) == hash(s2), None)
                except TypeError as e:
                    hs_ok = (None, "TypeError")
                if hs_ok != hp_ok:
                    bad.append(f"hashing differs: {hs_ok} vs dataclass {hp_ok}")
            if flags.get("order"):
                if (s < s2) != (p < p2) or (s <= s2) != (p <= p2):
                    bad.append("ordering differs")
            has_dict = hasattr(s, "__dict__")
            expect_dict = spec.get("dict", False) or any("__dict__" in getattr(c, "__dict__", {}) for c in S.__mro__[1:-1] if not hasattr(c, "__slots__")) \
                or any(not hasattr(c, "__slots__") for c in S.__mro__[1:-1])
            if has_dict != expect_dict:
                bad.append(f"instance __dict__ present={has_dict}, expected {expect_dict}")
            for op, f in (("copy", copy.copy), ("deepcopy", copy.deepcopy), ("pickle", lambda o: pickle.loads(pickle.dumps(o)))):
                try:
                    pc = f(p)
                except Exception:
                    continue
                try:
                    sc = f(s)
                except Exception as e:
                    bad.append(f"{op} raised {type(e).__name__}: {e}")
                    continue
                if type(sc) is not S or any(getattr(sc, g.name) != getattr(s, g.name) for g in dataclasses.fields(S)):
                    bad.append(f"{op} does not reproduce the instance: {sc!r} vs {s!r}")
            if flags.get("frozen"):
                try:
                    setattr(s, all_fields[0] if all_fields else "zz", 1)
                    bad.append("a frozen slotted instance accepted an assignment")
                except Exception:
                    pass                      # frozen-ness: the assignment is refused (the exception class for non-field names may differ)
        # decorating again (and other classes, in any order, incl. same-named ones) never raises
        from typelib.py import classes
        try:
            for _ in range(2):
                classes.slotted(S0, dict=spec.get("dict", False), weakref=spec.get("weakref", True))
            m2, P2, S02, S2 = build(spec)
        except Exception as e:
            bad.append(f"decorating again raised {type(e).__name__}: {e}")
        return "; ".join(bad[:3])[:500] if bad else None


def specs(tier="quick", seed=0):
    rnd = random.Random(seed)
    kinds = ["req", "default", "factory", "nocompare"]
    out = []
    flag_sets = [{}, {"frozen": True}, {"eq": False}, {"order": True}, {"unsafe_hash": True}, {"frozen": True, "order": True}]
    for nf in range(0, 4):
        for flags in flag_sets:
            for d, w in itertools.product((False, True), repeat=2):
                fields = [[f"f{i}", "req" if i == 0 else kinds[(i + nf) % 4]] for i in range(nf)]
                out.append({"fields": fields, "flags": flags, "dict": d, "weakref": w})
    # inheritance: slotted / unslotted base, re-declared field with a default, user state methods, nesting
    for slotted_base in (False, True):
        for redeclare in (False, True):
            for flags in ({}, {"frozen": True}):
                for user_state in (False, True):
                    base = {"fields": [["x", "default"], ["b", "default"]], "slotted": slotted_base, "flags": dict(flags), "weakref": False}
                    fields = ([["x", "default"]] if redeclare else []) + [["y", "default"], ["z", "factory"]]
                    for nested in (False, True):
                        out.append({"fields": fields, "flags": dict(flags), "base": base, "dict": False, "weakref": False,
                                    "user_state": user_state, "nested": nested})
                    # user state methods declared on the *base* (the child inherits them)
                    if not user_state:
                        out.append({"fields": fields, "flags": dict(flags), "base": dict(base, user_state=True), "dict": False, "weakref": False,
                                    "user_state": False, "nested": False})
                    # every (dict, weakref) combination on top of a base - slotted or not (an unslotted base already gives its
                    # instances a __dict__ and a __weakref__: nothing to add then, and nothing to trip over)
                    for d, w in itertools.product((False, True), repeat=2):
                        if (d, w) != (False, False):
                            out.append({"fields": fields, "flags": dict(flags), "base": base, "dict": d, "weakref": w,
                                        "user_state": user_state, "nested": False})
    count = 150 if tier == "quick" else 3000
    for _ in range(count):
        nf = rnd.randint(0, 5)
        fields, seen_default = [], False
        for i in range(nf):
            k = rnd.choice(kinds if seen_default else kinds + ["req"])
            if k != "req":
                seen_default = True
            elif seen_default:
                k = "default"
            fields.append([f"f{i}", k])
        spec = {"fields": fields, "flags": dict(rnd.choice(flag_sets)), "dict": rnd.random() < 0.4, "weakref": rnd.random() < 0.5,
                "user_state": rnd.random() < 0.2, "nested": rnd.random() < 0.3, "name": rnd.choice(["Model", "Model", "Other"])}
        if rnd.random() < 0.4:
            spec["base"] = {"fields": [["x", "default"]], "slotted": rnd.random() < 0.5, "flags": ({"frozen": True} if spec["flags"].get("frozen") else {}),
                            "weakref": False, "dict": False}
            if rnd.random() < 0.5:
                spec["fields"] = [["x", "default"]] + [[f, ("default" if k == "req" else k)] for f, k in spec["fields"]]
            else:
                spec["fields"] = [[f, ("default" if k == "req" else k)] for f, k in spec["fields"]]
        out.append(spec)
    return out


def search(tier="quick", seed=0, stop_at=1):
    fails, n = [], 0
    for spec in specs(tier, seed):
        n += 1
        try:
            r = run_case(spec)
        except Exception as e:        # an unexpected exception while exercising the slotted class is itself a difference from the dataclass
            r = f"exercising the slotted class raised {type(e).__name__}: {e}"[:300]
        if r:
            fails.append({"spec": spec, "violation": r})
            if len(fails) >= stop_at:
                break
    return fails, n


def run_recorded(rec):
    try:
        return run_case(rec["spec"])
    except Exception as e:
        return f"exercising the slotted class raised {type(e).__name__}: {e}"[:300]


def init_false_default_witness():
    """Known finding C19-init-false-default: the dataclass-generated __init__ of a field(default=..., init=False) relies on the
    class attribute, which slotted() has to erase (a slot and a class attribute of one name cannot coexist)."""
    import dataclasses
    from typelib.py import classes

    @dataclasses.dataclass
    class C:
        a: int
        b: int = dataclasses.field(default=7, init=False)
    with warnings.catch_warnings():
        warnings.simplefilter("ignore")
        S = classes.slotted(C, weakref=False)
        try:
            r = repr(S(1))
        except AttributeError as e:
            return f"repr(slotted(C)(1)) raised {e!r} for @dataclass C(a: int, b: int = field(default=7, init=False)); the dataclass gives {C(1)!r}"
    return None if r.endswith("(a=1, b=7)") else f"repr(slotted(C)(1)) == {r}"


def zero_arg_super_witness():
    """Known finding C19-zero-arg-super: methods compiled in the original class body keep its __class__ cell."""
    import dataclasses
    from typelib.py import classes

    @dataclasses.dataclass
    class D:
        x: int = 0

        def describe(self):
            return super().__repr__() is not None
    with warnings.catch_warnings():
        warnings.simplefilter("ignore")
        S = classes.slotted(D, weakref=False)
        try:
            S().describe()
        except TypeError as e:
            return f"slotted(D)().describe() raised {e!r} where D().describe() works (zero-argument super() in a method)"
    return None
