"""C17 check driver."""
from pyvc.driver import Check
from props import c17, c17_concrete

ASSUMPTIONS = [
    "Runtime primitives (issubclass, inspection.origin as used by the class-valued predicates, __args__, typing forms) "
    "are uninterpreted: each predicate is proved equal to the statement's formula for every interpretation of them, "
    "i.e. for every object; spelling independence is the fact that the formula mentions the annotation only through "
    "origin / __args__, on which the spellings agree (a typing fact, checked on the catalogue).",
    "issubclass(x, C) raises TypeError unless x is a class; within the documented domain of a class-valued predicate "
    "origin(obj) is a class; typing aliases used as issubclass targets stand for their runtime ABC.",
    "Concrete non-primitive objects (typing special forms, classes) are compared by identity.",
    "origin(), args(), name/qualname and the signature helpers are covered by the ground table obligations and the "
    "exhaustive catalogue differential (finite, labelled bounded), not by a symbolic proof.",
    "'Stable across calls' is C12's key-congruence obligation on the memoised predicates.",
]


def searcher(ob):
    # a ground clause is evaluated on the real functions: the inputs it lists *are* the failing inputs
    if ob.path_id == "ground" and ob.meta.get("bad"):
        return {"found": True, "kind": "c17-ground", "clause": ob.key, "bad": ob.meta["bad"]}
    fails, n, d = c17_concrete.search(stop_at=1)
    if fails:
        return {"found": True, "kind": "c17-case", "case": fails[0], "searched": n}
    return {"found": False, "searched": n, "engine": ob.meta.get("engine"), "note": "catalogue differential found no disagreement"}


def replay(data):
    case = data.get("case")
    if data.get("kind") == "c17-ground":
        from pyvc.driver import Check as _C
        chk = _C("C17")
        c17.spelling_obligations(chk)
        c17.alias_obligations(chk)
        c17.instance_predicate_obligations(chk)
        c17.signature_helper_obligations(chk)
        bad = [b for ob in chk.obs if ob.key == data.get("clause") for b in ob.meta.get("bad", [])]
        print("replay", data.get("clause"), "->", bad)
        return 1 if bad else 0
    if not case:
        print("replay: no concrete input recorded for", data.get("obligation"), data.get("solver"))
        return 1
    r = c17_concrete.run_recorded(case)
    print("replay", case["predicate"], case["object"], "->", r)
    return 1 if r else 0


def main(tier, seed):
    chk = Check("C17", tier, seed)
    chk.assumptions = list(ASSUMPTIONS)
    c17.obligations(chk)
    # accessors answer for the spelling they are given (both orders of first use): name / qualname / unwrap are memoised by
    # typing's order-insensitive equality - a listed known finding (same root cause as C12's); every other accessor must be stable
    kf = [k for k in Check.known_findings("C17") if k["id"] == "C17-memoised-accessor-member-order"]
    known = c17.order_stability_obligations(chk, known=("name", "qualname", "unwrap") if kf else ())
    if known and kf:
        chk.kf_lines.append(f"KNOWN-FINDING: property=C17 {kf[0]['print']}")
    fails, n, d = c17_concrete.search(stop_at=3)
    chk.bounded.append({"name": "exhaustive catalogue differential: class-valued predicates x catalogue, union/optional predicates x spellings (real code vs Python's own answers)",
                        "evaluations": n, "distinct_nontrivial": d, "failures": len(fails),
                        "rule": "26 predicates x 83 catalogue annotations (builtins, stdlib, ABCs and typing aliases bare and parameterised, user classes, NewTypes) + 10 special-form spellings; each predicate called twice"})
    for f in fails:
        chk.violation("catalogue :: " + f["predicate"], {"found": True, "kind": "c17-case", "case": f}, True)
    chk.resolve_failures(searcher)
    return chk.finish()
