"""C11 — aliases, NewTypes, qualifiers and string references are transparent.

Functions under contract: inspection.unwrap (props/unwrap_contract.py: while-loop invariant),
refs.forwardref and refs._resolve_module_name (explicit-module / dotted-name branches),
both factories (`unmarshaller`, `marshaller`: for-loop invariant), both `_get_unmarshaller`
dispatchers and graph.static_order's string / ForwardRef branch.

Key notion: is_routine_for(r, u) - "r is a routine the dispatch built for the unwrapped type u".
The factories are proved to return a routine for base(t); hence two annotations with the same base
get routines built by the same dispatch on the same unwrapped type - which node.type / node.var
labelled the node is irrelevant.
"""
from __future__ import annotations

import typing
import z3

from pyvc.core import (SV, SBool, SInt, SSeq, SDict, Obj, Val, VNone, BoolS, IntS, Cls, to_val, to_int, cls_of, sub, cls_const,
                       class_axioms, Stub, PyRaise, Unsupported)
from pyvc.driver import Ob, cover_hyps
from pyvc.ground import Q
from pyvc.stmt import LoopSpec
from pyvc.env import _MISSING
from pyvc.interp import Interp
from pyvc.builtins_model import install
from props import unwrap_contract as U
from props import uf_world as uw
from props import routine_world as rw

unwrap_f = z3.Function("unwrap", Val, Val)
is_routine_for = z3.Function("is_routine_for", Val, Val, BoolS)
build = z3.Function("dispatch_build", Val, Val, Val, Val)       # (unwrapped, var, context identity)
root_of = z3.Function("root_annotation", Val, Val)          # static_order(t)[-1].type: t, or evaluate(t) for a reference (C09 wiring clauses)
node_type = z3.Function("node_type", IntS, Val)
node_unw = z3.Function("node_unwrapped", IntS, Val)
node_var = z3.Function("node_var", IntS, Val)

FACTORIES = [("typelib.unmarshals.api", "unmarshaller", "NoOpUnmarshaller"), ("typelib.marshals.api", "marshaller", "NoOpMarshaller")]


def factory_obligations(chk, mod, fname, noop):
    I = install(Interp())
    func = f"{mod}.{fname}"
    box = {}

    class NodeV:
        host_symbolic = True

        def __init__(self, i):
            self.i = i

    def static_order(I, path, a, k):
        n = box["n"]
        return SSeq(n, lambda i: NodeV(to_int(i)), "list")
    I.stubs["typelib.graph.static_order"] = Stub(
        "graph.static_order", static_order,
        "static_order(t): nodes with node.unwrapped == unwrap(node.type); the last node's type is t (C09 contract)")

    orig_getattr = I.getattr

    def getattr_(obj, attr, path, env=None):
        if isinstance(obj, NodeV):
            return {"type": SV(node_type(obj.i)), "unwrapped": SV(node_unw(obj.i)), "var": SV(node_var(obj.i))}[attr]
        return orig_getattr(obj, attr, path, env)
    I.getattr = getattr_

    # the TypeContext: a dict (arrays); subscription through the dict protocol + __missing__ is C16's contract:
    # a stored key is found under itself.  Only stored keys are read here.
    def inst(I, path, cv, args, kwargs):
        if cv.name == "TypeContext":
            o = Obj(cv, {"$dict": SDict.from_arrays(z3.K(Val, z3.BoolVal(False)), z3.K(Val, VNone))})
            o.sym_fields = None
            o.ident = z3.Const("the_context", Val)
            box["ctx"] = o
            return o
        if cv.name == noop:
            return SV(z3.Const("noop_routine", Val))
        return _MISSING
    I.hooks["instantiate"] = inst

    def getitem(I, path, obj, idx, merge=False):
        d = obj.fields["$dict"]
        k = to_val(idx)
        if path.branch(d.has(k)):
            return d.get(k)
        raise PyRaise(KeyError, payload=idx)       # (fallbacks of __missing__ are not needed for stored keys)
    I.hooks["obj_getitem"] = getitem
    I.hooks["obj_setitem"] = lambda I, path, obj, idx, v: I.setitem(obj.fields["$dict"], idx, v, path)

    def get_unm(I, path, a, k):
        node = a[0]
        c = k.get("context", a[1] if len(a) > 1 else None)
        d = c.fields["$dict"]
        key = node_type(node.i)
        # contract of _get_unmarshaller (proved below): an existing binding of node.type is reused, otherwise the
        # dispatch builds a routine from node.unwrapped
        if path.branch(d.has(key)):
            return d.get(key)
        return SV(build(node_unw(node.i), node_var(node.i), c.ident))
    I.stubs[find_dispatcher(I.src, mod)] = Stub("_get_unmarshaller", get_unm, None)

    def havoc(I, path, env, k):
        c = env.lookup(env.find(lambda v: isinstance(v, Obj) and "$dict" in v.fields, "type context"))
        c.fields["$dict"] = SDict.from_arrays(path.fresh("c_has", z3.ArraySort(Val, BoolS)), path.fresh("c_val", z3.ArraySort(Val, Val)))

    def inv(I, path, env, k):
        c = env.lookup(env.find(lambda v: isinstance(v, Obj) and "$dict" in v.fields, "type context"))
        d = c.fields["$dict"]
        return [
            Q([IntS], lambda i: z3.Implies(z3.And(i >= 0, i < k), z3.And(d.has(node_type(i)), d.has(node_unw(i)))),
              name="every-earlier-node-is-bound-under-its-type-and-its-unwrapped-type"),
            Q([Val], lambda key: z3.Implies(d.has(key), is_routine_for(to_val(d.get(key)), unwrap_f(key))),
              name="every-binding-is-a-routine-for-the-key's-unwrapped-type"),
            d.has(to_val(typing.Any)),      # members annotated Any always find a routine (pre-bound pass-through; C15)
        ]
    I.loop_specs[(func, 0)] = LoopSpec("nodes", havoc, inv)

    def mk(I, path):
        n = path.fresh("n_nodes", IntS)
        path.assume(n >= 0)
        box["n"] = n
        t = path.fresh("t")
        # graph contract: node.unwrapped = unwrap(node.type); unwrap idempotent (lemma of the unwrap contract)
        path.assume(Q([IntS], lambda i: z3.Implies(z3.And(i >= 0, i < n), node_unw(i) == unwrap_f(node_type(i))), name="node-unwrapped-is-unwrap-of-type"))
        path.assume(Q([Val], lambda x: unwrap_f(unwrap_f(x)) == unwrap_f(x), trigger=unwrap_f, name="unwrap-idempotent"))
        path.assume(Q([Val, Val, Val], lambda u, v, c: is_routine_for(build(u, v, c), u), trigger=build, name="dispatch-builds-a-routine-for-its-unwrapped-argument"))
        # the root is the last node (C09): the annotation itself, or for a string / ForwardRef argument the type it evaluates to
        path.assume(z3.Implies(n > 0, node_type(n - 1) == root_of(t)))
        # the factories pre-bind typing.Any to the pass-through routine, which is what the dispatch builds for Any
        # (second entry of the handler tables: isunresolvable -> NoOp*; C15/C17)
        import typing as _t
        path.assume(is_routine_for(z3.Const("noop_routine", Val), unwrap_f(to_val(_t.Any))))
        return [SV(t)], {}, {"t": t, "n": n}
    results = I.run_function(func, mk)
    for pi, (path, out, obls, writes, cur) in enumerate(results):
        _factory_one(chk, func, pi, path, out, obls, cur)
    chk.add(Ob(func, "cover", "pre", cover_hyps(results), z3.BoolVal(True), expect="sat"))
    chk.trusted.update(I.assumed_used)


def _factory_one(chk, func, pi, path, out, obls, cur):
    pid = f"p{pi}"
    for nm, pc, goal in obls:
        chk.add(Ob(func, nm, pid, pc, goal))
    if out.kind == "end":
        return
    hy = path.hyps
    t, n = cur["t"], cur["n"]
    nm = "returns-a-routine-built-for-the-unwrapped-annotation"
    if out.kind != "ret":
        chk.add(Ob(func, nm, pid, hy, z3.BoolVal(False), {"outcome": out.kind, "why": str(out.value if out.kind == "unsupported" else out.exc.exc_cls)}))
        return
    r = to_val(out.value)
    chk.add(Ob(func, nm, pid, hy + [n > 0], is_routine_for(r, unwrap_f(root_of(t)))))
    chk.add(Ob(func, "an-empty-graph-yields-the-no-op-routine", pid, hy + [n == 0], r == z3.Const("noop_routine", Val)))


def find_dispatcher(src, mod):
    """Qualified name of the function of `mod` that walks the handler table (`for check, cls in _HANDLERS.items()`)."""
    import ast as _ast
    for node in src.module(mod).body:
        if isinstance(node, _ast.FunctionDef) and any(isinstance(l, _ast.For) and "_HANDLERS" in _ast.unparse(l.iter) for l in _ast.walk(node)):
            return f"{mod}.{node.name}"
    return f"{mod}._get_unmarshaller"


def dispatcher_obligations(chk, mod):
    """_get_unmarshaller(node, context): reuses an existing binding of node.type; otherwise the first handler whose
    predicate accepts node.unwrapped constructs its class from node.unwrapped (never from node.type)."""
    I = install(Interp())
    real = find_dispatcher(I.src, mod)
    func = f"{mod}.<handler-dispatch>"          # ledger key by role: the function's name is not part of the contract
    chk.functions.add(real)
    st = {"cur": None}
    checks = z3.Function("handler_accepts", IntS, Val, BoolS)

    class Handler:
        host_symbolic = True

        def __init__(self, i):
            self.i = i

    class HandlerCls:
        host_symbolic = True

        def __init__(self, i):
            self.i = i
    # the table is abstracted as an ordered sequence of (predicate_i, class_i): its content is C15/C17's subject
    n_h = z3.Int("n_handlers")

    class Table:
        host_symbolic = True
    I.stubs[f"{mod}._HANDLERS"] = Table()

    def method(I, path, recv, name, args, kw):
        if isinstance(recv, Table) and name == "items":
            return SSeq(n_h, lambda i: (Handler(to_int(i)), HandlerCls(to_int(i))), "list")
        return _MISSING
    I.hooks["method"] = method
    orig_getattr = I.getattr

    def getattr_(obj, attr, path, env=None):
        from pyvc.expr import BoundMethod
        if isinstance(obj, Table):
            return BoundMethod(obj, attr)
        return orig_getattr(obj, attr, path, env)
    I.getattr = getattr_
    orig_call = I.call_value

    def call_value(f, args, kwargs, path, node=None, env=None):
        if isinstance(f, Handler):
            return SBool(checks(f.i, to_val(args[0])))
        if isinstance(f, HandlerCls):
            st["cur"]["built"] = ("handler", f.i, args, kwargs)
            return SV(path.fresh("constructed"))
        return orig_call(f, args, kwargs, path, node=node, env=env)
    I.call_value = call_value

    def inst(I, path, cv, args, kwargs):
        if cv.name.startswith("StructuredType"):
            st["cur"]["built"] = ("structured", None, args, kwargs)
            return SV(path.fresh("constructed"))
        return _MISSING
    I.hooks["instantiate"] = inst

    def inv(I, path, env, k):
        nd = st["cur"]["node"]
        return [Q([IntS], lambda j: z3.Implies(z3.And(j >= 0, j < k), z3.Not(checks(j, to_val(nd.fields["unwrapped"])))), name="earlier-handlers-declined")]
    # (the handler loop is a first-match search: the engine reads it as such, in either of its spellings - return from the loop, or
    #  remember the class and break; no loop contract is needed)

    def mk(I, path):
        path.assume(n_h >= 0)
        nd = Obj(None, {"type": SV(path.fresh("node_type")), "unwrapped": SV(path.fresh("node_unwrapped")), "var": SV(path.fresh("node_var"))})
        nd.sym_fields = None
        c = SDict.from_arrays(path.fresh("c_has", z3.ArraySort(Val, BoolS)), path.fresh("c_val", z3.ArraySort(Val, Val)))
        cur = st["cur"] = {"node": nd, "ctx": c}
        return [nd, c], {}, cur
    results = I.run_function(real, mk)
    for pi, (path, out, obls, writes, cur) in enumerate(results):
        _dispatch_one(chk, func, pi, path, out, obls, cur, checks, n_h)
    chk.trusted.update(I.assumed_used)


def _dispatch_one(chk, func, pi, path, out, obls, cur, checks, n_h):
    pid = f"p{pi}"
    for nm, pc, goal in obls:
        chk.add(Ob(func, nm, pid, pc, goal))
    if out.kind == "end":
        return
    hy = path.hyps
    nd, c = cur["node"], cur["ctx"]
    ty, unw, var = (to_val(nd.fields[k]) for k in ("type", "unwrapped", "var"))
    names = ["an-existing-binding-of-node.type-is-reused", "otherwise-the-first-accepting-handler-builds-from-node.unwrapped"]
    if out.kind != "ret":
        for nm in names:
            chk.add(Ob(func, nm, pid, hy, z3.BoolVal(False), {"outcome": out.kind}))
        return
    r = to_val(out.value)
    has0, val0 = c.arrays if c.arrays else (None, None)
    built = cur.get("built")
    if built is None:
        chk.add(Ob(func, names[0], pid, hy, z3.And(c.has(ty), r == to_val(c.get(ty)))))
        chk.add(Ob(func, names[1], pid, hy, z3.BoolVal(True), {"trivial": True}))
        return
    kind, hi, args, kwargs = built
    chk.add(Ob(func, names[0], pid, hy, z3.Not(c.has(ty))))
    # constructor arguments: (node.unwrapped, context=context, var=node.var)
    ok_args = len(args) == 1 and isinstance(args[0], SV) and set(kwargs) == {"context", "var"} and kwargs["context"] is c
    goal = z3.And(z3.BoolVal(bool(ok_args)), to_val(args[0]) == unw if ok_args else z3.BoolVal(False),
                  to_val(kwargs["var"]) == var if ok_args else z3.BoolVal(False))
    if kind == "handler":
        goal = z3.And(goal, checks(hi, unw), hi >= 0, hi < n_h)
        first = Q([IntS], lambda j: z3.Implies(z3.And(j >= 0, j < hi), z3.Not(checks(j, unw))), name="first")
        chk.add(Ob(func, names[1], pid, hy, [goal, first]))
    else:
        none_accepts = Q([IntS], lambda j: z3.Implies(z3.And(j >= 0, j < n_h), z3.Not(checks(j, unw))), name="none")
        chk.add(Ob(func, names[1], pid, hy, [goal, none_accepts]))


def forwardref_obligations(chk):
    """refs.forwardref returns a typing.ForwardRef; with an explicit module the reference carries exactly that
    module; refs._resolve_module_name returns an explicit module unchanged and the first dotted component otherwise."""
    import typing
    I = uw.make_interp(raising=False)
    func = "typelib.py.refs.forwardref"
    I.stubs["typelib.py.inspection.qualname"] = Stub("inspection.qualname", lambda I, p, a, k: uw.call_uf(I, p, "qualname", a, k, may_raise=False,
                                                                                                          result_cls=cls_const(str)), "qualname(obj) is a str (C17)")
    I.stubs["typelib.py.refs._resolve_module_name"] = Stub("refs._resolve_module_name", lambda I, p, a, k: uw.call_uf(I, p, "resolve_module", a, k, may_raise=False), None)

    def fr(I, path, a, k):
        return uw.call_uf(I, path, "ForwardRef", a, k, may_raise=False, result_cls=cls_const(typing.ForwardRef))
    I.builtin_models[typing.ForwardRef] = fr

    st = {"cur": None}
    I.hooks["setattr"] = lambda I, path, obj, attr, v: st["cur"]["sets"].append((obj, attr, v))
    I.hooks["memo_call"] = lambda I, path, f, args, kwargs: st["cur"]["memo"].append(f.qualname)
    import ast as _ast
    _fnode = I.src.find_def(func)[2]
    self_memoised = any("cache" in _ast.unparse(d) for d in _fnode.decorator_list)

    def mk(I, path):
        cls_const(str)
        ref = path.fresh("ref")
        fa, fc = path.fresh("is_argument", BoolS), path.fresh("is_class", BoolS)
        st["cur"] = {"ref": ref, "sets": [], "flags": (fa, fc), "memo": []}
        return [SV(ref)], {"module": SV(path.fresh("module")), "is_argument": SBool(fa), "is_class": SBool(fc)}, st["cur"]
    for pi, (path, out, obls, writes, cur) in enumerate(I.run_function(func, mk)):
        hy = path.hyps + class_axioms()
        # a reference created from the type itself is pinned to that type; one created from text is left to be evaluated
        is_str = sub(cls_of(cur["ref"]), cls_const(str))
        sets = {a: v for (o, a, v) in cur["sets"] if out.kind == "ret" and o is out.value}
        pinned = (sets.get("__forward_evaluated__") is True and "__forward_value__" in sets
                  and isinstance(sets["__forward_value__"], SV) and sets["__forward_value__"].t.eq(cur["ref"]))
        chk.add(Ob(func, "a-reference-made-from-a-type-is-pinned-to-that-type", f"p{pi}", hy + [z3.Not(is_str)], z3.BoolVal(bool(pinned))))
        chk.add(Ob(func, "a-reference-made-from-text-is-left-unevaluated", f"p{pi}", hy + [is_str], z3.BoolVal(not sets)))
        # the pin is a write on the reference object: it must be an object of this very call.  References made from different
        # types may share name and module (`list[a.Item]` / `list[b.Item]`, equally named classes of two modules or two
        # function bodies); an object handed out by a memoised function would be shared between them and carry the last pin.
        chk.add(Ob(func, "a-pinned-reference-is-an-object-of-this-call-not-one-shared-through-a-memoised-function", f"p{pi}",
                   hy + [z3.Not(is_str)], z3.BoolVal(not cur["memo"] and not self_memoised),
                   {"memoised_on_the_way": list(cur["memo"]) + (["forwardref itself"] if self_memoised else [])}))
        goal = sub(cls_of(to_val(out.value)), cls_const(typing.ForwardRef)) if out.kind == "ret" else z3.BoolVal(False)
        chk.add(Ob(func, "returns-a-typing.ForwardRef", f"p{pi}", hy, goal, {"outcome": out.kind}))
        if out.kind == "ret":
            r = to_val(out.value)
            rm_args = [c for c in r.children()]
            # the module handed to ForwardRef is what _resolve_module_name returned
            chk.add(Ob(func, "module-is-the-resolved-module", f"p{pi}", hy,
                       z3.BoolVal(any("resolve_module" in str(c) for c in rm_args)), {"result": str(r)[:200]}))
            # dict-key identity of a ForwardRef is (name, module[, pinned value]): none of them may depend on the flags, so the
            # graph's cut reference (flags set) and the context's lookup reference (defaults) are the same key (C15 / C07)
            from pyvc.ground import collect
            flag_ids = {f.get_id() for f in cur["flags"]}
            kw = sorted(["is_argument", "is_class", "module"])
            name_t, module_t = rm_args[0], rm_args[1 + kw.index("module")]
            dep = any(t.get_id() in flag_ids for part in (name_t, module_t) for t in collect([part]))
            shape_ok = r.decl().name().startswith("ForwardRef") and len(rm_args) == 4
            chk.add(Ob(func, "name-and-module-do-not-depend-on-is_argument-or-is_class", f"p{pi}", hy, z3.BoolVal(shape_ok and not dep),
                       {"name": str(name_t)[:120], "module": str(module_t)[:120]}))
    # _resolve_module_name
    I2 = uw.make_interp(raising=False)
    func2 = "typelib.py.refs._resolve_module_name"
    I2.stubs["typelib.py.frames.extract"] = Stub("frames.extract", lambda I, p, a, k: SV(p.fresh("frame_obj")),
                                                 "frames.extract / frames.getcaller: caller-stack discovery, not decided (bounded stand-in only)")
    I2.stubs["typelib.py.frames.getcaller"] = Stub("frames.getcaller", lambda I, p, a, k: SV(p.fresh("caller")), None)

    def mk2(I, path):
        ref, module = path.fresh("ref"), path.fresh("module")
        return [SV(ref), SV(module)], {}, {"ref": ref, "module": module}
    for pi, (path, out, obls, writes, cur) in enumerate(I2.run_function(func2, mk2)):
        hy = path.hyps
        if out.kind == "ret":
            r = to_val(out.value)
            chk.add(Ob(func2, "an-explicit-module-is-returned-unchanged", f"p{pi}", hy + [cur["module"] != VNone], r == cur["module"]))
        else:
            chk.add(Ob(func2, "an-explicit-module-is-returned-unchanged", f"p{pi}", hy + [cur["module"] != VNone], z3.BoolVal(False),
                       {"outcome": out.kind, "why": str(out.value)}))


def should_unwrap_obligations(chk):
    """should_unwrap(t): exactly the Final[...] / ClassVar[...] qualifier forms are stripped - whatever they qualify (a Literal
    included: fix bf409af; the unwrap contract takes this predicate as 'is a qualifier layer')."""
    from props import uf_world as uw
    from pyvc.core import to_bool_term
    I = uw.make_interp(raising=False)
    func = "typelib.py.inspection.should_unwrap"
    P = {n: z3.Function("P_" + n, Val, BoolS) for n in ("isclassvartype", "isfinal", "isliteral")}
    for n in P:
        I.stubs[f"typelib.py.inspection.{n}"] = Stub(f"inspection.{n}", (lambda n: lambda I, p, a, k: SBool(P[n](to_val(a[0]))))(n),
                                                     f"{n}(t) (C17 contract)")

    def mk(I, path):
        t = path.fresh("t")
        return [SV(t)], {}, {"t": t}
    for pi, (path, out, obls, writes, cur) in enumerate(I.run_function(func, mk)):
        t = cur["t"]
        goal = z3.BoolVal(False)
        if out.kind == "ret":
            goal = to_bool_term(out.value) == z3.Or(P["isclassvartype"](t), P["isfinal"](t))
        chk.add(Ob(func, "exactly-the-qualifier-forms-are-stripped-whatever-they-qualify", f"p{pi}", path.hyps, goal,
                   {"outcome": out.kind, "why": str(out.value)[:160] if out.kind != "ret" else ""}))
    chk.trusted.update(I.assumed_used)


def obligations(chk):
    should_unwrap_obligations(chk)
    U.obligations(chk)
    for mod, fname, noop in FACTORIES:
        factory_obligations(chk, mod, fname, noop)
        dispatcher_obligations(chk, mod)
    forwardref_obligations(chk)
