"""A 'havoc' world for the leaf routines: every call into the standard library or a dependency
returns a fresh opaque value about which only the *class facts* stated here are known
(constructor calls return an instance of the class called; datetime.fromtimestamp returns a
datetime.datetime; x.replace(...) keeps x's class; re.compile returns a re.Pattern; str() returns a
str, ...).  Enough for properties that speak about the class of the result (C03); value-level
properties refine these stubs.
"""
from __future__ import annotations

import builtins as B
import datetime
import re

import z3

from pyvc.core import (SV, SInt, SBool, SSeq, SDict, Obj, Val, VNone, BoolS, IntS, Cls, to_val, to_int, PyRaise,
                       Unsupported, Stub, cls_of, sub, cls_const, seq_len, seq_at)
from pyvc.ground import Q
from pyvc.env import _MISSING
from pyvc.expr import SCls, BoundMethod
from props import routine_world as rw

PRED = {n: z3.Function("P_" + n, Cls, BoolS) for n in ("ismappingtype", "isiterabletype", "istexttype", "iscollectiontype",
                                                       "issequencetype", "isnamedtuple")}


def instance_of(path, cls_term, base="inst"):
    v = path.fresh(base)
    path.assume(cls_of(v) == cls_term)
    return SV(v)


def make_interp():
    I = rw.install_serdes(rw.make_interp())
    for nm in PRED:
        def stub(I, path, a, k, nm=nm):
            return SBool(PRED[nm](I.cls_term(a[0])))
        I.stubs[f"typelib.py.inspection.{nm}"] = Stub(f"inspection.{nm}", stub, f"{nm}(cls) (C17 contract)")
    for nm in ("dateparse", "isoformat", "unixtime"):
        def hv(I, path, a, k, nm=nm):
            return SV(path.fresh(nm))
        I.stubs[f"typelib.serdes.{nm}"] = Stub(f"serdes.{nm}", hv, f"serdes.{nm}: returns some value or raises (C04 contract refines it)")

    # calling a class value -> an instance of exactly that class (no __new__ tricks)
    orig_call_value = I.call_value

    def call_value(f, args, kwargs, path, node=None, env=None):
        if isinstance(f, SCls):
            return instance_of(path, f.t, "constructed")
        if isinstance(f, ClassMethodOf):
            return instance_of(path, f.cls_t, "constructed")
        return orig_call_value(f, args, kwargs, path, node=node, env=env)
    I.call_value = call_value

    def call_opaque(I, path, f, args, kwargs):
        if getattr(f, "is_ctor_of", None) is not None:
            return instance_of(path, f.is_ctor_of, "constructed")
        if getattr(f, "is_routine", False):
            return _MISSING
        return SV(path.fresh("call"))
    I.hooks["call_opaque"] = call_opaque

    def method(I, path, recv, name, args, kw):
        if isinstance(recv, rw.Ctx):
            return _MISSING
        if isinstance(recv, SV):
            if name == "replace":
                return instance_of(path, cls_of(recv.t), "replaced")
            if name == "time":
                return instance_of(path, cls_const(datetime.time), "time")
            if name == "date":
                return instance_of(path, cls_const(datetime.date), "date")
            if name in ("today",):
                return instance_of(path, cls_of(recv.t), "today")
            return SV(path.fresh("m_" + name))
        return _MISSING
    prev_method = I.hooks.get("method")

    def method2(I, path, recv, name, args, kw):
        if prev_method is not None:
            r = prev_method(I, path, recv, name, args, kw)
            if r is not _MISSING:
                return r
        return method(I, path, recv, name, args, kw)
    I.hooks["method"] = method2
    I.scls_attr["now"] = lambda I, path, c: ClassMethodOf(c.t)
    I.scls_attr["fromtimestamp"] = lambda I, path, c: ClassMethodOf(c.t)
    I.scls_attr["__qualname__"] = lambda I, path, c: SV(path.fresh("qualname"))

    I.builtin_models[datetime.datetime.fromtimestamp] = lambda I, path, a, k: instance_of(path, cls_const(datetime.datetime), "fromts")
    I.builtin_models[datetime.datetime.now] = lambda I, path, a, k: instance_of(path, cls_const(datetime.datetime), "now")
    I.builtin_models[re.compile] = lambda I, path, a, k: instance_of(path, cls_const(re.Pattern), "pattern")
    I.builtin_models[B.str] = lambda I, path, a, k: instance_of(path, cls_const(str), "str") if a and isinstance(a[0], SV) else _MISSING
    I.builtin_models[B.int] = lambda I, path, a, k: instance_of(path, cls_const(int), "int") if a and isinstance(a[0], SV) else _MISSING
    I.builtin_models[B.float] = lambda I, path, a, k: instance_of(path, cls_const(float), "float") if a and isinstance(a[0], SV) else _MISSING

    I.builtin_models[datetime.timedelta.__floordiv__] = lambda I, path, a, k: SV(path.fresh("floordiv"))

    def iter_hook(I, path, v):
        if isinstance(v, SV):
            return SSeq(seq_len(v.t), lambda i, t=v.t: SV(seq_at(t, to_int(i))), "gen")
        return _MISSING
    I.hooks["iter"] = iter_hook
    I.hooks["format_value"] = lambda I, path, v, spec, conv: [("opaque", to_val(v) if isinstance(v, (SV, SInt, SBool)) else VNone)]
    return I


class ClassMethodOf:
    host_symbolic = True

    def __init__(self, cls_t):
        self.cls_t = cls_t


def base_axioms():
    from pyvc.core import class_axioms
    return class_axioms() + [Q([Val], lambda v: seq_len(v) >= 0, trigger=seq_len, name="len-nonneg")]
