"""C11 check driver."""
from pyvc.driver import Check
from props import c11, c11_concrete

ASSUMPTIONS = [
    "Type objects are opaque; a type object is at most one kind of wrapper (Final/ClassVar form, TypeAliasType, NewType); "
    "wrapper nesting is well-founded (finite objects), which also gives termination of unwrap (variant: wrapper depth).",
    "Callee contracts: should_unwrap / istypealiastype (C17); graph.static_order delivers nodes with "
    "node.unwrapped == unwrap(node.type), the root last (C09); TypeContext finds a stored key under itself (C16).",
    "is_routine_for(r, u): r was built by the dispatch from the unwrapped type u with the shared context. Behavioural "
    "equality of two routines built for the same unwrapped type is determinism of the constructors (C12 obligation G: "
    "routines hold only construction-time state); node.var is only used in repr.",
    "References resolved by walking the caller's stack (frames.extract / frames.getcaller: 'from nested call depths') "
    "depend on the call history, not on arguments: not decided by contract; a bounded run (2 reference kinds x direct / "
    "nested depth 3) stands in and is labelled bounded.",
    "typing.ForwardRef(...) constructs an instance of typing.ForwardRef; ForwardRef._evaluate = den(ref).",
]


WITNESSES = {"C11-string-reference-memoised-by-text": c11_concrete.string_reference_memo_witness}


def searcher(ob):
    fails, n, d = c11_concrete.search(stop_at=1, max_len=2)
    if fails:
        return {"found": True, "kind": "c11-case", "case": fails[0], "searched": n}
    return {"found": False, "searched": n, "engine": ob.meta.get("why") or ob.meta.get("engine"),
            "note": "wrapper chains (length <= 2) x positions x base types behave like the plain type (bounded)"}


def replay(data):
    case = data.get("case")
    if not case:
        print("replay: no concrete input recorded for", data.get("obligation"), data.get("solver"))
        return 1
    r = c11_concrete.run_recorded(case)
    print("replay", case["base"], case["chain"], case["position"], case["input"], "->", r)
    return 1 if r else 0


def main(tier, seed):
    chk = Check("C11", tier, seed)
    chk.assumptions = list(ASSUMPTIONS)
    c11.obligations(chk)
    if tier in ("quick", "thorough"):
        fails, n, d = c11_concrete.search(stop_at=3, max_len=3 if tier == "thorough" else 2)
        chk.bounded.append({"name": "bounded cross-check: wrapper chains of length <= 3 at root / list / dict / tuple / union positions, and string / ForwardRef references from 2 call depths",
                            "evaluations": n, "distinct_nontrivial": d, "failures": len(fails),
                            "rule": "6 base types x chains over {NewType, TypeAliasType, Final} x 5 positions x 3 inputs, compared with the plain type (unmarshal and marshal)"})
        for f in fails:
            chk.violation("bounded-cross-check", {"found": True, "kind": "c11-case", "case": f}, True)
    chk.known_witness("C11-string-reference-memoised-by-text", c11_concrete.string_reference_memo_witness,
                      "the same bare string reference issued from two modules that each define the named class")
    chk.resolve_failures(searcher)
    return chk.finish()
