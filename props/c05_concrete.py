"""C05 — executable twin: composite results vs the composite rebuilt from independently obtained
member routines (bounded; replay and cross-check only)."""
from __future__ import annotations

import collections
import dataclasses
import typing
import warnings

from props import typepool as tp
from props.concrete_util import clear_typelib_caches


def members_of(T):
    """(kind, member annotations) from typing's own accessors."""
    origin, args = typing.get_origin(T), typing.get_args(T)
    if origin is None:
        if dataclasses.is_dataclass(T) or (isinstance(T, type) and issubclass(T, tuple) and hasattr(T, "_fields")) \
                or hasattr(T, "__required_keys__") or T is tp.Plain:
            return "structured", typing.get_type_hints(T)
        return None, None
    if origin is tuple:
        if len(args) == 2 and args[1] is Ellipsis:
            return "iterable", args[0]
        return "fixedtuple", args
    concrete = tp._ABSTRACT.get(origin, origin)
    if isinstance(concrete, type) and issubclass(concrete, dict):
        return "mapping", args
    if concrete in (list, set, frozenset, collections.deque):
        return "iterable", args[0]
    return None, None


def check_type(name, T, values):
    import typelib
    warnings.simplefilter("ignore")
    kind, mem = members_of(T)
    if kind is None:
        return []
    out = []
    for v in values:
        try:
            w = typelib.marshal(v, t=T)
            # marshal side: rebuilt from member marshallers
            if kind == "iterable":
                exp_w = [typelib.marshal(x, t=mem) for x in v]
                ok_m = w == exp_w if not isinstance(v, (set, frozenset)) else sorted(map(repr, w)) == sorted(map(repr, exp_w))
            elif kind == "fixedtuple":
                exp_w = [typelib.marshal(x, t=m) for x, m in zip(v, mem)]
                ok_m = w == exp_w
            elif kind == "mapping":
                exp_w = {typelib.marshal(k, t=mem[0]): typelib.marshal(x, t=mem[1]) for k, x in v.items()}
                ok_m = w == exp_w
            else:
                get = (lambda f: v[f]) if isinstance(v, dict) else (lambda f: getattr(v, f))
                exp_w = {f: typelib.marshal(get(f), t=h) for f, h in mem.items()}
                ok_m = w == exp_w
            if not ok_m:
                out.append(f"marshal({v!r}, t={name}) = {w!r}, rebuilt from member marshallers: {exp_w!r}")
                continue
            got = typelib.unmarshal(T, w)
            if kind == "iterable":
                exp = type(v)(typelib.unmarshal(mem, x) for x in w)
            elif kind == "fixedtuple":
                exp = tuple(typelib.unmarshal(m, x) for m, x in zip(mem, w))
            elif kind == "mapping":
                exp = {typelib.unmarshal(mem[0], k): typelib.unmarshal(mem[1], x) for k, x in w.items()}
            else:
                # (a dataclass field declared init=False is not a constructor argument)
                no_init = {f.name for f in dataclasses.fields(T) if not f.init} if dataclasses.is_dataclass(T) else set()
                kw = {f: typelib.unmarshal(h, w[f]) for f, h in mem.items() if f not in no_init}
                exp = T(**kw)
            if not tp.same(got, exp):
                out.append(f"unmarshal({name}, {w!r}) = {got!r}, rebuilt from member unmarshallers: {exp!r}")
        except Exception as e:
            out.append(f"{name}: value {v!r}: raised {e!r}")
    return out


def search(stop_at=1):
    fails, n = [], 0
    clear_typelib_caches()
    for name, T, values in tp.pool():
        n += len(values)
        for f in check_type(name, T, values):
            fails.append({"type": name, "failure": f})
            if stop_at and len(fails) >= stop_at:
                return fails, n, n
    return fails, n, n


def run_recorded(case):
    for name, T, values in tp.pool():
        if name == case["type"]:
            r = check_type(name, T, values)
            return r[0] if r else None
    return "type not in pool"
