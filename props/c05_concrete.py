"""C05 — executable twin: composite results vs the composite rebuilt from independently obtained
member routines (bounded; replay and cross-check only)."""
from __future__ import annotations

import collections
import dataclasses
import typing
import warnings

from props import typepool as tp
from props.concrete_util import clear_typelib_caches


def members_of(T):
    """(kind, member annotations) from typing's own accessors."""
    origin, args = typing.get_origin(T), typing.get_args(T)
    if origin is None:
        if dataclasses.is_dataclass(T) or (isinstance(T, type) and issubclass(T, tuple) and hasattr(T, "_fields")) \
                or hasattr(T, "__required_keys__") or T is tp.Plain:
            return "structured", typing.get_type_hints(T)
        return None, None
    if origin is tuple:
        if len(args) == 2 and args[1] is Ellipsis:
            return "iterable", args[0]
        return "fixedtuple", args
    concrete = tp._ABSTRACT.get(origin, origin)
    if isinstance(concrete, type) and issubclass(concrete, dict):
        return "mapping", args
    if concrete in (list, set, frozenset, collections.deque):
        return "iterable", args[0]
    return None, None


def check_type(name, T, values):
    import typelib
    warnings.simplefilter("ignore")
    kind, mem = members_of(T)
    if kind is None:
        return []
    out = []
    for v in values:
        try:
            w = typelib.marshal(v, t=T)
            # marshal side: rebuilt from member marshallers
            if kind == "iterable":
                exp_w = [typelib.marshal(x, t=mem) for x in v]
                ok_m = w == exp_w if not isinstance(v, (set, frozenset)) else sorted(map(repr, w)) == sorted(map(repr, exp_w))
            elif kind == "fixedtuple":
                exp_w = [typelib.marshal(x, t=m) for x, m in zip(v, mem)]
                ok_m = w == exp_w
            elif kind == "mapping":
                exp_w = {typelib.marshal(k, t=mem[0]): typelib.marshal(x, t=mem[1]) for k, x in v.items()}
                ok_m = w == exp_w
            else:
                get = (lambda f: v[f]) if isinstance(v, dict) else (lambda f: getattr(v, f))
                exp_w = {f: typelib.marshal(get(f), t=h) for f, h in mem.items()}
                ok_m = w == exp_w
            if not ok_m:
                out.append(f"marshal({v!r}, t={name}) = {w!r}, rebuilt from member marshallers: {exp_w!r}")
                continue
            got = typelib.unmarshal(T, w)
            if kind == "iterable":
                exp = type(v)(typelib.unmarshal(mem, x) for x in w)
            elif kind == "fixedtuple":
                exp = tuple(typelib.unmarshal(m, x) for m, x in zip(mem, w))
            elif kind == "mapping":
                exp = {typelib.unmarshal(mem[0], k): typelib.unmarshal(mem[1], x) for k, x in w.items()}
            else:
                # (a dataclass field declared init=False is not a constructor argument)
                no_init = {f.name for f in dataclasses.fields(T) if not f.init} if dataclasses.is_dataclass(T) else set()
                kw = {f: typelib.unmarshal(h, w[f]) for f, h in mem.items() if f not in no_init}
                exp = T(**kw)
            if not tp.same(got, exp):
                out.append(f"unmarshal({name}, {w!r}) = {got!r}, rebuilt from member unmarshallers: {exp!r}")
        except Exception as e:
            out.append(f"{name}: value {v!r}: raised {e!r}")
    return out


# ----------------------------------------------------------------------------- name coincidences
# "irrespective of name coincidences: ... equal class names in different modules, or one type reachable through several paths":
# two synthesised modules declare equally named classes with equally named fields of different types, and each root reaches
# its member type through two paths (so the type graph cuts one of them with a reference); a third pair lives in two function
# bodies of one module.  Every root is checked twice, after all the others have been built.
_COINCIDE_SRC = {
    "c05_twin_shop": "import dataclasses\n@dataclasses.dataclass\nclass Item:\n    sku: int\n    qty: int\n"
                     "@dataclasses.dataclass\nclass Order:\n    items: list[Item]\n    by_tag: dict[str, list[Item]]\n",
    "c05_twin_warehouse": "import dataclasses\n@dataclasses.dataclass\nclass Item:\n    sku: str\n    qty: float\n"
                          "@dataclasses.dataclass\nclass Order:\n    items: list[Item]\n    by_tag: dict[str, list[Item]]\n",
}


def _local_pair(leaf_t):
    # (built with make_dataclass: this module postpones its own annotations)
    Leaf = dataclasses.make_dataclass("Leaf", [("v", leaf_t)])
    Tree = dataclasses.make_dataclass("Tree", [("first", Leaf), ("rest", list[Leaf]), ("index", dict[str, Leaf])])
    return Leaf, Tree


def coincidence_roots():
    import sys
    import types as _types
    out = []
    for name, src in _COINCIDE_SRC.items():
        m = sys.modules.get(name)
        if m is None:
            m = _types.ModuleType(name)
            sys.modules[name] = m
            exec(compile(src, f"<{name}>", "exec"), m.__dict__)
        mk = (lambda I: [I(1, 2)]) if name.endswith("shop") else (lambda I: [I("1", 2.0)])
        out.append((f"{name}.Order", m.Order, [m.Order(items=mk(m.Item), by_tag={"new": mk(m.Item)})]))
    for t, v in ((int, 3), (str, "3")):
        Leaf, Tree = _local_pair(t)
        out.append((f"<locals>.Tree[{t.__name__}]", Tree, [Tree(Leaf(v), [Leaf(v)], {"k": Leaf(v)})]))
    return out


def coincidence_search():
    fails, n = [], 0
    roots = coincidence_roots()
    for rnd in (1, 2):
        for name, T, values in roots:
            n += len(values)
            for f in check_type(name, T, values):
                fails.append({"type": name, "failure": f"round {rnd}: {f}", "stage": "name-coincidence"})
    return fails, n


def search(stop_at=1):
    fails, n = [], 0
    clear_typelib_caches()
    for name, T, values in tp.pool():
        n += len(values)
        for f in check_type(name, T, values):
            fails.append({"type": name, "failure": f})
            if stop_at and len(fails) >= stop_at:
                return fails, n, n
    cf, cn = coincidence_search()
    n += cn
    fails.extend(cf[:stop_at] if stop_at else cf)
    return fails, n, n


def run_recorded(case):
    if case.get("stage") == "name-coincidence":
        clear_typelib_caches()
        cf, _ = coincidence_search()
        return cf[0]["failure"] if cf else None
    for name, T, values in tp.pool():
        if name == case["type"]:
            r = check_type(name, T, values)
            return r[0] if r else None
    return "type not in pool"
