"""C17 — executable twin: every class-valued predicate x a catalogue of annotations vs Python's own
issubclass / typing.get_origin answers (exhaustive over the finite catalogue; bounded)."""
from __future__ import annotations

import collections
import collections.abc
import dataclasses
import datetime
import decimal
import enum
import fractions
import pathlib
import re
import types
import typing
import uuid
import warnings

from props import c17 as spec
from props import typepool as tp


class UserList(list):
    pass


class Union:          # a user class that merely shares a name with a typing form
    pass


UserId = typing.NewType("UserId", int)
Stamp = typing.NewType("Stamp", datetime.datetime)


def catalogue():
    cls = [int, bool, float, str, bytes, bytearray, memoryview, list, set, frozenset, tuple, dict, type(None), datetime.date,
           datetime.datetime, datetime.time, datetime.timedelta, decimal.Decimal, fractions.Fraction, uuid.UUID, pathlib.Path,
           pathlib.PurePosixPath, re.Pattern, collections.deque, collections.OrderedDict, collections.defaultdict,
           types.MappingProxyType, tp.Color, tp.Num, tp.Point, tp.NT, tp.TD, tp.Plain, UserList, Union, object]
    out = [(c.__name__, c) for c in cls]
    for n in ("Sequence", "MutableSequence", "Collection", "Iterable", "Iterator", "Set", "MutableSet", "Mapping", "MutableMapping"):
        abc = getattr(collections.abc, n)
        two = n in ("Mapping", "MutableMapping")
        out += [(f"abc.{n}", abc), (f"abc.{n}[..]", abc[str, int] if two else abc[int])]
        t = getattr(typing, {"Set": "AbstractSet"}.get(n, n))
        out += [(f"typing.{n}", t), (f"typing.{n}[..]", t[str, int] if two else t[int])]
    out += [("list[int]", list[int]), ("List[int]", typing.List[int]), ("dict[str,int]", dict[str, int]), ("Dict[str,int]", typing.Dict[str, int]),
            ("tuple[int,...]", tuple[int, ...]), ("tuple[int,str]", tuple[int, str]), ("set[int]", set[int]), ("frozenset[int]", frozenset[int]),
            ("deque[int]", collections.deque[int]), ("UserId", UserId), ("Stamp", Stamp)]
    # NewType and alias wrappers of one class of every kind the predicates distinguish
    from typelib.py import compat
    for nm, c in (("int", int), ("float", float), ("str", str), ("bytes", bytes), ("Decimal", decimal.Decimal), ("Color", tp.Color),
                  ("Path", pathlib.PurePosixPath), ("Pattern", re.Pattern), ("date", datetime.date), ("UUID", uuid.UUID)):
        out.append((f"NewType({nm})", typing.NewType(f"NT_{nm}", c)))
        out.append((f"TypeAliasType({nm})", compat.TypeAliasType(f"AL_{nm}", c)))
    # two layers, in every order ("after NewType and alias resolution" does not say which comes first)
    for nm, c in (("int", int), ("str", str), ("date", datetime.date), ("Decimal", decimal.Decimal), ("list[int]", list[int])):
        nt, al = typing.NewType(f"NT2_{nm}", c), compat.TypeAliasType(f"AL2_{nm}", c)
        out.append((f"Alias(NewType({nm}))", compat.TypeAliasType(f"ALNT_{nm}", nt)))
        out.append((f"NewType(Alias({nm}))", typing.NewType(f"NTAL_{nm}", al)))
        out.append((f"Alias(Alias({nm}))", compat.TypeAliasType(f"ALAL_{nm}", al)))
        out.append((f"NewType(NewType({nm}))", typing.NewType(f"NTNT_{nm}", nt)))
    return out


def origin_spec(a):
    """typing origin after NewType resolution and the documented abstract -> builtin mapping."""
    while hasattr(a, "__supertype__") or hasattr(a, "__value__"):
        a = a.__supertype__ if hasattr(a, "__supertype__") else a.__value__
    o = typing.get_origin(a) or a
    for n, concrete in spec.ABSTRACT_COLLECTIONS.items():
        if o is getattr(collections.abc, n):
            return concrete
    if o is collections.abc.Hashable:
        return str
    return o


def search(stop_at=1):
    from typelib.py import inspection
    warnings.simplefilter("ignore")
    fails, n = [], 0
    table = {}
    table.update({k: (True, v, ()) for k, v in spec.VIA_ORIGIN.items()})
    table.update({k: (True, v, spec.COLLECTION_EXTRAS) for k, v in spec.VIA_ORIGIN_WITH_EXTRAS.items()})
    table.update({k: (True, v, ()) for k, v in spec.DIRECT.items()})      # (all of them: the class the annotation resolves to)
    for pname, (via, bases, extras) in table.items():
        pred = getattr(inspection, pname)
        for aname, a in catalogue():
            o = origin_spec(a) if via else a
            if not isinstance(o, type):
                if via:
                    continue          # class-valued predicates on non-class origins: outside the domain
                exp = False
            else:
                exp = any(issubclass(o, b) for b in bases) or o in extras
            n += 1
            try:
                got = bool(pred(a))
                got2 = bool(pred(a))
                msg = None if got == exp and got2 == got else f"{pname}({aname}) = {got}, Python's own answer is {exp}"
            except Exception as e:
                msg = f"{pname}({aname}) raised {e!r} inside its domain"
            if msg:
                fails.append({"predicate": pname, "object": aname, "failure": msg})
                if stop_at and len(fails) >= stop_at:
                    return fails, n, n
    # special forms, all spellings
    U = [("Optional[int]", typing.Optional[int], True, True), ("int|None", int | None, True, True), ("None|int", None | int, True, True),
         ("Union[int,None,str]", typing.Union[int, None, str], True, True), ("Union[int,str]", typing.Union[int, str], True, False),
         ("int|str", int | str, True, False), ("Literal[None,1]", typing.Literal[None, 1], False, True), ("int", int, False, False),
         ("class Union", Union, False, False), ("list[int]", list[int], False, False)]
    for aname, a, isu, iso in U:
        n += 2
        for pname, exp in (("isuniontype", isu), ("isoptionaltype", iso)):
            got = bool(getattr(inspection, pname)(a))
            if got != exp:
                fails.append({"predicate": pname, "object": aname, "failure": f"{pname}({aname}) = {got}, expected {exp}"})
                if stop_at and len(fails) >= stop_at:
                    return fails, n, n
    # subscripted forms: Python's own answer is the runtime class of the annotation object (a parameterised alias of either
    # family, or a PEP 604 union) - whatever its arguments are, the empty fixed tuple `tuple[()]` included
    T = typing.TypeVar("T")

    class G(typing.Generic[T]):
        pass
    forms = [("tuple[()]", tuple[()]), ("Tuple[()]", typing.Tuple[()]), ("tuple[int]", tuple[int]), ("tuple", tuple), ("typing.Tuple", typing.Tuple),
             ("list[int]", list[int]), ("typing.List", typing.List), ("list", list), ("dict[str,int]", dict[str, int]), ("int|str", int | str),
             ("Union[int,str]", typing.Union[int, str]), ("Optional[int]", typing.Optional[int]), ("int", int), ("G", G), ("G[int]", G[int]),
             ("Literal[1]", typing.Literal[1]), ("abc.Mapping[str,int]", collections.abc.Mapping[str, int]), ("abc.Mapping", collections.abc.Mapping),
             ("type[int]", type[int])]
    for aname, a in forms:
        n += 1
        exp = isinstance(a, (types.GenericAlias, typing._GenericAlias, types.UnionType))
        try:
            got = bool(inspection.issubscriptedgeneric(a))
            msg = None if got == exp else f"issubscriptedgeneric({aname}) = {got}, the annotation object is {'' if exp else 'not '}a parameterised form"
        except Exception as e:
            msg = f"issubscriptedgeneric({aname}) raised {e!r}"
        if msg:
            fails.append({"predicate": "issubscriptedgeneric", "object": aname, "failure": msg})
            if stop_at and len(fails) >= stop_at:
                return fails, n, n
    for aname, a, exp in (("tuple[()]", tuple[()], True), ("Tuple[()]", typing.Tuple[()], True), ("tuple[int,str]", tuple[int, str], True),
                          ("tuple[int,...]", tuple[int, ...], False), ("tuple", tuple, False), ("list[int]", list[int], False)):
        n += 1
        got = bool(inspection.isfixedtupletype(a))
        if got != exp:
            fails.append({"predicate": "isfixedtupletype", "object": aname, "failure": f"isfixedtupletype({aname}) = {got}, expected {exp}"})
            if stop_at and len(fails) >= stop_at:
                return fails, n, n
    return fails, n, n


def run_recorded(case):
    f, _, _ = search(stop_at=None)
    for c in f:
        if (c["predicate"], c["object"]) == (case["predicate"], case["object"]):
            return c["failure"]
    return None
