"""C18 — generic item and value iteration is lossless and non-destructive.

Functions under contract (real ASTs, typelib/serdes.py): iteritems, _is_iterable_of_pairs, itervalues,
get_items_iter, _namedtupleitems, _make_fields_iterator and its two closures.

Model.  The argument x is an opaque object; what it yields when iterated *from its current
position* is the abstract sequence elem(x, 0..elems_n(x)).  Iterators are heap objects with a
cursor: one-shot sources share one cursor (iter(x) is x), re-iterable sources get a fresh cursor per
iter().  more_itertools.peekable is modelled per its documented contract (peek caches the next item
of the underlying iterator; raises StopIteration when empty and no default is given).  The result
of iteritems/itervalues is consumed completely and the yielded sequence compared with the case
table of the statement.
"""
from __future__ import annotations

import builtins as B
import operator

import z3

from pyvc.core import (SV, SInt, SBool, SSeq, SDict, Obj, Val, VNone, BoolS, IntS, Cls, to_val, to_int, to_bool_term,
                       PyRaise, Unsupported, Stub, cls_of, seq_len, str_id, VStr)
from pyvc.driver import Ob, cover_hyps
from pyvc.ground import Q
from pyvc.interp import Interp
from pyvc.builtins_model import install
from pyvc.env import _MISSING
from pyvc.expr import SCls, seq_of, _len_term

MOD = "typelib.serdes"

# ---- abstract vocabulary
elems_n = z3.Function("elems_n", Val, IntS)
elem = z3.Function("elem", Val, IntS, Val)
mitems_n = z3.Function("mapping_items_n", Val, IntS)
mkey = z3.Function("mapping_key", Val, IntS, Val)
mval = z3.Function("mapping_val", Val, IntS, Val)
oneshot = z3.Function("is_its_own_iterator", Val, BoolS)
P = {n: z3.Function(n, Cls, BoolS) for n in ("isiterabletype", "ismappingtype", "issequencetype",
                                             "iscollectiontype", "isnamedtuple", "is_dataclass", "has_slots")}
nt_nfields = z3.Function("nt_nfields", Cls, IntS)
nt_field = z3.Function("nt_field", Cls, IntS, Val)
dc_n = z3.Function("dc_fields_n", Cls, IntS)
dc_name = z3.Function("dc_field_name", Cls, IntS, Val)
hint_n = z3.Function("hints_n", Cls, IntS)
hint_name = z3.Function("hint_name", Cls, IntS, Val)
slot_n = z3.Function("slots_n", Cls, IntS)
slot_name = z3.Function("slot_name", Cls, IntS, Val)       # the distinct slot names of the hierarchy, base first
slot_decl_n = z3.Function("slot_declarations_n", Cls, IntS)
slot_decl = z3.Function("slot_declaration", Cls, IntS, Val)    # every declaration (a subclass may repeat a base's slot)
has_dict = z3.Function("instance_has___dict__", Val, BoolS)
vars_n = z3.Function("vars_n", Val, IntS)
vars_key = z3.Function("vars_key", Val, IntS, Val)
vars_val = z3.Function("vars_val", Val, IntS, Val)
attr_of = z3.Function("attr_of", Val, Val, Val)
private = z3.Function("startswith_underscore", Val, BoolS)
hint_cv = z3.Function("hint_is_a_ClassVar", Cls, IntS, BoolS)      # the i-th annotation of the class is a ClassVar (not an instance field)


def class_axioms():
    c = lambda f: (lambda k: f(k))
    return [
        Q([Cls], lambda k: z3.Implies(P["ismappingtype"](k), P["isiterabletype"](k)), trigger=P["ismappingtype"], name="mapping-is-iterable"),
        Q([Cls], lambda k: z3.Implies(P["issequencetype"](k), P["isiterabletype"](k)), trigger=P["issequencetype"], name="sequence-is-iterable"),
        Q([Cls], lambda k: z3.Implies(P["isnamedtuple"](k), z3.And(P["issequencetype"](k), z3.Not(P["ismappingtype"](k)))),
          trigger=P["isnamedtuple"], name="namedtuple-is-a-tuple"),
        Q([Val], lambda x: z3.Implies(z3.Or(P["issequencetype"](cls_of(x)), P["ismappingtype"](cls_of(x))), z3.Not(oneshot(x))),
          trigger=oneshot, name="sequences-and-mappings-are-re-iterable"),
        Q([Val], lambda x: z3.And(elems_n(x) >= 0, mitems_n(x) >= 0, vars_n(x) >= 0), trigger=elems_n, name="lengths-nonneg"),
        Q([Val], lambda x: seq_len(x) >= 0, trigger=seq_len, name="len-nonneg"),
    ]


# ---- heap objects of the iterator model
class World:
    def __init__(self, path, x):
        self.x = x
        self.cur0 = z3.IntVal(0)          # elem() is already relative to the current position of x
        self.shared_pos = z3.IntVal(0)    # cursor of x itself when it is its own iterator
        self.consumed_shared = False


class IterObj:
    host_symbolic = True

    def __init__(self, w, shared):
        self.w, self.shared = w, shared
        self._pos = z3.IntVal(0)

    @property
    def pos(self):
        return self.w.shared_pos if self.shared else self._pos

    @pos.setter
    def pos(self, v):
        if self.shared:
            self.w.shared_pos = v
        else:
            self._pos = v


class PeekObj:
    host_symbolic = True

    def __init__(self, inner):
        self.inner = inner
        self.cache = None          # host value or None


class EnumObj:
    host_symbolic = True

    def __init__(self, inner):
        self.inner = inner


class ZipObj:
    host_symbolic = True

    def __init__(self, a, b):
        self.a, self.b = a, b


class MapItems:
    host_symbolic = True

    def __init__(self, x):
        self.x = x


class FilteredSeq:
    """[at(i) for i in range(n) if keep(i)] over an abstract source (src_id identifies the source)."""
    host_symbolic = True

    def __init__(self, src_id, n, keep, at):
        self.src_id, self.n, self.keep, self.at = src_id, n, keep, at


def make_interp():
    I = install(Interp())
    st = {"w": None}
    I.st = st

    for nm in ("isiterabletype", "ismappingtype", "issequencetype", "iscollectiontype", "isnamedtuple"):
        def stub(I, path, a, k, nm=nm):
            return SBool(P[nm](I.cls_term(a[0])))
        I.stubs[f"typelib.py.inspection.{nm}"] = Stub(f"inspection.{nm}", stub,
                                                      f"{nm}(cls): issubclass against the corresponding ABC (C17 contract)")

    def x_is(v):
        return isinstance(v, SV) and st["w"] is not None and v.t.eq(st["w"].x)

    # ---- iter / next / enumerate / zip / peekable / len
    def to_iter(I, path, v):
        w = st["w"]
        if isinstance(v, (IterObj, PeekObj, EnumObj, ZipObj)):
            return v
        if x_is(v):
            if path.branch(oneshot(w.x)):
                return IterObj(w, shared=True)
            return IterObj(w, shared=False)
        if isinstance(v, (SSeq, tuple, list)):
            return v
        if isinstance(v, MapItems):
            return v
        if isinstance(v, FilteredSeq):
            return v
        raise Unsupported(f"iter({v!r})")

    def m_iter(I, path, args, kw):
        return to_iter(I, path, args[0])

    def pull(I, path, it):
        """next(it) -> (exhausted: bool, value)."""
        if isinstance(it, IterObj):
            n = elems_n(it.w.x)
            if path.branch(it.pos < n):
                v = SV(elem(it.w.x, it.pos))
                it.pos = z3.simplify(it.pos + 1)
                return False, v
            return True, None
        if isinstance(it, PeekObj):
            if it.cache is not None:
                v, it.cache = it.cache, None
                return False, v
            return pull(I, path, it.inner)
        raise Unsupported(f"next({it!r})")

    def m_next(I, path, args, kw):
        it = args[0]
        if isinstance(it, (IterObj, PeekObj)):
            done, v = pull(I, path, it)
            if not done:
                return v
            if len(args) > 1:
                return args[1]
            raise PyRaise(StopIteration)
        return _MISSING
    prev_next = I.builtin_models[B.next]
    I.builtin_models[B.next] = lambda I, p, a, k: (lambda r: r if r is not _MISSING else prev_next(I, p, a, k))(m_next(I, p, a, k))
    I.builtin_models[B.iter] = m_iter

    def m_enumerate(I, path, args, kw):
        return EnumObj(to_iter(I, path, args[0]))
    I.builtin_models[B.enumerate] = m_enumerate

    def m_zip(I, path, args, kw):
        return ZipObj(args[0], to_iter(I, path, args[1]))
    I.builtin_models[B.zip] = m_zip

    import more_itertools
    I.builtin_models[more_itertools.peekable] = lambda I, path, args, kw: PeekObj(to_iter(I, path, args[0]))

    def method(I, path, recv, name, args, kw):
        if isinstance(recv, PeekObj) and name == "peek":
            if recv.cache is None:
                done, v = pull(I, path, recv.inner)
                if done:
                    if args:
                        return args[0]
                    raise PyRaise(StopIteration)
                recv.cache = v
            return recv.cache
        if name == "items" and isinstance(recv, SV):
            return MapItems(recv.t)
        if name == "items" and isinstance(recv, VarsDict):
            return FilteredSeq(("vars", recv.x), vars_n(recv.x), lambda i: z3.BoolVal(True),
                               lambda i, x=recv.x: (SV(vars_key(x, to_int(i))), SV(vars_val(x, to_int(i)))))
        if name == "startswith" and isinstance(recv, SV) and args == ["_"]:
            return SBool(private(recv.t))
        return _MISSING
    I.hooks["method"] = method

    orig_getattr = I.getattr

    def getattr_(obj, attr, path, env=None):
        from pyvc.expr import BoundMethod
        if isinstance(obj, (PeekObj, VarsDict)):
            return BoundMethod(obj, attr)
        if x_is(obj) and attr == "_fields":
            c = cls_of(obj.t)
            return SSeq(nt_nfields(c), lambda i, c=c: SV(nt_field(c, to_int(i))), "tuple")
        if isinstance(obj, FieldObj) and attr == "name":
            return SV(obj.name)
        if isinstance(obj, SCls) and attr == "__slots__":
            s_ = SSeq(slot_n(obj.t), lambda i, c=obj.t: SV(slot_name(c, to_int(i))), "tuple")
            s_.abstract_src = ("slots", None)
            return s_
        return orig_getattr(obj, attr, path, env)
    I.getattr = getattr_

    def len_opaque(I, path, x):
        return SInt(seq_len(x.t))
    I.hooks["len_opaque"] = len_opaque

    # methodcaller("items")
    orig_call_builtin = I.call_builtin

    def call_builtin(f, args, kwargs, path):
        if isinstance(f, operator.methodcaller):
            name = f.__reduce__()[1][0]
            return I.call_method(args[0], name, [], {}, path)
        return orig_call_builtin(f, args, kwargs, path)
    I.call_builtin = call_builtin

    # ---- structured objects
    import dataclasses

    I.builtin_models[dataclasses.is_dataclass] = lambda I, path, a, k: SBool(P["is_dataclass"](I.cls_term(a[0])))

    def dc_fields(I, path, a, k):
        c = I.cls_term(a[0])
        s_ = SSeq(dc_n(c), lambda i, c=c: FieldObj(dc_name(c, to_int(i))), "tuple")
        s_.abstract_src = ("dc", None)
        return s_
    I.builtin_models[dataclasses.fields] = dc_fields

    def get_type_hints(I, path, a, k):
        c = I.cls_term(a[0])
        return SDict(lambda key: z3.BoolVal(False), lambda key: None,
                     keyseq=SSeq(hint_n(c), lambda i, c=c: SV(hint_name(c, to_int(i))), "list"))
    I.stubs["typelib.py.inspection.get_type_hints"] = Stub("inspection.get_type_hints", get_type_hints,
                                                           "get_type_hints(cls): annotated names in definition order")

    def hasattr_hook(I, path, obj, name):
        if isinstance(obj, SCls) and name == "__slots__":
            return SBool(P["has_slots"](obj.t))
        return _MISSING
    I.hooks["hasattr"] = hasattr_hook

    def getattr_model(I, path, args, kw):
        if len(args) == 2 and isinstance(args[0], SV) and isinstance(args[1], SV):
            return SV(attr_of(args[0].t, args[1].t))
        return _MISSING
    prev_getattr = I.builtin_models[B.getattr]
    I.builtin_models[B.getattr] = lambda I, p, a, k: (lambda r: r if r is not _MISSING else prev_getattr(I, p, a, k))(
        getattr_model(I, p, a, k))
    I.builtin_models[B.vars] = lambda I, path, a, k: VarsDict(to_val(a[0]))

    def getattr_default(I, path, obj, name, default):
        # getattr(x, "__dict__", <default>): the instance dict (what vars(x) returns) when there is one
        if isinstance(obj, SV) and name == "__dict__":
            if path.branch(has_dict(obj.t)):
                return VarsDict(obj.t)
            if isinstance(default, dict) and not default:
                return VarsDict(obj.t)      # an empty dict: exactly vars() of an instance without __dict__ (vars_n == 0, axiom below)
            return default
        return _MISSING
    I.hooks["getattr_default"] = getattr_default

    # ---- the two name lists of _make_fields_iterator that are not single-source comprehensions, taken by contract for exactly these
    # expressions: the annotated names that are public and not ClassVar (inspection.isclassvartype per hint), and the public slot
    # names declared along the hierarchy, base first (slot_n / slot_name now stand for that whole list; `_slotnames` reads one
    # class's own __slots__, a single string being one name)
    def hints_contract(I, env, path):
        c = I.cls_term(env.lookup("tp"))
        I.assumed_used.add("get_type_hints(cls): annotated names in definition order; isclassvartype(hint) (C17) tells ClassVar annotations")
        return FilteredSeq(("hints", None), hint_n(c), lambda i, c=c: z3.And(z3.Not(private(hint_name(c, to_int(i)))), z3.Not(hint_cv(c, to_int(i)))),
                           lambda i, c=c: SV(hint_name(c, to_int(i))))

    def slots_contract(I, env, path):
        # the *declarations* along the hierarchy, base first - a subclass may declare a slot of its base again, so a name can
        # occur more than once here; the fields of the instance are the distinct names (slot_n / slot_name), see fromkeys below
        c = I.cls_term(env.lookup("tp"))
        I.assumed_used.add("[s for c in reversed(tp.__mro__) for s in _slotnames(c)]: the slot declarations along the hierarchy, base first (repeats possible)")
        fs = FilteredSeq(("slot-declarations", None), slot_decl_n(c), lambda i, c=c: z3.Not(private(slot_decl(c, to_int(i)))),
                         lambda i, c=c: SV(slot_decl(c, to_int(i))))
        fs.cls = c
        return fs

    def fromkeys(I, path, a, k):
        # dict.fromkeys(names): keeps the first occurrence of every name, in order - applied to the slot declarations it is the
        # list of distinct slot names (that list is what slot_n / slot_name denote)
        if len(a) == 1 and isinstance(a[0], FilteredSeq) and a[0].src_id == ("slot-declarations", None):
            c = a[0].cls
            I.assumed_used.add("dict.fromkeys(names) keeps the first occurrence of each name in order; iterating / list() of it yields those names")
            return FilteredSeq(("slots", None), slot_n(c), lambda i, c=c: z3.Not(private(slot_name(c, to_int(i)))),
                               lambda i, c=c: SV(slot_name(c, to_int(i))))
        return _MISSING
    I.builtin_models[dict.fromkeys] = fromkeys
    prev_list = I.builtin_models.get(B.list)
    I.builtin_models[B.list] = lambda I, p, a, k: a[0] if len(a) == 1 and isinstance(a[0], FilteredSeq) else (prev_list(I, p, a, k) if prev_list else _MISSING)
    I.expr_contracts = {
        "[k for k, hint in attribs.items() if not k.startswith('_') and (not inspection.isclassvartype(hint))]": hints_contract,
        "[s for c in reversed(tp.__mro__) for s in _slotnames(c) if not s.startswith('_')]": slots_contract,
    }

    # ---- filtered comprehensions over abstract sources: FilteredSeq
    orig_comp = I._comp

    def comp(node, env, path, kind):
        if len(node.generators) == 1:
            gen = node.generators[0]
            src_v = I.eval(gen.iter, env, path, False)
            base = None
            if isinstance(src_v, FilteredSeq):
                base = src_v
            elif isinstance(src_v, SDict) and src_v.keyseq is not None and not isinstance(src_v.keyseq.length, int):
                ks = src_v.keyseq
                base = FilteredSeq(("hints", None), ks.length, lambda i: z3.BoolVal(True), ks.at)
            elif isinstance(src_v, SSeq) and not isinstance(src_v.length, int) and (gen.ifs or getattr(src_v, "abstract_src", None)):
                base = FilteredSeq(getattr(src_v, "abstract_src", ("seq", str(src_v.length))), src_v.length,
                                   lambda i: z3.BoolVal(True), src_v.at)
            if base is not None:
                def bind(i):
                    e2 = env.child()
                    I.assign_target(gen.target, base.at(i), e2, path)
                    return e2

                def keep(i):
                    acc = base.keep(i)
                    with I.elem_scope():
                        for c in gen.ifs:
                            acc = z3.And(acc, to_bool_term(I.eval(c, bind(i), path, True)))
                    return acc

                def at(i):
                    with I.elem_scope():
                        return I.eval(node.elt, bind(i), path, True)
                return FilteredSeq(base.src_id, base.n, keep, at)
            # re-evaluate through the ordinary route (the source expression is pure)
        return orig_comp(node, env, path, kind)
    I._comp = comp

    def e_ListComp(node, env, path, merge):
        r = comp(node, env, path, "list")
        if isinstance(r, FilteredSeq):
            return r
        if isinstance(r, SSeq):
            I.materialise_raises(r, path)
            if isinstance(r.length, int):
                return [r.at(i) for i in range(r.length)]
        return r
    I.e_ListComp = e_ListComp

    orig_truth = I.truth

    def truth(v, path):
        if isinstance(v, FilteredSeq):
            j = path.fresh("nonempty_ix", IntS)
            some = path.fresh("nonempty", BoolS)
            if path.branch(some):
                path.assume(z3.And(j >= 0, j < v.n, v.keep(SInt(j))))
                return True
            path.assume(Q([IntS], lambda i: z3.Implies(z3.And(i >= 0, i < v.n), z3.Not(v.keep(SInt(i)))), name="empty-filter"))
            return False
        if isinstance(v, (IterObj, PeekObj, EnumObj, ZipObj, MapItems)):
            return True
        return orig_truth(v, path)
    I.truth = truth

    def iter_hook(I, path, v):
        return _MISSING
    return I


class FieldObj:
    host_symbolic = True

    def __init__(self, name):
        self.name = name


class VarsDict:
    host_symbolic = True

    def __init__(self, x):
        self.x = x


# ---- the sequence a result yields when consumed completely
def consume(res, w):
    """SSeq of the items produced by exhausting `res` (advances shared cursors)."""
    from pyvc.expr import concat_seqs
    if isinstance(res, IterObj):
        x, pos = res.w.x, res.pos
        n = z3.simplify(elems_n(x) - pos)
        out = SSeq(z3.If(n > 0, n, 0), lambda i, x=x, pos=pos: SV(elem(x, z3.simplify(pos + to_int(i)))), "gen")
        res.pos = z3.If(elems_n(x) > pos, elems_n(x), pos)
        return out
    if isinstance(res, PeekObj):
        inner = consume(res.inner, w)
        if res.cache is None:
            return inner
        c, res.cache = res.cache, None
        return concat_seqs([SSeq(1, lambda i, c=c: c, "gen"), inner], "gen")
    if isinstance(res, EnumObj):
        inner = consume(res.inner, w)
        return SSeq(inner.length, lambda i, inner=inner: (i if isinstance(i, int) else SInt(to_int(i)), inner.at(i)), "gen")
    if isinstance(res, ZipObj):
        a, b = seq_of(res.a), consume(res.b, w)
        la, lb = _len_term(a.length), _len_term(b.length)
        return SSeq(z3.If(la <= lb, la, lb), lambda i: (a.at(i), b.at(i)), "gen")
    if isinstance(res, MapItems):
        x = res.x
        return SSeq(mitems_n(x), lambda i, x=x: (SV(mkey(x, to_int(i))), SV(mval(x, to_int(i)))), "gen")
    if isinstance(res, SSeq):
        return res
    if isinstance(res, (list, tuple)):
        return seq_of(res)
    return None


def pair_terms(v):
    """(key term, value term) of a yielded item that should be a pair; None if it is not a host pair."""
    if isinstance(v, tuple) and len(v) == 2:
        return to_val(v[0]), to_val(v[1])
    return None


def install_iter_hook(I):
    def iter_hook(I, path, v):
        if isinstance(v, (IterObj, PeekObj, EnumObj, ZipObj, MapItems)):
            return consume(v, I.st["w"])
        return _MISSING
    I.hooks["iter"] = iter_hook


# ---- specification (the case table of the statement)
def spec_items(w, path):
    """Returns a list of (condition, expected) where expected is ('seq', n, key(i), val(i)) or
    ('filtered', src_id, n, keep(i), key(i), val(i)).  Conditions are exhaustive and exclusive."""
    x = w.x
    c = cls_of(x)
    first = elem(x, 0)
    is_pairs = z3.And(elems_n(x) > 0, P["iscollectiontype"](cls_of(first)), seq_len(first) == 2)
    it, mp, nt = P["isiterabletype"](c), P["ismappingtype"](c), P["isnamedtuple"](c)
    cases = []
    cases.append(("mapping", mp, ("seq", mitems_n(x), lambda i: mkey(x, i), lambda i: mval(x, i))))
    cases.append(("namedtuple", z3.And(z3.Not(mp), nt),
                  ("seq", z3.If(nt_nfields(c) <= elems_n(x), nt_nfields(c), elems_n(x)),
                   lambda i: nt_field(c, i), lambda i: elem(x, i))))
    cases.append(("iterable-of-pairs", z3.And(it, z3.Not(mp), z3.Not(nt), is_pairs),
                  ("raw", elems_n(x), lambda i: elem(x, i))))
    cases.append(("other-iterable", z3.And(it, z3.Not(mp), z3.Not(nt), z3.Not(is_pairs)),
                  ("seq", elems_n(x), lambda i: z3.Const("VInt_placeholder", Val), lambda i: elem(x, i), "index")))
    return cases, is_pairs


def structured_spec(w):
    """Public (field, value) pairs of a non-iterable object: dataclass fields, else annotated names, else
    __slots__ (when none of the former is public), else vars()."""
    x = w.x
    c = cls_of(x)
    pub = lambda name: z3.Not(private(name))
    dc = ("filtered", ("dc", None), dc_n(c), lambda i: pub(dc_name(c, i)), lambda i: dc_name(c, i),
          lambda i: attr_of(x, dc_name(c, i)))
    hints = ("filtered", ("hints", None), hint_n(c), lambda i: z3.And(pub(hint_name(c, i)), z3.Not(hint_cv(c, i))), lambda i: hint_name(c, i),
             lambda i: attr_of(x, hint_name(c, i)))
    slots = ("filtered", ("slots", None), slot_n(c), lambda i: pub(slot_name(c, i)), lambda i: slot_name(c, i),
             lambda i: attr_of(x, slot_name(c, i)))
    vrs = ("filtered", ("vars", None), vars_n(x), lambda i: pub(vars_key(x, i)), lambda i: vars_key(x, i),
           lambda i: vars_val(x, i))
    return dc, hints, slots, vrs


# ---- "some public name exists" per source, with Skolem witnesses (both directions quantifier-free)
any_pub = {k: z3.Function(f"any_public_{k}", Val, BoolS) for k in ("dc", "hints", "slots", "vars")}
wit = {k: z3.Function(f"witness_public_{k}", Val, IntS) for k in ("dc", "hints", "slots", "vars")}


def _src(kind, x):
    c = cls_of(x)
    return {"dc": (dc_n(c), lambda i: dc_name(c, i)), "hints": (hint_n(c), lambda i: hint_name(c, i)),
            "slots": (slot_n(c), lambda i: slot_name(c, i)), "vars": (vars_n(x), lambda i: vars_key(x, i))}[kind]


def is_field(kind, x, i):
    """the i-th name of the source is a public instance field (annotated names: also not a ClassVar)"""
    n, name = _src(kind, x)
    ok = z3.Not(private(name(i)))
    return z3.And(ok, z3.Not(hint_cv(cls_of(x), i))) if kind == "hints" else ok


def any_pub_axioms(x):
    ax = []
    for k in any_pub:
        n, name = _src(k, x)
        ax.append(Q([IntS], lambda i, n=n, k=k: z3.Implies(z3.And(i >= 0, i < n, is_field(k, x, i)), any_pub[k](x)),
                    name=f"any-public-{k}-intro"))
        w_ = wit[k](x)
        ax.append(z3.Implies(any_pub[k](x), z3.And(w_ >= 0, w_ < n, is_field(k, x, w_))))
        ax.append(n >= 0)
    ax.append(z3.Implies(z3.Not(has_dict(x)), vars_n(x) == 0))      # vars() of an instance without __dict__: nothing
    return ax


ITEM_CLAUSES = ["mapping-yields-its-items", "namedtuple-yields-field-value-pairs", "iterable-of-pairs-yields-the-given-pairs",
                "other-iterable-yields-index-element-pairs", "structured-object-yields-public-field-value-pairs",
                "returns-for-every-object-in-the-domain"]
VALUE_CLAUSES = ["mapping-yields-its-values", "namedtuple-yields-field-values", "iterable-yields-its-elements",
                 "structured-object-yields-public-field-values", "returns-for-every-object-in-the-domain"]


def run(chk, fname, values_only):
    I = make_interp()
    install_iter_hook(I)
    func = f"{MOD}.{fname}"

    def mk(I, path):
        x = path.fresh("x")
        w = World(path, x)
        I.st["w"] = w
        for a in class_axioms() + any_pub_axioms(x):
            path.assume(a)
        c = cls_of(x)
        # namedtuple instances have exactly their fields as elements
        path.assume(z3.Implies(P["isnamedtuple"](c), elems_n(x) == nt_nfields(c)))
        return [SV(x)], {}, {"w": w}
    results = I.run_function(func, mk, max_paths=3000)
    for pi, (path, out, obls, writes, cur) in enumerate(results):
        I.st["w"] = cur["w"]
        n_before = len(chk.obs)
        try:
            _one(chk, func, values_only, pi, path, out, cur["w"])
        except Unsupported as e:
            # an engine limit met while *stating* the clauses of this path (lazy elements are evaluated then): the path's
            # clauses are undischarged, not a checker crash
            del chk.obs[n_before:]
            for nm in (VALUE_CLAUSES if values_only else ITEM_CLAUSES):
                chk.add(Ob(func, nm, f"p{pi}", path.hyps, z3.BoolVal(False), {"engine": f"Unsupported {e}"}))
    chk.add(Ob(func, "cover", "pre", cover_hyps(results), z3.BoolVal(True), expect="sat"))
    chk.trusted.update(I.assumed_used)
    chk.functions.update(q for q in I.called if q.startswith("typelib."))
    chk.extra_coverage.setdefault("paths", {})[func] = len(results)


def _one(chk, func, values_only, pi, path, out, w):
    pid, hy = f"p{pi}", path.hyps
    x = w.x
    c = cls_of(x)
    names = VALUE_CLAUSES if values_only else ITEM_CLAUSES
    it, mp, nt = P["isiterabletype"](c), P["ismappingtype"](c), P["isnamedtuple"](c)
    if out.kind != "ret":
        why = {"outcome": out.kind, "why": str(out.value if out.kind == "unsupported" else out.exc.exc_cls)}
        if out.kind == "unsupported":
            for nm in names:
                chk.add(Ob(func, nm, pid, hy, z3.BoolVal(False), why))
        else:
            chk.add(Ob(func, names[-1], pid, hy, z3.BoolVal(False), why))
        return
    chk.add(Ob(func, names[-1], pid, hy, z3.BoolVal(True), {"trivial": True}))
    res = out.value
    i = path.fresh("i", IntS)
    if isinstance(res, FilteredSeq):
        _structured(chk, func, names, pid, hy, res, w, values_only, i)
        for nm in names[:-2]:
            chk.add(Ob(func, nm, pid, hy, {"mapping": z3.Not(mp), "namedtuple": z3.Not(z3.And(z3.Not(mp), nt))}.get(
                nm.split("-")[0], z3.Not(it))))
        return
    try:
        Y = consume(res, w)
    except Unsupported as e:
        Y = None
    if Y is None:
        for nm in names[:-1]:
            chk.add(Ob(func, nm, pid, hy, z3.BoolVal(False), {"note": f"result {res!r} is not an iteration the model knows"}))
        return
    n = _len_term(Y.length)
    item = Y.at(SInt(i))
    first = elem(x, 0)
    is_pairs = z3.And(elems_n(x) > 0, P["iscollectiontype"](cls_of(first)), seq_len(first) == 2)

    def pairs_match(cnt, key, val):
        pt = pair_terms(item)
        if pt is None:
            return z3.BoolVal(False)
        return z3.And(n == cnt, z3.Implies(z3.And(i >= 0, i < cnt), z3.And(pt[0] == key(i), pt[1] == val(i))))

    def raw_match(cnt, val):
        if isinstance(item, tuple):
            return z3.BoolVal(False)
        return z3.And(n == cnt, z3.Implies(z3.And(i >= 0, i < cnt), to_val(item) == val(i)))
    from pyvc.core import VInt
    if not values_only:
        chk.add(Ob(func, names[0], pid, hy + [mp], pairs_match(mitems_n(x), lambda j: mkey(x, j), lambda j: mval(x, j))))
        chk.add(Ob(func, names[1], pid, hy + [z3.Not(mp), nt],
                   pairs_match(nt_nfields(c), lambda j: nt_field(c, j), lambda j: elem(x, j))))
        chk.add(Ob(func, names[2], pid, hy + [it, z3.Not(mp), z3.Not(nt), is_pairs], raw_match(elems_n(x), lambda j: elem(x, j))))
        chk.add(Ob(func, names[3], pid, hy + [it, z3.Not(mp), z3.Not(nt), z3.Not(is_pairs)],
                   pairs_match(elems_n(x), lambda j: VInt(j), lambda j: elem(x, j))))
        chk.add(Ob(func, names[4], pid, hy, it, {"note": "a non-FilteredSeq result is only right for iterables"}))
    else:
        chk.add(Ob(func, names[0], pid, hy + [mp], raw_match(mitems_n(x), lambda j: mval(x, j))))
        chk.add(Ob(func, names[1], pid, hy + [z3.Not(mp), nt], raw_match(nt_nfields(c), lambda j: elem(x, j))))
        chk.add(Ob(func, names[2], pid, hy + [it, z3.Not(mp), z3.Not(nt)], raw_match(elems_n(x), lambda j: elem(x, j))))
        chk.add(Ob(func, names[3], pid, hy, it, {"note": "a non-FilteredSeq result is only right for iterables"}))


def _structured(chk, func, names, pid, hy, fs, w, values_only, i):
    x = w.x
    c = cls_of(x)
    nm = names[-2]
    kind = fs.src_id[0] if isinstance(fs.src_id, tuple) else None
    if kind not in ("dc", "hints", "slots", "vars"):
        chk.add(Ob(func, nm, pid, hy, z3.BoolVal(False), {"note": f"unknown field source {fs.src_id!r}"}))
        return
    n, name = _src(kind, x)
    val = (lambda j: vars_val(x, j)) if kind == "vars" else (lambda j: attr_of(x, name(j)))
    item = fs.at(SInt(i))
    if values_only:
        elt_ok = z3.BoolVal(False) if isinstance(item, tuple) else to_val(item) == val(i)
    else:
        pt = pair_terms(item)
        elt_ok = z3.BoolVal(False) if pt is None else z3.And(pt[0] == name(i), pt[1] == val(i))
    keep_ok = fs.keep(SInt(i)) == is_field(kind, x, i)
    n_ok = _len_term(fs.n) == n
    # the source the code chose is the one the statement prescribes
    dcx, base = P["is_dataclass"](c), None
    base_pub = z3.If(dcx, any_pub["dc"](x), any_pub["hints"](x))
    use_slots = z3.And(z3.Not(base_pub), P["has_slots"](c))
    chosen_pub = z3.If(use_slots, any_pub["slots"](x), base_pub)
    choice = {"dc": z3.And(dcx, z3.Not(use_slots), chosen_pub), "hints": z3.And(z3.Not(dcx), z3.Not(use_slots), chosen_pub),
              "slots": z3.And(use_slots, chosen_pub), "vars": z3.Not(chosen_pub)}[kind]
    chk.add(Ob(func, nm, pid, hy + [i >= 0, i < n], z3.And(n_ok, keep_ok, z3.Implies(fs.keep(SInt(i)), elt_ok),
                                                          choice, z3.Not(P["isiterabletype"](c)))))


def slotnames_obligation(chk):
    """serdes._slotnames(cls): the slot names the class *itself* declares, as a tuple, in declaration order - a single string is
    one name, a class without its own __slots__ declares none (inherited declarations are its bases' business).  Ground, on the
    real function; the slots expression contract above takes this function by contract."""
    from typelib import serdes

    class A:
        __slots__ = ("a", "b")

    class B(A):
        __slots__ = ["c"]

    class C(B):
        pass

    class D:
        __slots__ = "value"

    class E:
        __slots__ = {"x": "doc of x", "y": "doc of y"}

    class F:
        __slots__ = ()

    class P:
        pass
    want = {A: ("a", "b"), B: ("c",), C: (), D: ("value",), E: ("x", "y"), F: (), P: (), int: (), object: ()}
    bad = []
    for c, w in want.items():
        try:
            got = serdes._slotnames(c)
        except Exception as e:
            got = f"raised {type(e).__name__}"
        if got != w or not isinstance(got, tuple):
            bad.append(f"_slotnames({c.__name__}) = {got!r}, the class declares {w!r}")
    chk.add(Ob(f"{MOD}._slotnames", "the-slot-names-the-class-itself-declares-as-a-tuple-in-order", "ground", [], z3.BoolVal(not bad), {"bad": bad, "classes": len(want)}))


def obligations(chk):
    run(chk, "iteritems", values_only=False)
    run(chk, "itervalues", values_only=True)
    slotnames_obligation(chk)
