"""C18 check driver."""
from pyvc.driver import Check
from props import c18, c18_concrete

ASSUMPTIONS = [
    "x yields the abstract sequence elem(x, 0..n) when iterated from its current position; iter(x) is x for one-shot "
    "iterators and a fresh iterator otherwise; sequences (issequencetype) and mappings are re-iterable.",
    "more_itertools.peekable per its documentation: peek() caches the next item of the wrapped iterator, raises "
    "StopIteration when exhausted and no default is given; iteration yields the cached item first.",
    "Class predicates (isiterabletype, ismappingtype, issequencetype, iscollectiontype, isnamedtuple) are the issubclass "
    "answers (C17 contracts); a named tuple has exactly its fields as elements.",
    "dataclasses.fields / get_type_hints / __slots__ / vars() give names in definition order; getattr(x, name) is a "
    "function of (x, name); enumerate / zip / generator expressions per the language reference.",
    "'Iterable of pairs' is decided, as documented, by the first element being a 2-element collection.",
]


def searcher(ob):
    fails, n, d = c18_concrete.search(stop_at=1)
    if fails:
        return {"found": True, "kind": "c18-case", "case": fails[0], "searched": n}
    return {"found": False, "searched": n, "engine": ob.meta.get("why"),
            "note": "the concrete case table found no failing object"}


def replay(data):
    case = data.get("case")
    if not case:
        print("replay: no concrete input recorded for", data.get("obligation"), data.get("solver"))
        return 1
    r = c18_concrete.run_recorded(case)
    print("replay", case["case"], "->", r)
    return 1 if r else 0


def main(tier, seed):
    chk = Check("C18", tier, seed)
    chk.assumptions = list(ASSUMPTIONS)
    c18.obligations(chk)
    if tier in ("quick", "thorough"):      # the replay on the real code takes < 1 s: run it in both tiers (never counted as proved)
        fails, n, d = c18_concrete.search(stop_at=3)
        chk.bounded.append({"name": "bounded cross-check: concrete case table of the statement on the real serdes",
                            "evaluations": n, "distinct_nontrivial": d, "failures": len(fails),
                            "rule": "one object per row of the quantifier's list (mappings, structured flavours, sequences, one-shot iterators, empties)"})
        for f in fails:
            chk.violation("bounded-cross-check :: " + f["case"], {"found": True, "kind": "c18-case", "case": f}, True)
    chk.resolve_failures(searcher)
    return chk.finish()
