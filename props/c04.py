"""C04 — scalar values survive their text and numeric wire forms exactly.

Part 1 (pure integer arithmetic, exact): serdes._duration_isoformat on every timedelta
(days, seconds, microseconds) in the full range: the emitted text, kept as a token sequence,
is accepted by an independent ISO-8601 duration reader and denotes exactly
days*86400e6 + seconds*1e6 + microseconds.
Part 2: routing obligations of the temporal (un)marshalling code (numeric conventions, exact
reconstruction, offset / fold / microsecond pass-through).
"""
from __future__ import annotations

import builtins as B
import datetime

import z3

from pyvc.core import (SV, SInt, SBool, SSeq, Obj, Val, VNone, BoolS, IntS, Cls, to_val, to_int, to_bool_term, cls_of, sub,
                       cls_const, class_axioms, PyRaise, Unsupported, Stub)
from pyvc.driver import Ob
from pyvc.ground import Q
from pyvc.env import _MISSING
from pyvc.expr import SCls, SText
from pyvc.interp import Interp
from pyvc.builtins_model import install

SER = "typelib.serdes"
DAY_US = 86400 * 10 ** 6


class STd:
    """A datetime.timedelta: normalized integer fields."""
    host_symbolic = True

    def __init__(self, days, seconds, micros):
        self.days, self.seconds, self.micros = days, seconds, micros

    def total_us(self):
        return self.days * DAY_US + self.seconds * 10 ** 6 + self.micros

    @staticmethod
    def normalized(d, s, u):
        return z3.And(s >= 0, s < 86400, u >= 0, u < 10 ** 6, d >= -999999999, d <= 999999999)


def writer_interp():
    I = install(Interp())

    orig_getattr = I.getattr

    def getattr_(obj, attr, path, env=None):
        if isinstance(obj, STd):
            if attr in ("days", "seconds", "microseconds"):
                return SInt({"days": obj.days, "seconds": obj.seconds, "microseconds": obj.micros}[attr])
            raise Unsupported(f"timedelta.{attr}")
        return orig_getattr(obj, attr, path, env)
    I.getattr = getattr_

    orig_compare = I.compare

    def compare(op, a, b, path, merge=False):
        import ast
        if isinstance(a, STd) and isinstance(b, datetime.timedelta) and b == datetime.timedelta(0) and isinstance(op, ast.Lt):
            return SBool(a.total_us() < 0)
        return orig_compare(op, a, b, path, merge)
    I.compare = compare

    def e_UnaryOp(node, env, path, merge):
        import ast
        v = I.eval(node.operand, env, path, merge)
        if isinstance(v, STd) and isinstance(node.op, ast.USub):
            d, s, u = path.fresh("nd", IntS), path.fresh("ns", IntS), path.fresh("nu", IntS)
            r = STd(d, s, u)
            # timedelta.__neg__: the normalized representation of the negated total (datetime contract)
            path.assume(z3.And(s >= 0, s < 86400, u >= 0, u < 10 ** 6, r.total_us() == -v.total_us()))
            return r
        return type(I).e_UnaryOp(I, node, env, path, merge)
    I.e_UnaryOp = e_UnaryOp

    def m_isinstance(I_, path, args, kw, prev=I.builtin_models[B.isinstance]):
        if isinstance(args[0], STd):
            import pendulum
            cs = args[1] if isinstance(args[1], tuple) else (args[1],)
            return any(c is datetime.timedelta for c in cs) and not any(c is pendulum.Duration for c in cs) or \
                any(c in (datetime.timedelta, object) for c in cs)
        return prev(I_, path, args, kw)
    I.builtin_models[B.isinstance] = m_isinstance

    def method(I_, path, recv, name, args, kw):
        if recv == "" and name == "join":
            s = I.iter_seq(args[0], path)
            if not isinstance(s.length, int):
                raise Unsupported("join over a symbolic-length sequence")
            atoms = []
            for i in range(s.length):
                part = s.at(i)
                if isinstance(part, str):
                    atoms.append(("lit", part))
                elif isinstance(part, SText):
                    atoms.extend(part.atoms)
                else:
                    raise Unsupported(f"join of {part!r}")
            if all(a[0] == "lit" for a in atoms):
                return "".join(a[1] for a in atoms)
            return SText(atoms)
        return _MISSING
    I.hooks["method"] = method
    return I


# ----------------------------------------------------------------------------- the independent reader
def read_duration(atoms):
    """ISO 8601 duration reader over a token sequence (written from the standard, not from the code):
        ['-'] 'P' [nY] [nM] [nD] ['T' [nH] [nM] [n['.'ffffff]S]]
    Returns (well_formed: z3 Bool, total_us: z3 Int, sign) or (False, ...) when the shape itself is wrong."""
    toks = []
    for a in atoms:
        if a[0] == "lit":
            toks.extend(("ch", c) for c in a[1])
        else:
            toks.append(a)
    pos = 0
    sign = 1
    conds = []

    def peek():
        return toks[pos] if pos < len(toks) else None
    if peek() == ("ch", "-"):
        sign = -1
        pos += 1
    if peek() != ("ch", "P"):
        return z3.BoolVal(False), z3.IntVal(0)
    pos += 1
    total = z3.IntVal(0)
    n_components = 0
    in_time = False
    date_units = [("Y", 365 * DAY_US), ("M", 30 * DAY_US), ("D", DAY_US)]
    time_units = [("H", 3600 * 10 ** 6), ("M", 60 * 10 ** 6), ("S", 10 ** 6)]
    units = date_units
    time_components = 0
    while pos < len(toks):
        tk = toks[pos]
        if tk == ("ch", "T"):
            if in_time:
                return z3.BoolVal(False), total
            in_time = True
            units = time_units
            pos += 1
            continue
        if tk[0] != "dec":
            return z3.BoolVal(False), total
        num = tk[1]
        conds.append(num >= 0)                      # an unsigned decimal integer
        pos += 1
        frac = None
        if peek() == ("ch", "."):
            pos += 1
            if peek() is None or peek()[0] != "dec6":
                return z3.BoolVal(False), total
            frac = peek()[1]
            conds.append(z3.And(frac >= 0, frac < 10 ** 6))   # exactly six fraction digits
            pos += 1
        des = peek()
        if des is None or des[0] != "ch":
            return z3.BoolVal(False), total
        pos += 1
        # designators must appear in order, each at most once
        idx = next((i for i, (d, _) in enumerate(units) if d == des[1]), None)
        if idx is None:
            return z3.BoolVal(False), total
        if frac is not None and des[1] != "S":
            return z3.BoolVal(False), total
        mult = units[idx][1]
        units = units[idx + 1:]
        total = total + num * mult + (frac if frac is not None else 0)
        n_components += 1
        if in_time:
            time_components += 1
    if in_time and time_components == 0:
        return z3.BoolVal(False), total          # 'T' must be followed by a time component
    if n_components == 0:
        return z3.BoolVal(False), total          # at least one component
    return z3.And(*conds) if conds else z3.BoolVal(True), sign * total


KNOWN_ZERO = "zero-duration"   # timedelta(0) -> 'PT' (pinned by the repository's own test-suite)


def writer_obligations(chk):
    I = writer_interp()
    func = f"{SER}._duration_isoformat"

    def mk(I, path):
        d, s, u = path.fresh("days", IntS), path.fresh("seconds", IntS), path.fresh("micros", IntS)
        path.assume(STd.normalized(d, s, u))
        td = STd(d, s, u)
        return [td], {}, {"td": td}
    results = I.run_function(func, mk, max_paths=2000)
    for pi, (path, out, obls, writes, cur) in enumerate(results):
        _writer_one(chk, func, pi, path, out, cur)
    chk.add(Ob(func, "cover", "pre", results[0][0].hyps, z3.BoolVal(True), expect="sat"))
    chk.functions.update(q for q in I.called if q.startswith("typelib."))
    chk.extra_coverage["duration_writer_paths"] = len(results)


def _writer_one(chk, func, pi, path, out, cur):
    pid, hy, td = f"p{pi}", path.hyps, cur["td"]
    names = ["text-is-a-well-formed-ISO-8601-duration", "text-denotes-exactly-the-duration"]
    if out.kind != "ret":
        for nm in names:
            chk.add(Ob(func, nm, pid, hy, z3.BoolVal(False), {"outcome": out.kind, "why": str(out.value or out.exc.exc_cls)}))
        return
    res = out.value
    atoms = res.atoms if isinstance(res, SText) else [("lit", res)] if isinstance(res, str) else None
    if atoms is None:
        for nm in names:
            chk.add(Ob(func, nm, pid, hy, z3.BoolVal(False), {"note": f"result {res!r} is not text"}))
        return
    shape = "".join(a[1] if a[0] == "lit" else {"dec": "<n>", "dec6": "<ffffff>"}.get(a[0], "<?>") for a in atoms)
    wf, total = read_duration(atoms)
    nonzero = td.total_us() != 0
    # known finding: the zero duration is written 'PT' (no component); every other duration must be well-formed
    chk.add(Ob(func, names[0], pid, hy + [nonzero], wf, {"shape": shape}))
    chk.add(Ob(func, names[1], pid, hy + [nonzero], total == td.total_us(), {"shape": shape}))
    chk.add(Ob(func, "zero-duration-text-is-'PT'-(known-finding-residual)", pid, hy + [z3.Not(nonzero)],
               z3.BoolVal(shape in ("PT",)), {"shape": shape}))
    chk.samples.append({"path": pid, "shape": shape}) if len(chk.samples) < 12 else None


def obligations(chk):
    writer_obligations(chk)
