"""C04 — scalar values survive their text and numeric wire forms exactly.

Part 1 (pure integer arithmetic, exact): serdes.isoformat (through its duration helper) on every timedelta
(days, seconds, microseconds) in the full range: the emitted text, kept as a token sequence,
is accepted by an independent ISO-8601 duration reader and denotes exactly
days*86400e6 + seconds*1e6 + microseconds.
Part 2: routing obligations of the temporal (un)marshalling code (numeric conventions, exact
reconstruction, offset / fold / microsecond pass-through).
"""
from __future__ import annotations

import builtins as B
import datetime

import z3

from pyvc.core import (SV, SInt, SBool, SSeq, Obj, Val, VNone, BoolS, IntS, Cls, to_val, to_int, to_bool_term, cls_of, sub,
                       cls_const, class_axioms, PyRaise, Unsupported, Stub)
from pyvc.driver import Ob, cover_hyps
from pyvc.ground import Q
from pyvc.env import _MISSING
from pyvc.expr import SCls, SText
from pyvc.interp import Interp
from pyvc.builtins_model import install

SER = "typelib.serdes"
DAY_US = 86400 * 10 ** 6


class STd:
    """A datetime.timedelta: normalized integer fields."""
    host_symbolic = True

    def __init__(self, days, seconds, micros):
        self.days, self.seconds, self.micros = days, seconds, micros

    def total_us(self):
        return self.days * DAY_US + self.seconds * 10 ** 6 + self.micros

    @staticmethod
    def normalized(d, s, u):
        return z3.And(s >= 0, s < 86400, u >= 0, u < 10 ** 6, d >= -999999999, d <= 999999999)


def writer_interp():
    I = install(Interp())

    orig_getattr = I.getattr

    def getattr_(obj, attr, path, env=None):
        if isinstance(obj, STd):
            if attr in ("days", "seconds", "microseconds"):
                return SInt({"days": obj.days, "seconds": obj.seconds, "microseconds": obj.micros}[attr])
            raise Unsupported(f"timedelta.{attr}")
        return orig_getattr(obj, attr, path, env)
    I.getattr = getattr_

    orig_compare = I.compare

    def compare(op, a, b, path, merge=False):
        import ast
        if isinstance(a, STd) and isinstance(b, datetime.timedelta) and b == datetime.timedelta(0) and isinstance(op, ast.Lt):
            return SBool(a.total_us() < 0)
        return orig_compare(op, a, b, path, merge)
    I.compare = compare

    def e_UnaryOp(node, env, path, merge):
        import ast
        v = I.eval(node.operand, env, path, merge)
        if isinstance(v, STd) and isinstance(node.op, ast.USub):
            d, s, u = path.fresh("nd", IntS), path.fresh("ns", IntS), path.fresh("nu", IntS)
            r = STd(d, s, u)
            # timedelta.__neg__: the normalized representation of the negated total (datetime contract)
            path.assume(z3.And(s >= 0, s < 86400, u >= 0, u < 10 ** 6, r.total_us() == -v.total_us()))
            return r
        return type(I).e_UnaryOp(I, node, env, path, merge)
    I.e_UnaryOp = e_UnaryOp

    def m_isinstance(I_, path, args, kw, prev=I.builtin_models[B.isinstance]):
        if isinstance(args[0], STd):
            import pendulum
            cs = args[1] if isinstance(args[1], tuple) else (args[1],)
            return any(c is datetime.timedelta for c in cs) and not any(c is pendulum.Duration for c in cs) or \
                any(c in (datetime.timedelta, object) for c in cs)
        return prev(I_, path, args, kw)
    I.builtin_models[B.isinstance] = m_isinstance

    def method(I_, path, recv, name, args, kw):
        if recv == "" and name == "join":
            s = I.iter_seq(args[0], path)
            if not isinstance(s.length, int):
                raise Unsupported("join over a symbolic-length sequence")
            atoms = []
            for i in range(s.length):
                part = s.at(i)
                if isinstance(part, str):
                    atoms.append(("lit", part))
                elif isinstance(part, SText):
                    atoms.extend(part.atoms)
                else:
                    raise Unsupported(f"join of {part!r}")
            if all(a[0] == "lit" for a in atoms):
                return "".join(a[1] for a in atoms)
            return SText(atoms)
        return _MISSING
    I.hooks["method"] = method
    return I


# ----------------------------------------------------------------------------- the independent reader
def read_duration(atoms):
    """ISO 8601 duration reader over a token sequence (written from the standard, not from the code):
        ['-'] 'P' [nY] [nM] [nD] ['T' [nH] [nM] [n['.'ffffff]S]]
    Returns (well_formed: z3 Bool, total_us: z3 Int, sign) or (False, ...) when the shape itself is wrong."""
    toks = []
    for a in atoms:
        if a[0] == "lit":
            toks.extend(("ch", c) for c in a[1])
        else:
            toks.append(a)
    pos = 0
    sign = 1
    conds = []

    def peek():
        return toks[pos] if pos < len(toks) else None
    if peek() == ("ch", "-"):
        sign = -1
        pos += 1
    if peek() != ("ch", "P"):
        return z3.BoolVal(False), z3.IntVal(0)
    pos += 1
    total = z3.IntVal(0)
    n_components = 0
    in_time = False
    date_units = [("Y", 365 * DAY_US), ("M", 30 * DAY_US), ("D", DAY_US)]
    time_units = [("H", 3600 * 10 ** 6), ("M", 60 * 10 ** 6), ("S", 10 ** 6)]
    units = date_units
    time_components = 0
    while pos < len(toks):
        tk = toks[pos]
        if tk == ("ch", "T"):
            if in_time:
                return z3.BoolVal(False), total
            in_time = True
            units = time_units
            pos += 1
            continue
        if tk[0] != "dec":
            return z3.BoolVal(False), total
        num = tk[1]
        conds.append(num >= 0)                      # an unsigned decimal integer
        pos += 1
        frac = None
        if peek() == ("ch", "."):
            pos += 1
            if peek() is None or peek()[0] != "dec6":
                return z3.BoolVal(False), total
            frac = peek()[1]
            conds.append(z3.And(frac >= 0, frac < 10 ** 6))   # exactly six fraction digits
            pos += 1
        des = peek()
        if des is None or des[0] != "ch":
            return z3.BoolVal(False), total
        pos += 1
        # designators must appear in order, each at most once
        idx = next((i for i, (d, _) in enumerate(units) if d == des[1]), None)
        if idx is None:
            return z3.BoolVal(False), total
        if frac is not None and des[1] != "S":
            return z3.BoolVal(False), total
        mult = units[idx][1]
        units = units[idx + 1:]
        total = total + num * mult + (frac if frac is not None else 0)
        n_components += 1
        if in_time:
            time_components += 1
    if in_time and time_components == 0:
        return z3.BoolVal(False), total          # 'T' must be followed by a time component
    if n_components == 0:
        return z3.BoolVal(False), total          # at least one component
    return z3.And(*conds) if conds else z3.BoolVal(True), sign * total


KNOWN_ZERO = "zero-duration"   # timedelta(0) -> 'PT' (pinned by the repository's own test-suite)


def writer_obligations(chk):
    """The duration-writer proof is stated on the public `serdes.isoformat` applied to a timedelta: whatever helper it
    delegates to (today `_duration_isoformat`, recursive for negatives; no longer memoised since fix 4947f5c) is inlined from the current source, so
    renaming or restructuring that helper needs no contract change - only what `isoformat` emits matters."""
    I = writer_interp()
    func = f"{SER}.isoformat"

    def mk(I, path):
        d, s, u = path.fresh("days", IntS), path.fresh("seconds", IntS), path.fresh("micros", IntS)
        path.assume(STd.normalized(d, s, u))
        td = STd(d, s, u)
        return [td], {}, {"td": td}
    results = I.run_function(func, mk, max_paths=2000)
    for pi, (path, out, obls, writes, cur) in enumerate(results):
        _writer_one(chk, func, pi, path, out, cur)
    chk.add(Ob(func, "cover", "pre", cover_hyps(results), z3.BoolVal(True), expect="sat"))
    chk.functions.update(q for q in I.called if q.startswith("typelib."))
    chk.extra_coverage["duration_writer_paths"] = len(results)


def _writer_one(chk, func, pi, path, out, cur):
    pid, hy, td = f"p{pi}", path.hyps, cur["td"]
    names = ["text-is-a-well-formed-ISO-8601-duration", "text-denotes-exactly-the-duration"]
    if out.kind != "ret":
        for nm in names:
            chk.add(Ob(func, nm, pid, hy, z3.BoolVal(False), {"outcome": out.kind, "why": str(out.value or out.exc.exc_cls)}))
        return
    res = out.value
    atoms = res.atoms if isinstance(res, SText) else [("lit", res)] if isinstance(res, str) else None
    if atoms is None:
        for nm in names:
            chk.add(Ob(func, nm, pid, hy, z3.BoolVal(False), {"note": f"result {res!r} is not text"}))
        return
    shape = "".join(a[1] if a[0] == "lit" else {"dec": "<n>", "dec6": "<ffffff>"}.get(a[0], "<?>") for a in atoms)
    wf, total = read_duration(atoms)
    nonzero = td.total_us() != 0
    # known finding: the zero duration is written 'PT' (no component); every other duration must be well-formed
    chk.add(Ob(func, names[0], pid, hy + [nonzero], wf, {"shape": shape}))
    chk.add(Ob(func, names[1], pid, hy + [nonzero], total == td.total_us(), {"shape": shape}))
    chk.add(Ob(func, "zero-duration-text-is-'PT'-(known-finding-residual)", pid, hy + [z3.Not(nonzero)],
               z3.BoolVal(shape in ("PT",)), {"shape": shape}))
    chk.samples.append({"path": pid, "shape": shape}) if len(chk.samples) < 12 else None




# ============================================================================ Part 2: routing obligations
from props import routine_world as rw
from props import uf_world as uw

UN = "typelib.unmarshals.routines"
UTC = datetime.timezone.utc


def exp_call(name, args, kwargs=None):
    """The uninterpreted application the uf-world produces for `name(*args, **kwargs)`."""
    kwargs = kwargs or {}
    ks = sorted(kwargs)
    full = name + ("" if not ks else "[" + ",".join(ks) + "]")
    terms = [uw.lower(a) for a in args] + [uw.lower(kwargs[k]) for k in ks]
    return uw.uf(full, len(terms))(*terms)


def attr(name, obj_term):
    from pyvc.core import attr_uf
    return attr_uf(name)(obj_term)


def temporal_interp():
    I = uw.make_interp()
    # datetime.timedelta.__floordiv__(td, timedelta(microseconds=1)): the exact microsecond count (datetime contract)
    def floordiv(I, path, a, k):
        if len(a) == 2 and isinstance(a[1], datetime.timedelta) and a[1] == datetime.timedelta(microseconds=1):
            return SV(uw.uf("exact_microseconds", 1)(to_val(a[0])))
        return _MISSING
    I.builtin_models[datetime.timedelta.__floordiv__] = floordiv
    I.builtin_models[datetime.timedelta] = lambda I, path, a, k: (uw.call_uf(I, path, "datetime.timedelta", a, k, may_raise=True,
                                                                             result_cls=cls_const(datetime.timedelta))
                                                                  if any(isinstance(x, (SV, SInt)) for x in list(a) + list(k.values())) else _MISSING)
    I.builtin_models[datetime.datetime] = lambda I, path, a, k: (uw.call_uf(I, path, "datetime.datetime", a, k, may_raise=True,
                                                                            result_cls=cls_const(datetime.datetime))
                                                                 if any(not isinstance(x, (int, datetime.tzinfo)) for x in list(a) + list(k.values())) else _MISSING)
    return I


def _decode_contract(path, val):
    """C14: serdes.decode is the identity on values that are not bytes-like, and yields a str otherwise."""
    for k in (bytes, bytearray, memoryview, str):
        cls_const(k)
    bl = z3.Or(*[sub(cls_of(val), cls_const(k)) for k in (bytes, bytearray, memoryview)])
    path.assume(z3.Implies(z3.Not(bl), rw.decode_f(val) == val))
    path.assume(z3.Implies(bl, cls_of(rw.decode_f(val)) == cls_const(str)))
    # builtin layouts: numbers are not bytes-like
    path.assume(z3.Implies(z3.Or(sub(cls_of(val), cls_const(int)), sub(cls_of(val), cls_const(float))), z3.Not(bl)))


def _self(I, path, clsname, T):
    t = SCls(T)
    return rw.routine_self(I, UN, clsname, {"t": t, "origin": t, "context": rw.Ctx(path.fresh("ctx")), "var": None})


def timedelta_unmarshaller(chk):
    I = temporal_interp()
    func = f"{UN}.TimeDeltaUnmarshaller.__call__"

    def mk(I, path):
        for k in (int, float, str, datetime.timedelta):
            cls_const(k)
        T = path.fresh("T", Cls)
        path.assume(sub(T, cls_const(datetime.timedelta)))
        val = path.fresh("val")
        _decode_contract(path, val)
        return [_self(I, path, "TimeDeltaUnmarshaller", T), SV(val)], {}, {"T": T, "val": val}
    results = I.run_function(func, mk)
    for pi, (path, out, obls, writes, cur) in enumerate(results):
        _td_one(chk, func, pi, path, out, cur)
    chk.trusted.update(I.assumed_used)


def _td_one(chk, func, pi, path, out, cur):
    pid, hy = f"p{pi}", path.hyps + class_axioms()
    T, val = cur["T"], cur["val"]
    names = ["a-number-is-read-as-exactly-that-many-seconds", "a-parsed-duration-is-rebuilt-from-its-exact-microsecond-count",
             "text-is-parsed-as-a-duration"]
    if out.kind == "unsupported":
        for nm in names:
            chk.add(Ob(func, nm, pid, hy, z3.BoolVal(False), {"engine": out.value}))
        return
    if out.kind != "ret":
        for nm in names:
            chk.add(Ob(func, nm, pid, hy, z3.BoolVal(True), {"trivial": True}))
        return
    r = to_val(out.value)
    is_num = z3.Or(sub(cls_of(val), cls_const(int)), sub(cls_of(val), cls_const(float)))
    Tv = SCls(T)
    chk.add(Ob(func, names[0], pid, hy + [is_num], r == exp_call("construct", [Tv], {"seconds": SV(val)})))
    decoded = rw.decode_f(val)
    is_text = sub(cls_of(decoded), cls_const(str))
    parsed = exp_call("serdes.dateparse", [SV(decoded)], {"t": datetime.timedelta})
    td = z3.If(is_text, parsed, decoded)
    chk.add(Ob(func, names[2], pid, hy + [z3.Not(is_num), is_text],
               z3.Or(r == parsed, r == exp_call("construct", [Tv], {"microseconds": SV(uw.uf("exact_microseconds", 1)(parsed))}))))
    chk.add(Ob(func, names[1], pid, hy + [z3.Not(is_num)],
               z3.Or(z3.And(r == td, cls_of(td) == T),
                     z3.And(cls_of(td) != T, r == exp_call("construct", [Tv], {"microseconds": SV(uw.uf("exact_microseconds", 1)(td))})))))


def datetime_unmarshaller(chk):
    """DateTimeUnmarshaller / TimeUnmarshaller: wherever a value is rebuilt in the target class, every field -
    tzinfo, fold and microsecond included - is passed through unchanged; numbers are read at UTC."""
    for clsname, base, fields in (("DateTimeUnmarshaller", datetime.datetime,
                                   ("year", "month", "day", "hour", "minute", "second", "microsecond", "tzinfo", "fold")),
                                  ("TimeUnmarshaller", datetime.time, ("hour", "minute", "second", "microsecond", "tzinfo", "fold"))):
        I = temporal_interp()
        func = f"{UN}.{clsname}.__call__"

        def mk(I, path, base=base, clsname=clsname):
            for k in (int, float, str, datetime.date, datetime.datetime, datetime.time, datetime.timedelta):
                cls_const(k)
            T = path.fresh("T", Cls)
            path.assume(sub(T, cls_const(base)))
            val = path.fresh("val")
            _decode_contract(path, val)
            return [_self(I, path, clsname, T), SV(val)], {}, {"T": T, "val": val}
        results = I.run_function(func, mk, max_paths=3000)
        for pi, (path, out, obls, writes, cur) in enumerate(results):
            _dt_one(chk, func, clsname, fields, pi, path, out, cur)
        chk.trusted.update(I.assumed_used)


def _dt_one(chk, func, clsname, fields, pi, path, out, cur):
    pid, hy = f"p{pi}", path.hyps + class_axioms()
    T, val = cur["T"], cur["val"]
    nm = "a-rebuilt-value-copies-every-field-of-the-parsed-value"
    nm2 = "numbers-are-read-as-epoch-seconds-at-UTC"
    nm3 = "the-result-is-the-parsed-value-or-a-field-wise-rebuild-of-it"
    if out.kind == "unsupported":
        for n_ in (nm, nm2, nm3):
            chk.add(Ob(func, n_, pid, hy, z3.BoolVal(False), {"engine": out.value}))
        return
    if out.kind != "ret":
        for n_ in (nm, nm2, nm3):
            chk.add(Ob(func, n_, pid, hy, z3.BoolVal(True), {"trivial": True}))
        return
    r = to_val(out.value)
    # if the result is a `construct[<all fields>](T, ...)` application, its arguments must be the source's own fields
    d = r.decl().name() if z3.is_app(r) else ""
    if d.startswith("construct[") and ("hour" in d or "fold" in d or "microsecond" in d):
        want = "construct[" + ",".join(sorted(fields)) + "]"
        ok_shape = d.split("/")[0] == want
        src = None
        args = r.children()[1:]
        goal = z3.BoolVal(ok_shape)
        if ok_shape:
            # every argument is attr_<field>(src) for one and the same src
            srcs = set()
            conj = []
            for f_, a in zip(sorted(fields), args):
                if z3.is_app(a) and a.decl().name() == f"attr_{f_}/1":
                    srcs.add(a.children()[0].get_id())
                else:
                    conj.append(z3.BoolVal(False))
            goal = z3.And(z3.BoolVal(len(srcs) == 1), *conj) if conj or len(srcs) != 1 else z3.BoolVal(True)
        chk.add(Ob(func, nm, pid, hy, goal, {"constructor": d}))
    else:
        chk.add(Ob(func, nm, pid, hy, z3.BoolVal(True), {"trivial": True, "constructor": d}))
    # whitelist of result shapes: the input / parsed value itself, a tz normalisation of it (.replace), or one of the field-wise
    # rebuilds above; any other way of producing the result (e.g. via a float epoch timestamp of the parsed value) is not exact
    allowed = (r.num_args() == 0 or d.startswith(("serdes.dateparse", "decode", "method.replace[", "datetime.fromtimestamp", "load"))
               or d.split("/")[0] in ("construct[" + ",".join(sorted(fields)) + "]", "construct[day,month,tzinfo,year]", "construct[tzinfo]"))
    chk.add(Ob(func, "the-result-is-the-parsed-value-or-a-field-wise-rebuild-of-it", pid, hy, z3.BoolVal(bool(allowed)), {"result": d}))
    # numeric input: the instant comes from fromtimestamp(val, tz=utc)
    is_num = z3.Or(sub(cls_of(val), cls_const(int)), sub(cls_of(val), cls_const(float)))
    fts = exp_call("datetime.fromtimestamp", [SV(val)], {"tz": UTC})
    mentions = fts.get_id() in {t.get_id() for t in _subterms(r)}
    chk.add(Ob(func, nm2, pid, hy + [is_num, z3.Not(sub(cls_of(val), T))], z3.BoolVal(bool(mentions)), {"result": str(r)[:160]}))


def _subterms(t):
    seen, stack = {}, [t]
    while stack:
        x = stack.pop()
        if x.get_id() in seen:
            continue
        seen[x.get_id()] = x
        stack.extend(x.children())
    return seen.values()


def normalize_number(chk):
    I = temporal_interp()
    func = f"{SER}._normalize_number"

    def mk(I, path):
        for k in (datetime.date, datetime.datetime, datetime.time, datetime.timedelta):
            cls_const(k)
        T = path.fresh("T", Cls)
        num = path.fresh("numval")
        return [], {"numval": SV(num), "td": SCls(T)}, {"T": T, "num": num}
    for pi, (path, out, obls, writes, cur) in enumerate(I.run_function(func, mk)):
        pid, hy = f"p{pi}", path.hyps + class_axioms()
        T, num = cur["T"], cur["num"]
        nm1, nm2 = "duration-targets-read-the-number-as-seconds", "instant-targets-read-the-number-as-epoch-seconds-at-UTC"
        if out.kind != "ret":
            ok = out.kind == "raise"
            chk.add(Ob(func, nm1, pid, hy, z3.BoolVal(ok), {"outcome": out.kind}))
            chk.add(Ob(func, nm2, pid, hy, z3.BoolVal(ok), {"outcome": out.kind}))
            continue
        r = to_val(out.value)
        is_td = sub(T, cls_const(datetime.timedelta))
        chk.add(Ob(func, nm1, pid, hy + [is_td], r == exp_call("datetime.timedelta", [], {"seconds": SV(num)})))
        fts = exp_call("datetime.fromtimestamp", [SV(num)], {"tz": UTC})
        mentions = fts.get_id() in {t.get_id() for t in _subterms(r)}
        chk.add(Ob(func, nm2, pid, hy + [z3.Not(is_td)], z3.BoolVal(bool(mentions)), {"result": str(r)[:160]}))


def text_of_temporals(chk):
    """String/Bytes unmarshallers turn a temporal input into its ISO text; Number unmarshallers into its unix time."""
    import numbers
    for clsname, base, via in (("StringUnmarshaller", str, "serdes.isoformat"), ("BytesUnmarshaller", bytes, "serdes.isoformat"),
                               ("NumberUnmarshaller", numbers.Number, "serdes.unixtime")):
        I = temporal_interp()
        func = f"{UN}.{clsname}.__call__"

        def mk(I, path, base=base, clsname=clsname):
            for k in (str, bytes, datetime.date, datetime.time, datetime.timedelta):
                cls_const(k)
            T = path.fresh("T", Cls)
            path.assume(sub(T, cls_const(base)))
            val = path.fresh("val")
            path.assume(z3.Or(*[sub(cls_of(val), cls_const(k)) for k in (datetime.date, datetime.time, datetime.timedelta)]))
            # a temporal value is neither bytes-like nor an instance of the text / number target
            path.assume(rw.decode_f(val) == val)
            path.assume(z3.Not(sub(cls_of(val), T)))
            return [_self(I, path, clsname, T), SV(val)], {}, {"T": T, "val": val}
        for pi, (path, out, obls, writes, cur) in enumerate(I.run_function(func, mk)):
            pid, hy = f"p{pi}", path.hyps + class_axioms()
            nm = f"a-temporal-input-goes-through-{via}"
            if out.kind != "ret":
                chk.add(Ob(func, nm, pid, hy, z3.BoolVal(out.kind == "raise"), {"outcome": out.kind}))
                continue
            r = to_val(out.value)
            conv = exp_call(via, [SV(cur["val"])])
            mentions = conv.get_id() in {t.get_id() for t in _subterms(r)}
            chk.add(Ob(func, nm, pid, hy, z3.BoolVal(bool(mentions)), {"result": str(r)[:160]}))


def unixtime(chk):
    I = temporal_interp()
    func = f"{SER}.unixtime"

    def mk(I, path):
        for k in (datetime.date, datetime.datetime, datetime.time, datetime.timedelta):
            cls_const(k)
        dt = path.fresh("dt")
        return [SV(dt)], {}, {"dt": dt}
    for pi, (path, out, obls, writes, cur) in enumerate(I.run_function(func, mk)):
        pid, hy = f"p{pi}", path.hyps + class_axioms()
        dt = cur["dt"]
        is_td = sub(cls_of(dt), cls_const(datetime.timedelta))
        is_dtm = sub(cls_of(dt), cls_const(datetime.datetime))
        is_date = z3.And(sub(cls_of(dt), cls_const(datetime.date)), z3.Not(is_dtm))
        names = ["timedelta-is-its-total-seconds", "datetime-is-its-own-timestamp", "date-is-midnight-UTC"]
        if out.kind != "ret":
            for nm in names:
                chk.add(Ob(func, nm, pid, hy, z3.BoolVal(out.kind == "raise"), {"outcome": out.kind}))
            continue
        r = to_val(out.value)
        chk.add(Ob(func, names[0], pid, hy + [is_td], r == exp_call("method.total_seconds", [SV(dt)])))
        chk.add(Ob(func, names[1], pid, hy + [is_dtm, z3.Not(is_td), z3.Not(sub(cls_of(dt), cls_const(datetime.time)))],
                   r == exp_call("method.timestamp", [SV(dt)])))
        midnight = exp_call("datetime.datetime", [], {"year": SV(attr("year", dt)), "month": SV(attr("month", dt)),
                                                      "day": SV(attr("day", dt)), "tzinfo": UTC})
        chk.add(Ob(func, names[2], pid, hy + [is_date, z3.Not(is_td), z3.Not(sub(cls_of(dt), cls_const(datetime.time)))],
                   r == exp_call("method.timestamp", [SV(midnight)])))


def obligations(chk):
    writer_obligations(chk)
    timedelta_unmarshaller(chk)
    datetime_unmarshaller(chk)
    normalize_number(chk)
    text_of_temporals(chk)
    unixtime(chk)
