"""C16 check driver."""
from pyvc.driver import Check
from props import c16, c16_concrete

ASSUMPTIONS = [
    "dict protocol (builtin): d[k] returns the stored value else calls __missing__; `in`, item assignment are dict's own.",
    "Callee contracts assumed (obligations of C11, conformance-checked on the closed key family each run): "
    "inspection.unwrap idempotent; refs.forwardref returns a typing.ForwardRef.",
    "isinstance(k, ForwardRef) is issubclass(type(k), ForwardRef) (no __instancecheck__ overrides).",
    "The history form (any sequence of fresh-key insertions and lookups agrees with the reference model) follows "
    "from the per-operation clauses + STABLE by induction on the sequence (paper argument).",
]


def searcher(ob):
    fails, n, d = c16_concrete.search(exhaustive_len=2, random_n=3000, stop_at=1)
    if fails:
        return {"found": True, "kind": "c16-sequence", "case": fails[0], "searched": n}
    return {"found": False, "searched": n, "engine": ob.meta.get("engine"),
            "note": "no disagreement with the reference model over the closed key family (bounded search)"}


def replay(data):
    case = data.get("case")
    if not case:
        print("replay: no concrete sequence recorded for", data.get("obligation"))
        print(data.get("solver"), data.get("engine"))
        return 1
    r = c16_concrete.run_sequence([tuple(o) for o in case["ops"]])
    print("replay", case["ops"], "->", r)
    return 1 if r else 0


def main(tier, seed):
    chk = Check("C16", tier, seed)
    chk.assumptions = list(ASSUMPTIONS)
    c16.obligations(chk)
    bad, n = c16_concrete.callee_conformance()
    chk.bounded.append({"name": "callee-contract conformance (unwrap idempotent / = spec unwrap; forwardref -> ForwardRef) "
                                "on the closed key family", "evaluations": n, "distinct_nontrivial": n, "failures": len(bad),
                        "rule": "3 base types x {itself, NewType, TypeAliasType, string alias, Final, ForwardRef}"})
    if bad:
        # a callee (inspection.unwrap / refs.forwardref) no longer satisfies the contract the proof uses: the proof is void for the
        # current tree. If the reference-model search shows a lookup sequence that now goes wrong it is a violation of C16 with a
        # replayable input; otherwise it stays undecided (checker error), never a silent pass.
        fails, n2, _d = c16_concrete.search(seed=seed, exhaustive_len=2, random_n=2000, stop_at=1)
        if fails:
            chk.violation("callee-contract-broken :: lookups-disagree-with-the-reference-model", {"found": True, "kind": "c16-sequence", "case": fails[0], "callee": bad[:2]}, True)
        else:
            for b in bad:
                chk.errors.append("assumed callee contract does not hold on the real dependency: " + b)
    if tier == "thorough":
        fails, n, d = c16_concrete.search(seed=seed, exhaustive_len=3, random_n=20000, stop_at=3)
        chk.bounded.append({"name": "bounded cross-check: operation sequences vs reference model on the real TypeContext",
                            "evaluations": n, "distinct_nontrivial": d, "failures": len(fails),
                            "rule": "exhaustive sequences to length 3 over 72 operations + 20000 random sequences to length 40"})
        for f in fails:
            chk.violation("bounded-cross-check", {"found": True, "kind": "c16-sequence", "case": f}, True)
    chk.resolve_failures(searcher)
    return chk.finish()
