"""C10 — bound callables get every argument converted per its own parameter.

Functions under contract (real ASTs, /repo/src/typelib/binding.py): the 17 binder ``__call__``
bodies, each for every row of ``_BINDING_CLS_MATRIX`` mapped to it; ``_get_binding`` (loop
invariant); ``BoundRoutine.__call__``; ``wrap``'s inner ``binding_wrapper``.

Spec (written from the Python language reference, independent of the code): a signature is
PO* PK* VP? KO* VK? with distinct names; a positional argument i binds to parameter i when
i < #PO+#PK, else to *args; a keyword k binds to the PK/KO parameter named k (PK only when
not already filled positionally), else to **kwargs.
"""
from __future__ import annotations

import ast
import itertools

import z3

from pyvc.core import (SV, SInt, SBool, SSeq, SDict, Obj, Val, VInt, VStr, VNone, is_VInt, is_VStr, IntS,
                       BoolS, run, run_raises, to_val, to_int, PyRaise, Unsupported, Stub)
from pyvc.driver import Ob, cover_hyps
from pyvc.ground import Q
from pyvc.stmt import LoopSpec
from pyvc.interp import Interp
from pyvc.builtins_model import install

MOD = "typelib.binding"
PO, PK, VP, KO, VK = 0, 1, 2, 3, 4
FLAGS = ("has_pos_only", "has_kwd_only", "has_args", "has_kwargs", "has_pos_or_kwd")


# ----------------------------------------------------------------------------- table from the AST
def read_matrix(I: Interp):
    """Read _BINDING_CLS_MATRIX as an ordered literal display from the current source."""
    for s in I.src.toplevel(MOD):
        tgt = None
        if isinstance(s, ast.AnnAssign) and isinstance(s.target, ast.Name):
            tgt, val = s.target.id, s.value
        elif isinstance(s, ast.Assign) and isinstance(s.targets[0], ast.Name):
            tgt, val = s.targets[0].id, s.value
        if tgt == "_BINDING_CLS_MATRIX" and isinstance(val, ast.Dict):
            rows = {}
            for k, v in zip(val.keys, val.values):
                if not (isinstance(k, ast.Call) and isinstance(v, ast.Name)):
                    return None
                flags = {f: False for f in FLAGS}
                for i, a in enumerate(k.args):
                    flags[FLAGS[i]] = bool(ast.literal_eval(a))
                for kw in k.keywords:
                    flags[kw.arg] = bool(ast.literal_eval(kw.value))
                rows[tuple(flags[f] for f in FLAGS)] = v.id
            return rows, "ast-literal"
    return None


def read_matrix_runtime():
    import typelib.binding as b
    return {tuple(k): v.__name__ for k, v in b._BINDING_CLS_MATRIX.items()}, "imported-module-object"


# ----------------------------------------------------------------------------- the signature model
class Sig:
    """Symbolic signature + the ghost functions of the contract."""

    def __init__(self, path, flags=None):
        f = path.fresh
        self.nPO, self.nPK, self.nKO = f("nPO", IntS), f("nPK", IntS), f("nKO", IntS)
        self.vp, self.vk = f("hasVP", BoolS), f("hasVK", BoolS)
        self.pname = z3.Function("pname", IntS, Val)
        self.unm = z3.Function("unm", IntS, Val)          # unmarshaller(annotation of parameter j)
        self.idx = z3.Function("idx", Val, IntS)          # ghost: index of the parameter named k
        self.unann = z3.Function("unannotated", IntS, BoolS)   # parameter j has no annotation
        vpi = z3.If(self.vp, 1, 0)
        vki = z3.If(self.vk, 1, 0)
        self.P = self.nPO + self.nPK
        self.iVP = self.P
        self.iVK = self.P + vpi + self.nKO
        self.n = self.P + vpi + self.nKO + vki
        self.axioms = [
            self.nPO >= 0, self.nPK >= 0, self.nKO >= 0,
            # distinct names (enforced by Python at def time), all str
            Q([IntS], lambda j: z3.Implies(z3.And(j >= 0, j < self.n),
                                           z3.And(is_VStr(self.pname(j)), self.idx(self.pname(j)) == j)),
              trigger=self.pname, name="names-distinct"),
            # precondition of the property: every conversion succeeds (an unmarshaller call returns);
            # calling None raises TypeError
            Q([Val, Val], lambda r, v: run_raises(r, v) == (r == VNone), trigger=run_raises, name="routines-return"),
            Q([IntS], lambda j: Val.is_VObj(self.unm(j)), trigger=self.unm, name="unmarshallers-are-objects"),
        ]
        if flags is not None:
            hpo, hko, ha, hkw, hpk = flags
            self.axioms += [
                (self.nPO > 0) == hpo, (self.nKO > 0) == hko, self.vp == ha, self.vk == hkw,
                (self.nPK > 0) == hpk,
            ]

    def kind(self, j):
        return z3.If(j < self.nPO, PO,
                     z3.If(j < self.P, PK,
                           z3.If(z3.And(self.vp, j == self.iVP), VP,
                                 z3.If(z3.And(self.vk, j == self.iVK), VK, KO))))

    def named(self, k):
        j = self.idx(k)
        return z3.And(is_VStr(k), j >= 0, j < self.n, self.pname(j) == k)

    # --- the class invariant established by _get_binding (proved in `get_binding_obligations`)
    def binding_has(self, key, upto=None):
        n = self.n if upto is None else upto
        kd = self.kind(self.idx(key))
        return z3.Or(z3.And(is_VInt(key), Val.i(key) >= 0, Val.i(key) < n),
                     z3.And(is_VStr(key), self.idx(key) >= 0, self.idx(key) < n,
                            self.pname(self.idx(key)) == key, z3.Or(kd == PK, kd == KO)))

    def binding_get(self, key):
        return z3.If(is_VInt(key), self.unm(Val.i(key)), self.unm(self.idx(key)))

    def binding_dict(self):
        return SDict(lambda k: self.binding_has(k), lambda k: SV(self.binding_get(k)))

    def startpos(self):
        """startpos as computed by _get_binding: index of *args, else #PO if any, else None."""
        return self.vp, self.iVP, self.nPO

    # --- Python's call-binding rules (the spec)
    def tgt_pos(self, i):
        return z3.If(i < self.P, i, self.iVP)

    def bindable(self, k, A):
        j = self.idx(k)
        kd = self.kind(j)
        return z3.And(self.named(k), z3.Or(z3.And(kd == PK, j >= A), kd == KO))

    def kw_accept(self, k, A):
        j = self.idx(k)
        dup = z3.And(self.named(k), self.kind(j) == PK, j < A)
        return z3.Or(self.bindable(k, A), z3.And(self.vk, z3.Not(dup)))

    def tgt_kw(self, k, A):
        return z3.If(self.bindable(k, A), self.idx(k), self.iVK)


class Call:
    def __init__(self, path):
        self.A = path.fresh("A", IntS)
        self.K = path.fresh("K", IntS)
        self.arg = z3.Function("arg", IntS, Val)
        self.kwkey = z3.Function("kwkey", IntS, Val)
        self.kidx = z3.Function("kidx", Val, IntS)
        self.kwval = z3.Function("kwval", Val, Val)
        self.axioms = [self.A >= 0, self.K >= 0,
                       Q([IntS], lambda i: z3.Implies(z3.And(i >= 0, i < self.K),
                                                      z3.And(is_VStr(self.kwkey(i)), self.kidx(self.kwkey(i)) == i)),
                         trigger=self.kwkey, name="kwargs-keys-distinct")]

    def has(self, k):
        return z3.And(self.kidx(k) >= 0, self.kidx(k) < self.K, self.kwkey(self.kidx(k)) == k)

    def args_seq(self):
        return SSeq(self.A, lambda i: SV(self.arg(to_int(i))), "tuple")

    def kwargs_dict(self):
        keyseq = SSeq(self.K, lambda i: SV(self.kwkey(to_int(i))), "list")
        return SDict(lambda k: self.has(k), lambda k: SV(self.kwval(k)), keyseq=keyseq)


def accepts(sig: Sig, call: Call):
    return [z3.Or(sig.vp, call.A <= sig.P),
            Q([Val], lambda k: z3.Implies(call.has(k), sig.kw_accept(k, call.A)), trigger=call.kidx, name="accepts")]


# ----------------------------------------------------------------------------- interpreter set-up
def make_interp():
    I = install(Interp())
    I.recorded = []

    def prove_elem(s, path, I=I):
        j = path.fresh("j", IntS)
        n = s.length if not isinstance(s.length, int) else z3.IntVal(s.length)
        I.obligations.append(("no-raise", path.hyps + [j >= 0, j < n], z3.Not(s.elem_raises(SInt(j)))))

    def prove_dict(d, raises_at, path, I=I):
        k = path.fresh("k", Val)
        I.obligations.append(("no-raise", path.hyps, z3.Not(raises_at(k))))
    I.on_elem_raises = prove_elem
    I.on_dict_raises = prove_dict
    return I


def binder_self(I, path, clsname, sig: Sig):
    cv = I.mods.resolve(MOD, clsname)
    hasvp, ivp, npo = sig.startpos()
    # startpos / varpos / varkwd are concrete None exactly when _get_binding leaves them None
    vp_true = path.branch(hasvp)
    if vp_true:
        startpos = SInt(ivp)
        varpos = SV(sig.unm(ivp))
    else:
        varpos = None
        startpos = SInt(npo) if path.branch(npo > 0) else None
    varkwd = SV(sig.unm(sig.iVK)) if path.branch(sig.vk) else None
    slf = Obj(cv, {"binding": sig.binding_dict(), "varpos": varpos, "varkwd": varkwd,
                   "startpos": startpos, "signature": SV(path.fresh("signature"))})
    slf.sym_fields = None
    return slf


def view_result(res):
    """result[0] as SSeq, result[1] as SDict."""
    from pyvc.expr import seq_of
    um, uk = res
    um = seq_of(um)
    return um, uk


def binder_obligations(chk, I, flags, clsname, restrict_accept=True, tag=""):
    """All clauses for one (matrix row, binder class) pair."""
    real_func = f"{MOD}.{clsname}.__call__"
    rowname = "".join("T" if f else "F" for f in flags)
    # the contract unit is "the binder selected for this matrix row" (stable under re-pointing a row)
    func = f"{MOD}._BINDING_CLS_MATRIX[{rowname}].__call__"
    chk.functions.add(real_func)
    state = {}

    def mk(I, path):
        sig = Sig(path, flags)
        call = Call(path)
        for a in sig.axioms + call.axioms:
            path.assume(a)
        if restrict_accept:
            path.assume(accepts(sig, call))
        slf = binder_self(I, path, clsname, sig)
        state[id(path)] = (sig, call)
        return [slf, call.args_seq(), call.kwargs_dict()], {}, (sig, call)

    results = I.run_function(real_func, mk)
    n = 0
    for pi, (path, out, obls, writes, extra) in enumerate(results):
        sig, call = extra
        pid = f"row={rowname}/p{pi}"
        hy = path.hyps
        meta = {"row": rowname, "cls": clsname}
        if restrict_accept:
            for (nm, pc, goal) in obls:
                chk.add(Ob(func, f"no-internal-raise[{rowname}]", pid, pc, goal, meta))
            if not obls:   # keep the clause set independent of the body's shape
                chk.add(Ob(func, f"no-internal-raise[{rowname}]", pid, hy, z3.BoolVal(True), dict(meta, trivial=True)))
        if out.kind == "unsupported":
            for cl in (("len", "pos", "keys", "kw") if restrict_accept else ("rejected-shape",)):
                chk.add(Ob(func, f"{cl}[{rowname}]", pid, hy, z3.BoolVal(False), dict(meta, engine=out.value)))
            continue
        if out.kind == "raise":
            # accepted call: the binder itself must not raise -> every routing clause fails on this path
            internal = isinstance(out.exc.exc_cls, type)
            if restrict_accept:
                for cl in ("len", "pos", "keys", "kw"):
                    chk.add(Ob(func, f"{cl}[{rowname}]", pid, hy, z3.BoolVal(False),
                               dict(meta, exc=str(out.exc.exc_cls), note="binder raised on an accepted call")))
            else:
                ok = (internal and issubclass(out.exc.exc_cls, TypeError))
                chk.add(Ob(func, f"rejected-shape[{rowname}]", pid, hy, z3.BoolVal(ok), meta))
            continue
        um, uk = view_result(out.value)
        umlen = um.length if not isinstance(um.length, int) else z3.IntVal(um.length)
        k = path.fresh("k", Val)
        if isinstance(uk, dict):
            raise Unsupported("concrete kwargs result")
        if not restrict_accept:
            chk.add(Ob(func, f"rejected-shape[{rowname}]", pid, hy,
                       z3.And(umlen == call.A, uk.has(k) == call.has(k)), meta))
            continue
        chk.add(Ob(func, f"len[{rowname}]", pid, hy, umlen == call.A, meta))
        i = path.fresh("i", IntS)
        chk.add(Ob(func, f"pos[{rowname}]", pid, hy + [i >= 0, i < call.A],
                   to_val(um.at(SInt(i))) == run(sig.unm(sig.tgt_pos(i)), call.arg(i)), meta))
        chk.add(Ob(func, f"keys[{rowname}]", pid, hy, uk.has(k) == call.has(k), meta))
        chk.add(Ob(func, f"kw[{rowname}]", pid, hy + [call.has(k)],
                   to_val(uk.get(k)) == run(sig.unm(sig.tgt_kw(k, call.A)), call.kwval(k)), meta))
        n += 1
    # vacuity: the precondition of this row is satisfiable and a canary clause must be refutable
    p0 = results[0][0] if results else None
    if p0 is not None:
        chk.add(Ob(func, f"cover[{rowname}]", "pre", cover_hyps(results), z3.BoolVal(True), expect="sat"))
    return n


# ----------------------------------------------------------------------------- _get_binding
def find_builder(I):
    """Qualified name of the function that builds a binding from a signature: the one that consults `_Truth(...)`."""
    import ast as _ast
    tree = I.src.module(MOD)
    for node in tree.body:
        if isinstance(node, _ast.FunctionDef) and any(
                isinstance(c, _ast.Call) and _ast.unparse(c.func).endswith("_Truth") for c in _ast.walk(node)):
            return f"{MOD}.{node.name}"
    return f"{MOD}._get_binding"


def get_binding_obligations(chk, I):
    """Loop invariant of the binding builder => the class invariant used above, and the class choice.
    The builder is located by role: the module-level function of typelib.binding that consults `_Truth(...)`
    (`_build_binding` since fix 7195009, `_get_binding` before)."""
    func = find_builder(I)
    KEY = f"{MOD}.<binding-builder>"        # ledger key by role: renaming the function is not a change of behaviour
    chk.functions.add(func)
    I2 = make_interp()
    sigbox = {}

    # the signature object: params.items() yields (name_j, param_j) in order; param.kind / annotation
    def mk(I2, path):
        sig = Sig(path)
        for a in sig.axioms:
            path.assume(a)
        sigbox["sig"] = sig
        if takes_signature:
            return [cached_signature(I2, path, [], {})], {}, sig
        obj = SV(path.fresh("obj"))
        return [obj], {}, sig

    import inspect as _inspect
    KINDS = {PO: _inspect.Parameter.POSITIONAL_ONLY, PK: _inspect.Parameter.POSITIONAL_OR_KEYWORD,
             VP: _inspect.Parameter.VAR_POSITIONAL, KO: _inspect.Parameter.KEYWORD_ONLY,
             VK: _inspect.Parameter.VAR_KEYWORD}

    class ParamVal:
        def __init__(self, j):
            self.j = j

    class KindVal:
        host_symbolic = True

        def __init__(self, t):
            self.t = t

    def cached_signature(I2, path, args, kwargs):
        sig = sigbox["sig"]
        params = SDict(lambda k: sig.named(k), lambda k: ParamVal(sig.idx(k)),
                       keyseq=SSeq(sig.n, lambda i: SV(sig.pname(to_int(i))), "list"))
        params.items_at = lambda i: (SV(sig.pname(to_int(i))), ParamVal(to_int(i)))
        o = Obj(None, {"parameters": params})
        o.sym_fields = None
        sigbox["sigobj"] = o
        return o

    # does the builder receive the signature object itself (its first parameter is read through `.parameters`)?
    import ast as _ast0
    _m0, _c0, _n0 = I2.src.find_def(func)
    _p0 = _n0.args.args[0].arg if _n0.args.args else None
    takes_signature = any(isinstance(x, _ast0.Attribute) and x.attr == "parameters" and isinstance(x.value, _ast0.Name)
                          and x.value.id == _p0 for x in _ast0.walk(_n0))
    I2.stubs["typelib.py.inspection.cached_signature"] = Stub(
        "inspection.cached_signature", cached_signature,
        "inspect.signature: parameters ordered PO* PK* VP? KO* VK?, names distinct")

    def unmarshaller(I2, path, args, kwargs):
        (ann,) = args
        return SV(sigbox["sig"].unm(ann.j))
    I2.stubs["typelib.unmarshals.unmarshaller"] = Stub(
        "unmarshals.unmarshaller", unmarshaller, None)

    # attribute access on ParamVal / kinds
    def getattr_hook_factory(name):
        def hook(I2, path, obj):
            from pyvc.env import _MISSING
            if isinstance(obj, ParamVal):
                sig = sigbox["sig"]
                if name == "kind":
                    return KindVal(sig.kind(obj.j))
                if name == "annotation":
                    return _Ann(obj.j)
                if name in ("POSITIONAL_ONLY", "VAR_KEYWORD", "VAR_POSITIONAL", "KEYWORD_ONLY",
                            "POSITIONAL_OR_KEYWORD", "empty"):
                    return getattr(_inspect.Parameter, name)
                if name == "name":
                    return SV(sig.pname(obj.j))
            return _MISSING
        return hook

    class _Ann:
        host_symbolic = True

        def __init__(self, j):
            self.j = j
    for nm in ("kind", "annotation", "POSITIONAL_ONLY", "VAR_KEYWORD", "VAR_POSITIONAL", "KEYWORD_ONLY",
               "POSITIONAL_OR_KEYWORD", "empty", "name"):
        I2.attr_hooks[nm] = getattr_hook_factory(nm)

    def equal_hook(I2, path, a, b, identity):
        from pyvc.env import _MISSING
        if isinstance(a, KindVal) or isinstance(b, KindVal):
            kv, other = (a, b) if isinstance(a, KindVal) else (b, a)
            for code, real in KINDS.items():
                if other is real:
                    return SBool(kv.t == code)
            raise Unsupported("kind compared with non-kind")
        if isinstance(a, _Ann) or isinstance(b, _Ann):
            an, other = (a, b) if isinstance(a, _Ann) else (b, a)
            if other is _inspect.Parameter.empty:
                return SBool(sigbox["sig"].unann(an.j))
            raise Unsupported("annotation compared with something other than Parameter.empty")
        return _MISSING
    I2.hooks["equal"] = equal_hook

    # iteration of params.items() under enumerate: symbolic length -> needs the loop spec
    def iter_hook(I2, path, v):
        from pyvc.env import _MISSING
        from pyvc.expr import ItemsView
        if isinstance(v, ItemsView) and hasattr(v.d, "items_at"):
            return SSeq(v.d.keyseq.length, v.d.items_at, "list")
        return _MISSING
    I2.hooks["iter"] = iter_hook

    # ---- roles of the locals of _get_binding, read off the *uses* the contract is about (not off their names):
    # the flags are what is passed to _Truth(has_...=<flag>), the others what is passed to the binder's constructor
    import ast as _ast
    _m, _c, _node = I2.src.find_def(func)
    NAME = {}
    for cnode in _ast.walk(_node):
        if isinstance(cnode, _ast.Call):
            fn = _ast.unparse(cnode.func)
            for kw_ in cnode.keywords:
                if kw_.arg is None:
                    continue
                if fn.endswith("_Truth") and isinstance(kw_.value, _ast.Name):
                    NAME[kw_.arg] = kw_.value.id
                elif kw_.arg in ("binding", "varkwd", "varpos") and isinstance(kw_.value, _ast.Name) and not fn.endswith("_Truth"):
                    NAME[kw_.arg] = kw_.value.id
                elif kw_.arg == "startpos":
                    ns = [n_.id for n_ in _ast.walk(kw_.value) if isinstance(n_, _ast.Name)]
                    if ns:
                        NAME["max_pos"] = ns[0]
    for need in FLAGS + ("binding", "varkwd", "varpos", "max_pos"):
        NAME.setdefault(need, need)

    # ---- the loop contract (keyed by function + loop ordinal 0)
    def havoc(I2, path, env, k):
        has_arr = path.fresh("b_has", z3.ArraySort(Val, BoolS))
        val_arr = path.fresh("b_val", z3.ArraySort(Val, Val))
        env.set(NAME["binding"], SDict.from_arrays(has_arr, val_arr))
        for nm in ("has_pos_only", "has_kwd_only", "has_args", "has_kwargs", "has_pos_or_kwd"):
            env.set(NAME[nm], SBool(path.fresh(nm, BoolS)))
        # max_pos / varpos / varkwd are Optional: model as (is_none flag, value)
        env.set(NAME["max_pos"], _Opt(path.fresh("mp_none", BoolS), SInt(path.fresh("mp", IntS))))
        env.set(NAME["varpos"], _Opt(path.fresh("vpos_none", BoolS), SV(path.fresh("vpos"))))
        env.set(NAME["varkwd"], _Opt(path.fresh("vkwd_none", BoolS), SV(path.fresh("vkwd"))))

    def inv(I2, path, env, k):
        sig = sigbox["sig"]
        b = env.lookup(NAME["binding"])
        key = z3.Const("key", Val)
        if isinstance(b, dict) and not b:
            has_k = lambda key: z3.BoolVal(False)
            get_k = lambda key: VNone
        else:
            has_k = b.has
            get_k = lambda key: to_val(b.get(key))
        conj = [Q([Val], lambda key: has_k(key) == sig.binding_has(key, upto=k), name="inv-domain"),
                Q([Val], lambda key: z3.Implies(sig.binding_has(key, upto=k), get_k(key) == sig.binding_get(key)),
                  name="inv-values")]

        def flag(nm, cnt_pred):
            v = env.lookup(NAME[nm])
            vt = v.t if isinstance(v, SBool) else z3.BoolVal(bool(v))
            conj.append(vt == cnt_pred)
        mn = lambda a, b_: z3.If(a <= b_, a, b_)
        flag("has_pos_only", mn(k, sig.nPO) > 0)
        flag("has_pos_or_kwd", z3.And(k > sig.nPO, sig.nPK > 0))
        flag("has_args", z3.And(sig.vp, k > sig.iVP))
        flag("has_kwd_only", z3.And(sig.nKO > 0, k > sig.P + z3.If(sig.vp, 1, 0)))
        flag("has_kwargs", z3.And(sig.vk, k > sig.iVK))
        mp, vpos, vkwd = env.lookup(NAME["max_pos"]), env.lookup(NAME["varpos"]), env.lookup(NAME["varkwd"])
        mp_none, mp_val = _opt_parts(mp, val=False)
        # max_pos: None until a PO or VP parameter was seen; last PO index, or iVP-1 once *args was seen
        seen_vp = z3.And(sig.vp, k > sig.iVP)
        seen_po = mn(k, sig.nPO) > 0
        conj.append(mp_none == z3.Not(z3.Or(seen_vp, seen_po)))
        conj.append(z3.Implies(seen_vp, mp_val == sig.iVP - 1))
        conj.append(z3.Implies(z3.And(seen_po, z3.Not(seen_vp)), mp_val == mn(k, sig.nPO) - 1))
        vn, vv = _opt_parts(vpos)
        conj.append(vn == z3.Not(seen_vp))
        conj.append(z3.Implies(seen_vp, vv == sig.unm(sig.iVP)))
        kn, kv = _opt_parts(vkwd)
        seen_vk = z3.And(sig.vk, k > sig.iVK)
        conj.append(kn == z3.Not(seen_vk))
        conj.append(z3.Implies(seen_vk, kv == sig.unm(sig.iVK)))
        return conj

    I2.loop_specs[(func, 0)] = LoopSpec("params", havoc, inv)

    # _Opt values: `x is not None`, `x + 1`, and passing on
    def equal_hook2(I2, path, a, b, identity, prev=equal_hook):
        from pyvc.env import _MISSING
        if isinstance(a, _Opt) and b is None:
            return SBool(a.none)
        if isinstance(b, _Opt) and a is None:
            return SBool(b.none)
        return prev(I2, path, a, b, identity)
    I2.hooks["equal"] = equal_hook2

    orig_binop = I2.binop

    def binop(op, a, b, path):
        if isinstance(a, _Opt):
            a = a.val
        if isinstance(b, _Opt):
            b = b.val
        return orig_binop(op, a, b, path)
    I2.binop = binop

    # _Truth(...) and the matrix lookup, and the final constructor call are observed, not executed
    final = {}

    def truth_stub(I2, path, args, kwargs):
        return ("truth", {k: v for k, v in kwargs.items()})

    I2.stubs[f"{MOD}._Truth"] = Stub("_Truth", truth_stub)

    class MatrixVal:
        pass

    I2.stubs[f"{MOD}._BINDING_CLS_MATRIX"] = MatrixVal()

    def obj_getitem(I2, path, obj, idx, merge):
        raise Unsupported("getitem")
    matrix, how = read_matrix(I2) or read_matrix_runtime()

    def sv_getitem(I2, path, obj, idx, merge=False):
        raise Unsupported("sv getitem")

    orig_subscript = I2.subscript

    def subscript(obj, idx, path, merge=False):
        if isinstance(obj, MatrixVal):
            _, fl = idx
            # split on the five flags: the chosen class is concrete per path
            vals = []
            for f in FLAGS:
                v = fl[f]
                vals.append(I2.truth(v, path))
            return ("binder-class", matrix[tuple(vals)], tuple(vals))
        return orig_subscript(obj, idx, path, merge)
    I2.subscript = subscript

    def call_hook(I2, path, f, args, kwargs):
        from pyvc.env import _MISSING
        return _MISSING

    orig_call_value = I2.call_value

    def call_value(f, args, kwargs, path, node=None, env=None):
        if isinstance(f, tuple) and f and f[0] == "binder-class":
            return ("binder", f[1], f[2], kwargs)
        return orig_call_value(f, args, kwargs, path, node=node, env=env)
    I2.call_value = call_value

    results = I2.run_function(func, mk, max_paths=600)
    n_exit = 0
    for pi, (path, out, obls, writes, sig) in enumerate(results):
        pid = f"p{pi}"
        for (nm, pc, goal) in obls:
            chk.add(Ob(KEY, nm, pid, pc, goal))
        if out.kind == "end":
            continue
        if out.kind in ("raise", "unsupported"):
            why = {"exc": str(out.exc.exc_cls)} if out.kind == "raise" else {"engine": out.value}
            for cl in ("loop-preserve:params", "exit::binding-domain", "exit::binding-values",
                       "exit::flags-select-row", "exit::class-is-matrix-row", "exit::startpos", "exit::varpos",
                       "exit::varkwd"):
                chk.add(Ob(KEY, cl, pid, path.hyps, z3.BoolVal(False), why))
            continue
        tag, clsname, flags, kw = out.value
        hy = path.hyps
        n_exit += 1
        # exit: constructor arguments are exactly the class invariant assumed by the binder proofs
        key = path.fresh("key", Val)
        b = kw["binding"]
        chk.add(Ob(KEY, "exit::binding-domain", pid, hy, b.has(key) == sig.binding_has(key)))
        chk.add(Ob(KEY, "exit::binding-values", pid, hy + [sig.binding_has(key)],
                   to_val(b.get(key)) == sig.binding_get(key)))
        flags_spec = (sig.nPO > 0, sig.nKO > 0, sig.vp, sig.vk, sig.nPK > 0)
        chk.add(Ob(KEY, "exit::flags-select-row", pid, hy,
                   z3.And(*[fs == z3.BoolVal(fv) for fs, fv in zip(flags_spec, flags)])))
        chk.add(Ob(KEY, "exit::class-is-matrix-row", pid, hy, z3.BoolVal(matrix[flags] == clsname)))
        sp = kw["startpos"]
        sp_none, sp_val = (z3.BoolVal(True), z3.IntVal(0)) if sp is None else (z3.BoolVal(False), to_int(sp))
        chk.add(Ob(KEY, "exit::startpos", pid, hy,
                   z3.And(sp_none == z3.Not(z3.Or(sig.vp, sig.nPO > 0)),
                          z3.Implies(sig.vp, sp_val == sig.iVP),
                          z3.Implies(z3.And(z3.Not(sig.vp), sig.nPO > 0), sp_val == sig.nPO))))
        vn, vv = _opt_parts(kw["varpos"])
        chk.add(Ob(KEY, "exit::varpos", pid, hy, z3.And(vn == z3.Not(sig.vp),
                                                          z3.Implies(sig.vp, vv == sig.unm(sig.iVP)))))
        kn, kv = _opt_parts(kw["varkwd"])
        chk.add(Ob(KEY, "exit::varkwd", pid, hy, z3.And(kn == z3.Not(sig.vk),
                                                          z3.Implies(sig.vk, kv == sig.unm(sig.iVK)))))
    chk.add(Ob(KEY, "some-path-reaches-the-exit", "any", [], z3.BoolVal(n_exit > 0), {"exit_paths": n_exit}))
    chk.notes.append(f"_BINDING_CLS_MATRIX read from: {how}")
    return matrix


class _Opt:
    """Optional value threaded through a loop: (is-None flag, value when not None)."""

    def __init__(self, none, val):
        self.none = none
        self.val = val


def _opt_parts(x, val=True):
    """(is-None flag, value term); val=True -> Val sort, else Int sort."""
    dflt = VNone if val else z3.IntVal(0)
    conv = to_val if val else to_int
    if x is None:
        return z3.BoolVal(True), dflt
    if isinstance(x, _Opt):
        return x.none, conv(x.val)
    return z3.BoolVal(False), conv(x)


# ----------------------------------------------------------------------------- glue: BoundRoutine / wrap
def glue_obligations(chk):
    """BoundRoutine.__call__ and wrap's binding_wrapper: f is invoked with exactly what the binder
    returned, and its result is returned; wrap applies functools.wraps(obj); for a class the class
    object itself is returned with __init__ replaced by wrap(__init__)."""
    from pyvc.interp import _StarArgs
    import functools
    import inspect as _inspect
    I = make_interp()
    st = {"cur": {}}      # per-path record (a fresh dict per explored path, returned as `extra`)

    class BinderStub:
        host_symbolic = True

    def mk_binder(path):
        b = BinderStub()
        b.out_args = SSeq(path.fresh("nb", IntS), lambda i: SV(z3.Function("barg", IntS, Val)(to_int(i))), "tuple")
        b.out_kwargs = SDict(lambda k: z3.Function("bkhas", Val, BoolS)(k),
                             lambda k: SV(z3.Function("bkget", Val, Val)(k)))
        return b

    orig_call_value = I.call_value

    def call_value(f, args, kwargs, path, node=None, env=None):
        if isinstance(f, BinderStub):
            a = list(args) + [kwargs[k] for k in ("args", "kwargs") if k in kwargs]
            st["cur"]["binder_in"] = a
            return (f.out_args, f.out_kwargs)
        return orig_call_value(f, args, kwargs, path, node=node, env=env)
    I.call_value = call_value

    def call_opaque(I, path, f, args, kwargs):
        st["cur"]["call"] = (f, args, kwargs)
        return SV(path.fresh("f_result"))
    I.hooks["call_opaque"] = call_opaque

    def sym_call(path):
        A = path.fresh("A", IntS)
        path.assume(A >= 0)
        args = SSeq(A, lambda i: SV(z3.Function("arg", IntS, Val)(to_int(i))), "tuple")
        kw = SDict(lambda k: z3.Function("khas", Val, BoolS)(k), lambda k: SV(z3.Function("kget", Val, Val)(k)))
        return args, kw

    def routed(cur, callee, binder, args, kw):
        ok_in = ("binder_in" in cur and len(cur["binder_in"]) == 2 and cur["binder_in"][0] is args
                 and cur["binder_in"][1] is kw)
        ok_call = False
        if "call" in cur and binder is not None:
            f, a, k = cur["call"]
            ok_call = (f is callee and len(a) == 1 and isinstance(a[0], _StarArgs) and a[0].seq is binder.out_args
                       and k.get("$starstar") is binder.out_kwargs and len(k) == 1)
        return bool(ok_in), bool(ok_call)

    # ---- BoundRoutine.__call__
    func = f"{MOD}.BoundRoutine.__call__"

    def mk(I, path):
        cur = st["cur"] = {}
        b = mk_binder(path)
        cv = I.mods.resolve(MOD, "BoundRoutine")
        callee = SV(path.fresh("callee"))
        slf = Obj(cv, {"call": callee, "binding": b})
        slf.sym_fields = None
        args, kw = sym_call(path)
        cur.update(b=b, callee=callee, args=args, kw=kw)
        return [slf, _StarArgs(args)], {"$starstar": kw}, cur

    for pi, (path, out, obls, writes, cur) in enumerate(I.run_function(func, mk)):
        ok_in, ok_call = routed(cur, cur["callee"], cur["b"], cur["args"], cur["kw"])
        why = {} if out.kind == "ret" else {"outcome": out.kind, "why": str(out.value if out.kind != "raise" else out.exc.note)[:200]}
        chk.add(Ob(func, "binder-receives-call-arguments", f"p{pi}", path.hyps, z3.BoolVal(ok_in), dict(why)))
        chk.add(Ob(func, "callee-receives-binder-output", f"p{pi}", path.hyps, z3.BoolVal(ok_call), dict(why)))
        ret_ok = out.kind == "ret" and isinstance(out.value, SV) and "f_result" in str(out.value.t)
        chk.add(Ob(func, "returns-callee-result", f"p{pi}", path.hyps, z3.BoolVal(bool(ret_ok))))

    # ---- wrap
    func = f"{MOD}.wrap"
    isclass = z3.Function("isclass", Val, BoolS)
    wrapped = z3.Function("wrapped", Val, Val)
    getinit = z3.Function("attr___init__", Val, Val)
    I.builtin_models[_inspect.isclass] = lambda I, path, args, kw: SBool(isclass(to_val(args[0])))

    def wraps_model(I, path, args, kw):
        target = args[0]

        def deco(I2, p2, a2, k2):
            a2[0].wraps_of = target
            return a2[0]
        return Stub("functools.wraps(obj)", deco,
                    "functools.wraps copies __module__, __name__, __qualname__, __doc__, __dict__, sets __wrapped__")
    I.builtin_models[functools.wraps] = wraps_model

    def gb(I, path, a, k):
        st["cur"]["binder"] = mk_binder(path)
        return st["cur"]["binder"]
    I.stubs[f"{MOD}._get_binding"] = Stub("_get_binding", gb)
    I.stubs[f"{MOD}.wrap"] = Stub("wrap (recursive call: own contract)", lambda I, path, a, k: SV(wrapped(to_val(a[0]))))
    I.sv_attr["__init__"] = lambda I, path, obj: SV(getinit(obj.t))
    I.hooks["setattr"] = lambda I, path, obj, attr, v: st["cur"].setdefault("sets", []).append((obj, attr, v))

    def mkw(I, path):
        cur = st["cur"] = {}
        o = SV(path.fresh("obj"))
        cur["obj"] = o
        return [o], {}, cur

    def then(I, path, w, made):
        """For a function the returned wrapper is run, on the same path, on an arbitrary call (any number of positional
        arguments, any keyword mapping - which may carry any name)."""
        cur = made[2]
        cur["wrap_result"] = w
        cur["sets_at_return"] = list(cur.get("sets", []))
        if isinstance(w, SV):
            return w
        cur["binder_of_wrap"] = cur.get("binder")
        cur["args"], cur["kw"] = sym_call(path)
        cur.pop("binder_in", None)
        cur.pop("call", None)
        cur["wrapper_called"] = True
        cur["wrapper_result"] = I.call_value(w, [_StarArgs(cur["args"])], {"$starstar": cur["kw"]}, path)
        return w

    fn = func + ".<locals>.binding_wrapper"
    wnames = ("binder-receives-call-arguments", "callee-receives-binder-output", "returns-callee-result")
    for pi, (path, out, obls, writes, cur) in enumerate(I.run_function(func, mkw, then=then)):
        o = cur["obj"]
        sets = cur.get("sets_at_return", cur.get("sets", []))
        w = cur.get("wrap_result")
        if w is None:
            chk.add(Ob(func, "returns", f"p{pi}", path.hyps, z3.BoolVal(False), {"outcome": out.kind, "why": str(out.value)[:200]}))
            continue
        if isinstance(w, SV):
            ok = (len(sets) == 1 and sets[0][0] is o and sets[0][1] == "__init__")
            chk.add(Ob(func, "class::returns-class-itself", f"p{pi}", path.hyps + [isclass(o.t)], w.t == o.t))
            goal = to_val(sets[0][2]) == wrapped(getinit(o.t)) if ok else z3.BoolVal(False)
            chk.add(Ob(func, "class::init-wrapped", f"p{pi}", path.hyps, goal))
            chk.add(Ob(func, "class::only-on-classes", f"p{pi}", path.hyps, isclass(o.t)))
            continue
        chk.add(Ob(func, "function::functools-wraps-of-obj", f"p{pi}", path.hyps,
                   z3.BoolVal(getattr(w, "wraps_of", None) is o)))
        chk.add(Ob(func, "function::not-for-classes", f"p{pi}", path.hyps, z3.Not(isclass(o.t))))
        chk.add(Ob(func, "function::no-attribute-writes", f"p{pi}", path.hyps, z3.BoolVal(not sets)))
        # the returned wrapper on an arbitrary call: every path of it (whatever names the keyword mapping carries)
        if out.kind != "ret":
            for nm in wnames:
                chk.add(Ob(fn, nm, f"p{pi}", path.hyps, z3.BoolVal(False), {"outcome": out.kind,
                                                                            "why": str(out.value if out.kind != "raise" else out.exc.note)[:200]}))
            continue
        ok_in, ok_call = routed(cur, o, cur.get("binder_of_wrap"), cur["args"], cur["kw"])
        res = cur.get("wrapper_result")
        chk.add(Ob(fn, wnames[0], f"p{pi}", path.hyps, z3.BoolVal(ok_in)))
        chk.add(Ob(fn, wnames[1], f"p{pi}", path.hyps, z3.BoolVal(ok_call)))
        chk.add(Ob(fn, wnames[2], f"p{pi}", path.hyps, z3.BoolVal(isinstance(res, SV) and "f_result" in str(res.t))))
    chk.trusted.update(I.assumed_used)


def binding_lookup_obligations(chk):
    """`_get_binding(obj)` (what bind / wrap call): whatever caching is in front of it, the binding returned is the one
    the builder makes from the signature of *that* callable.  inspection.signature: a callable that is neither a class
    nor a typing generic gets Python's own inspect.signature of itself; classes get the documented substitutes for
    TypedDicts and plain tuples only."""
    import inspect as _inspect
    from props import uf_world as uw
    from pyvc.core import BoolS as _B
    builder = find_builder(make_interp())
    I = uw.make_interp(raising=False)
    hashable = z3.Function("hashable", Val, _B)
    I.stubs[builder] = Stub("binding builder", lambda I, p, a, k: uw.call_uf(I, p, "build", a, k, may_raise=False),
                            "the binding builder's loop contract (proved above)")
    for nm in ("cached_signature", "signature"):
        I.stubs[f"typelib.py.inspection.{nm}"] = Stub(
            "inspection.signature", lambda I, p, a, k: uw.call_uf(I, p, "isig", a, k, may_raise=False),
            "inspection.cached_signature is inspection.signature memoised (C12); its contract is proved below")
    I.stubs["typelib.py.inspection.ishashable"] = Stub("inspection.ishashable", lambda I, p, a, k: SBool(hashable(to_val(a[0]))),
                                                       "ishashable(obj) <=> hash(obj) works (C17)")
    I.builtin_models[_inspect.signature] = lambda I, p, a, k: uw.call_uf(I, p, "pysig", a, k, may_raise=False)
    func = f"{MOD}._get_binding"

    def mk(I, path):
        obj = path.fresh("obj")
        # classes and typing generics are hashable, so an unhashable callable gets its plain signature (clause below)
        path.assume(z3.Implies(z3.Not(hashable(obj)), uw.uf("isig", 1)(obj) == uw.uf("pysig", 1)(obj)))
        return [SV(obj)], {}, {"obj": obj}
    for pi, (path, out, obls, writes, cur) in enumerate(I.run_function(func, mk)):
        goal = z3.BoolVal(False)
        if out.kind == "ret":
            goal = to_val(out.value) == uw.uf("build", 1)(uw.uf("isig", 1)(cur["obj"]))
        chk.add(Ob(func, "the-binding-is-built-from-the-signature-of-the-callable-itself", f"p{pi}", path.hyps, goal,
                   {"outcome": out.kind, "why": str(out.value)[:160] if out.kind != "ret" else ""}))
    chk.trusted.update(I.assumed_used)

    # ---- inspection.signature
    I = uw.make_interp(raising=False)
    func = "typelib.py.inspection.signature"
    preds = {n: z3.Function("P_" + n, Val, _B) for n in ("isclass", "isgeneric", "istypeddict", "istupletype", "isnamedtuple")}
    for n in ("isgeneric", "istypeddict", "istupletype", "isnamedtuple"):
        I.stubs[f"typelib.py.inspection.{n}"] = Stub(f"inspection.{n}", (lambda n: lambda I, p, a, k: SBool(preds[n](to_val(a[0]))))(n),
                                                     f"{n}(obj) (C17 contract)")
    I.builtin_models[_inspect.isclass] = lambda I, p, a, k: SBool(preds["isclass"](to_val(a[0])))
    I.builtin_models[_inspect.signature] = lambda I, p, a, k: uw.call_uf(I, p, "pysig", a, k, may_raise=False)
    for n in ("typed_dict_signature", "tuple_signature"):
        I.stubs[f"typelib.py.inspection.{n}"] = Stub(f"inspection.{n}", (lambda n: lambda I, p, a, k: uw.call_uf(I, p, n, a, k, may_raise=False))(n),
                                                     f"{n}: the documented substitute signature (C17 ground tables)")

    def mk2(I, path):
        obj = path.fresh("obj")
        return [SV(obj)], {}, {"obj": obj}
    names = ("a-callable-that-is-not-a-class-or-generic-gets-inspect.signature-of-itself",
             "only-TypedDicts-and-plain-tuples-get-a-substitute-signature")
    for pi, (path, out, obls, writes, cur) in enumerate(I.run_function(func, mk2)):
        o = cur["obj"]
        if out.kind != "ret":
            for nm in names:
                chk.add(Ob(func, nm, f"p{pi}", path.hyps, z3.BoolVal(False), {"outcome": out.kind, "why": str(out.value)[:160]}))
            continue
        r = to_val(out.value)
        typeish = z3.Or(preds["isclass"](o), preds["isgeneric"](o))
        td = z3.And(typeish, preds["istypeddict"](o))
        tup = z3.And(typeish, z3.Not(preds["istypeddict"](o)), preds["istupletype"](o), z3.Not(preds["isnamedtuple"](o)))
        chk.add(Ob(func, names[0], f"p{pi}", path.hyps + [z3.Not(typeish)], r == uw.uf("pysig", 1)(o)))
        chk.add(Ob(func, names[1], f"p{pi}", path.hyps + [typeish],
                   z3.And(z3.Implies(td, r == uw.uf("typed_dict_signature", 1)(o)), z3.Implies(tup, r == uw.uf("tuple_signature", 1)(o)),
                          z3.Implies(z3.Not(z3.Or(td, tup)), r == uw.uf("pysig", 1)(o)))))
    chk.trusted.update(I.assumed_used)
    # cached_signature is the memoised `signature` (module-level binding, structural)
    import ast as _ast
    tree = make_interp().src.module("typelib.py.inspection")
    ok = any(isinstance(n, _ast.Assign) and len(n.targets) == 1 and isinstance(n.targets[0], _ast.Name)
             and n.targets[0].id == "cached_signature" and isinstance(n.value, _ast.Call) and len(n.value.args) == 1
             and _ast.unparse(n.value.func) in ("compat.cache", "functools.cache", "functools.lru_cache(maxsize=None)")
             and _ast.unparse(n.value.args[0]) == "signature" for n in tree.body)
    chk.add(Ob("typelib.py.inspection.cached_signature", "is-the-memoised-signature-function", "structural", [], z3.BoolVal(ok)))


def binding_init_obligations(chk):
    """AbstractBinding.__init__ stores each of its arguments under the like-named attribute, unchanged: this is what turns the
    builder's exit clauses (statements about the constructor *arguments*) into the class invariant the binder proofs assume
    (statements about the *attributes*)."""
    I = make_interp()
    func = f"{MOD}.AbstractBinding.__init__"
    names = ("signature", "binding", "varkwd", "varpos", "startpos")

    def mk(I, path):
        cv = I.mods.resolve(MOD, "AbstractBinding")
        slf = Obj(cv, {})
        slf.sym_fields = None
        vals = {n: SV(path.fresh(n)) for n in names}
        return [slf], dict(vals), {"self": slf, "vals": vals}
    for pi, (path, out, obls, writes, cur) in enumerate(I.run_function(func, mk)):
        f = cur["self"].fields
        ok = out.kind in ("ret", "end") and set(f) == set(names) and all(f[n] is cur["vals"][n] for n in names)
        chk.add(Ob(func, "stores-each-argument-under-the-like-named-attribute-unchanged", f"p{pi}", path.hyps, z3.BoolVal(bool(ok)),
                   {"attributes": sorted(f)}))


def bind_obligations(chk):
    """bind(obj) == BoundRoutine(call=obj, binding=_get_binding(obj))."""
    from pyvc.env import _MISSING
    I = make_interp()
    func = f"{MOD}.bind"
    st = {"cur": {}}
    I.stubs[f"{MOD}._get_binding"] = Stub("_get_binding", lambda I, path, a, k: ("binder-of", a[0]))

    def inst(I, path, cv, args, kwargs):
        if cv.name == "BoundRoutine":
            st["cur"]["kw"] = kwargs
            st["cur"]["args"] = args
            return ("bound-routine", kwargs)
        return _MISSING
    I.hooks["instantiate"] = inst

    def mk(I, path):
        cur = st["cur"] = {}
        cur["obj"] = SV(path.fresh("obj"))
        return [cur["obj"]], {}, cur
    for pi, (path, out, obls, writes, cur) in enumerate(I.run_function(func, mk)):
        ok = (out.kind == "ret" and isinstance(out.value, tuple) and out.value[0] == "bound-routine"
              and cur.get("kw", {}).get("call") is cur["obj"]
              and cur.get("kw", {}).get("binding") == ("binder-of", cur["obj"]) and not cur.get("args"))
        chk.add(Ob(func, "constructs-bound-routine-of-obj-and-its-binding", f"p{pi}", path.hyps, z3.BoolVal(bool(ok))))


def noop_lemma(chk):
    """Unannotated parameters are untouched: the dispatch table sends `inspect.Parameter.empty`
    to NoOpUnmarshaller, whose __call__ returns its argument (both from the current source)."""
    import inspect as _inspect
    I = make_interp()
    from props.c11 import find_dispatcher
    func = find_dispatcher(make_interp().src, "typelib.unmarshals.api")
    st = {"cur": {}}

    def inst(I, path, cv, args, kwargs):
        st["cur"]["cls"] = cv
        o = Obj(cv, {})
        o.sym_fields = None
        return o
    I.hooks["instantiate"] = inst
    node = Obj(None, {"type": _inspect.Parameter.empty, "unwrapped": _inspect.Parameter.empty, "var": None})
    node.sym_fields = None

    def mk(I, path):
        cur = st["cur"] = {}
        return [node, {}], {}, cur
    for pi, (path, out, obls, writes, cur) in enumerate(I.run_function(func, mk)):
        ok = out.kind == "ret" and cur.get("cls") is not None and cur["cls"].name == "NoOpUnmarshaller"
        chk.add(Ob(func, "Parameter.empty-dispatches-to-NoOpUnmarshaller", f"p{pi}", path.hyps, z3.BoolVal(bool(ok))))
    func2 = "typelib.unmarshals.routines.NoOpUnmarshaller.__call__"

    def mk2(I, path):
        cv = I.mods.resolve("typelib.unmarshals.routines", "NoOpUnmarshaller")
        slf = Obj(cv, {})
        slf.sym_fields = None
        v = SV(path.fresh("val"))
        return [slf, v], {}, {"v": v}
    for pi, (path, out, obls, writes, cur) in enumerate(I.run_function(func2, mk2)):
        goal = to_val(out.value) == cur["v"].t if out.kind == "ret" else z3.BoolVal(False)
        chk.add(Ob(func2, "returns-its-argument", f"p{pi}", path.hyps, goal))
