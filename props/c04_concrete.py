"""C04 — executable twin: canonical text / numeric wire forms of scalars, on the real code (bounded)."""
from __future__ import annotations

import datetime
import decimal
import enum
import fractions
import pathlib
import re
import uuid
import warnings

from props.concrete_util import clear_typelib_caches

TD = datetime.timedelta
UTC = datetime.timezone.utc
ISO_DUR = re.compile(r"^(-)?P(?=.)(?:(\d+)Y)?(?:(\d+)M)?(?:(\d+)D)?(?:T(?=.)(?:(\d+)H)?(?:(\d+)M)?(?:(\d+)(?:\.(\d{1,6}))?S)?)?$")


def read_iso_duration(text):
    """Independent ISO-8601 duration reader -> total microseconds or None if malformed."""
    m = ISO_DUR.match(text)
    if not m:
        return None
    sign, y, mo, d, h, mi, s, frac = m.groups()
    us = ((int(y or 0) * 365 + int(mo or 0) * 30 + int(d or 0)) * 86400 + int(h or 0) * 3600 + int(mi or 0) * 60 + int(s or 0)) * 10 ** 6
    us += int((frac or "0").ljust(6, "0"))
    return -us if sign else us


class SE(str, enum.Enum):
    ONE = "1"
    A = "a"


class IE(enum.IntEnum):
    ONE = 1


class E(enum.Enum):
    TRUE = "true"
    X = "x"


def offsets():
    return [datetime.timezone(TD(minutes=m)) for m in (0, 1, -1, 330, -600, 19 * 60, -5 * 60, 23 * 60 + 59, -(23 * 60 + 59))]


def scalar_cases():
    out = []
    out += [(int, v) for v in (0, -1, 10 ** 30, -(10 ** 30))]
    out += [(float, v) for v in (0.0, -1.5, 1e300, 5e-324, 0.1)]
    out += [(decimal.Decimal, decimal.Decimal(s)) for s in ("1.10", "-3E+500", "0E-20", "123456789012345678901234567890")]
    out += [(fractions.Fraction, fractions.Fraction(a, b)) for a, b in ((1, 3), (-7, 2), (10 ** 20, 7))]
    out += [(uuid.UUID, uuid.UUID(int=i)) for i in (0, 5, 2 ** 128 - 1)]
    out += [(pathlib.PurePosixPath, pathlib.PurePosixPath(p)) for p in ("/a/b", "rel/x.txt", "123", "[1]", "null")]
    out += [(SE, SE.ONE), (SE, SE.A), (IE, IE.ONE), (E, E.TRUE), (E, E.X)]
    out += [(datetime.date, v) for v in (datetime.date(1, 1, 1), datetime.date(9999, 12, 31), datetime.date(2020, 2, 29))]
    for tz in offsets():
        out.append((datetime.datetime, datetime.datetime(2020, 1, 2, 3, 4, 5, 6, tzinfo=tz)))
        out.append((datetime.datetime, datetime.datetime(1999, 12, 31, 23, 59, 59, 999999, tzinfo=tz, fold=1)))
        # far from the epoch a float timestamp no longer carries microseconds: field-wise handling must
        out.append((datetime.datetime, datetime.datetime(2500, 6, 1, 12, 0, 0, 1, tzinfo=tz)))
        out.append((datetime.datetime, datetime.datetime(3000, 1, 1, 0, 0, 0, 999999, tzinfo=tz)))
        out.append((datetime.datetime, datetime.datetime(1000, 1, 1, 0, 0, 0, 1, tzinfo=tz)))
        out.append((datetime.time, datetime.time(1, 2, 3, 4, tzinfo=tz)))
        out.append((datetime.time, datetime.time(23, 59, 59, 999999, tzinfo=tz)))
    out += [(TD, v) for v in (TD(0), TD(days=7), TD(days=8), TD(days=14, seconds=59, microseconds=999999), TD(seconds=59, microseconds=999999),
                              TD(seconds=-1), TD(days=-14, seconds=86340, microseconds=999999), TD(microseconds=7), TD(microseconds=50),
                              TD(days=300000, microseconds=1), TD.max, TD.min, TD(hours=1), TD(days=6, hours=23, minutes=59, microseconds=7),
                              # long spans of either sign with a sub-second part (beyond 2**53 microseconds)
                              TD(days=100000, seconds=86399, microseconds=999999), -TD(days=100000, seconds=86399, microseconds=999999),
                              -TD(days=200000, seconds=86399, microseconds=1), -TD(days=999999998, seconds=86399, microseconds=999999),
                              -TD(days=99999999, seconds=3, microseconds=7))]
    return out


def canonical_text(v):
    if isinstance(v, enum.Enum):
        return str(v.value)
    if isinstance(v, (datetime.date, datetime.time)):
        return v.isoformat()
    if isinstance(v, TD):
        return None   # the library's own writer
    return str(v)


def carriers(s):
    b = s.encode()
    return [s, b, bytearray(b), memoryview(b)]


def equal_temporal(a, b):
    if type(a) is not type(b) and not (isinstance(a, type(b)) or isinstance(b, type(a))):
        return False
    if isinstance(a, (datetime.datetime, datetime.time)):
        return a == b and a.utcoffset() == b.utcoffset() and a.microsecond == b.microsecond
    return a == b


def search(stop_at=1):
    import typelib
    from typelib import serdes
    warnings.simplefilter("ignore")
    clear_typelib_caches()
    fails, n = [], 0

    def fail(kind, T, v, msg):
        fails.append({"kind": kind, "type": getattr(T, "__name__", repr(T)), "value": repr(v), "failure": msg})
        return stop_at and len(fails) >= stop_at
    for T, v in scalar_cases():
        text = canonical_text(v)
        marshalled = typelib.marshal(v, t=T)
        if isinstance(v, TD):
            text = marshalled
            us = read_iso_duration(text)
            n += 1
            exp = v // TD(microseconds=1)
            if us is None:
                if fail("iso-wellformed", T, v, f"isoformat({v!r}) = {text!r} is not a well-formed ISO-8601 duration"):
                    return fails, n, n
            elif us != exp:
                if fail("iso-meaning", T, v, f"isoformat({v!r}) = {text!r} reads as {us} us, expected {exp}"):
                    return fails, n, n
        elif isinstance(v, (datetime.date, datetime.time)) and marshalled != text:
            n += 1
            if fail("marshal-text", T, v, f"marshal({v!r}) = {marshalled!r}, the ISO text is {text!r}"):
                return fails, n, n
        for c in carriers(text):
            n += 1
            try:
                r = typelib.unmarshal(T, c)
                ok = equal_temporal(r, v) if isinstance(v, (datetime.date, datetime.time, TD)) else (r == v and type(r) is type(v))
                msg = None if ok else f"unmarshal({T.__name__}, {c!r}) = {r!r}, expected {v!r}"
            except Exception as e:
                msg = f"unmarshal({T.__name__}, {c if not isinstance(c, memoryview) else bytes(c)!r}) raised {e!r} (canonical text of {v!r})"
            if msg and fail("text-roundtrip", T, v, msg):
                return fails, n, n
    # numeric conventions
    for x in (0, 1, 86399, 1.5, -1.25, 1577934245.123456, 2 ** 31):
        n += 4
        exp_dt = datetime.datetime.fromtimestamp(x, tz=UTC)
        checks = [(datetime.datetime, exp_dt), (datetime.date, exp_dt.date()), (datetime.time, exp_dt.timetz()), (TD, TD(seconds=x))]
        for T, exp in checks:
            try:
                r = typelib.unmarshal(T, x)
                ok = equal_temporal(r, exp)
                msg = None if ok else f"unmarshal({T.__name__}, {x!r}) = {r!r}, expected {exp!r}"
            except Exception as e:
                msg = f"unmarshal({T.__name__}, {x!r}) raised {e!r}"
            if msg and fail("number-to-temporal", T, x, msg):
                return fails, n, n
    for v, exp in ((datetime.date(1970, 1, 2), 86400.0), (datetime.datetime(1970, 1, 1, 0, 0, 1, 500000, tzinfo=UTC), 1.5),
                   (datetime.datetime(1970, 1, 1, 5, 30, tzinfo=datetime.timezone(TD(minutes=330))), 0.0), (TD(seconds=90, microseconds=5), 90.000005)):
        for NT in (float, decimal.Decimal):
            n += 1
            try:
                r = typelib.unmarshal(NT, v)
                msg = None if float(r) == exp else f"unmarshal({NT.__name__}, {v!r}) = {r!r}, expected {exp}"
            except Exception as e:
                msg = f"unmarshal({NT.__name__}, {v!r}) raised {e!r}"
            if msg and fail("temporal-to-number", NT, v, msg):
                return fails, n, n
        n += 2
        iso = serdes.isoformat(v)
        for ST, want in ((str, iso), (bytes, iso.encode())):
            r = typelib.unmarshal(ST, v)
            if r != want and fail("temporal-to-text", ST, v, f"unmarshal({ST.__name__}, {v!r}) = {r!r}, expected {want!r}"):
                return fails, n, n
    # cache warmed with an equal-but-differently-represented value
    a = datetime.datetime(2020, 1, 1, 0, 0, tzinfo=UTC)
    b = a.astimezone(datetime.timezone(TD(hours=5)))
    n += 2
    if serdes.isoformat(a) != a.isoformat() or serdes.isoformat(b) != b.isoformat():
        fail("cache-congruence", datetime.datetime, b, f"isoformat of equal instants at different offsets: {serdes.isoformat(a)!r} / {serdes.isoformat(b)!r}")
    return fails, n, n


def run_recorded(case):
    f, _, _ = search(stop_at=None)
    for c in f:
        if (c["kind"], c["type"], c["value"]) == (case["kind"], case["type"], case["value"]):
            return c["failure"]
    return None


def decode_before_cast_witness():
    """Known finding C04-decode-before-cast: CastUnmarshaller decodes text as JSON / a Python literal before casting, so the
    canonical text of a value that *is itself* a quoted literal, or that reads as another member's value, comes back wrong."""
    import enum
    import pathlib
    import warnings
    import typelib

    class E(enum.Enum):
        A = 1
        B = "1"
    bad = []
    with warnings.catch_warnings():
        warnings.simplefilter("ignore")
        p = pathlib.PurePosixPath('"a"')
        r = typelib.unmarshal(pathlib.PurePosixPath, str(p))
        if r != p:
            bad.append(f"unmarshal(PurePosixPath, {str(p)!r}) == {r!r}, expected {p!r}")
        r = typelib.unmarshal(E, typelib.marshal(E.B))
        if r is not E.B:
            bad.append(f"unmarshal(E, marshal(E.B)) is {r!r} for class E(Enum): A = 1; B = '1'")
    return "; ".join(bad) or None
