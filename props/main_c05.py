"""C05 check driver."""
from pyvc.driver import Check
from props import c05, c05_concrete

ASSUMPTIONS = [
    "Callee contracts: inspection.args (member annotations, C17), context lookup (C16), serdes.load/iteritems/itervalues "
    "(C14/C18: the decoded input's members, in order, once), inspection.cached_type_hints (field name -> annotation), "
    "refs.evaluate = den(ref).",
    "Constructors self.origin(iterable) / self.t(**kwargs) consume their argument once, in order, and a raising element "
    "aborts construction with that exception (builtin container / dataclass / NamedTuple / TypedDict constructors).",
    "Member routines are arbitrary (uninterpreted run / run_raises); generator expressions and comprehensions follow the "
    "language reference (elementwise, in order).",
    "T is well-formed for the routine class the dispatch chose (arity of args: C15's obligation).",
    "The (un)marshaller factory is a function of its argument (C12 obligation K); Delayed* class invariant: "
    "_resolved is None or the factory's routine for the proxy's own reference.",
    "Lifting member-wise steps to every nesting depth is induction on the type / on the size of the value "
    "(meta-lemmas M1-M3, DESIGN 3.3: paper argument).",
]


def searcher(ob):
    fails, n, d = c05_concrete.search(stop_at=1)
    if fails:
        return {"found": True, "kind": "c05-type", "case": fails[0], "searched": n}
    return {"found": False, "searched": n, "engine": ob.meta.get("engine") or ob.meta.get("why"),
            "note": "type-pool search found no composite differing from its member-wise reconstruction"}


def replay(data):
    case = data.get("case")
    if not case:
        print("replay: no concrete input recorded for", data.get("obligation"), data.get("solver"))
        return 1
    r = c05_concrete.run_recorded(case)
    print("replay", case["type"], "->", r)
    return 1 if r else 0


def main(tier, seed):
    chk = Check("C05", tier, seed)
    chk.assumptions = list(ASSUMPTIONS)
    c05.obligations(chk)
    fails, n, d = c05_concrete.search(stop_at=3)
    chk.bounded.append({"name": "bounded cross-check: composites over the type pool vs their member-wise reconstruction on the real code",
                        "evaluations": n, "distinct_nontrivial": d, "failures": len(fails),
                        "rule": "every composite pool type x its values (unmarshal of the wire form and marshal), compared with the composite rebuilt from independently obtained member routines"})
    for f in fails:
        chk.violation("bounded-cross-check :: " + str(f.get("type")), {"found": True, "kind": "c05-type", "case": f}, True)
    chk.resolve_failures(searcher)
    return chk.finish()
