"""C13 — already-valid values pass through unmarshal unchanged.

Functions under contract: every leaf unmarshaller __call__ (value made of exactly the target class
comes back as the same object), LiteralUnmarshaller, and for composites the fact that the decoded
input is the input itself (so that C05's member-wise clause + the induction hypothesis rebuild an
equal value).  Callee contracts (proved in C14): serdes.decode is the identity on non-bytes-like
values; serdes.load is the identity on non-text values.
"""
from __future__ import annotations

import datetime
import numbers
import pathlib
import re
import uuid

import z3

from pyvc.core import (SV, SInt, SBool, SSeq, Obj, Val, VNone, BoolS, IntS, Cls, to_val, to_int, cls_of, sub, cls_const,
                       class_axioms, PyRaise)
from pyvc.driver import Ob, cover_hyps
from pyvc.ground import Q
from pyvc.env import _MISSING
from pyvc.expr import SCls
from props import routine_world as rw
from props import uf_world as uw

UN = "typelib.unmarshals.routines"
TEXT = (str, bytes, bytearray, memoryview)
# routine -> (base class of its target, may the target be text-like?)
LEAVES = {
    "NoneTypeUnmarshaller": type(None), "BytesUnmarshaller": bytes, "StringUnmarshaller": str,
    "NumberUnmarshaller": numbers.Number, "DateUnmarshaller": datetime.date, "DateTimeUnmarshaller": datetime.datetime,
    "TimeUnmarshaller": datetime.time, "TimeDeltaUnmarshaller": datetime.timedelta, "UUIDUnmarshaller": uuid.UUID,
    "PatternUnmarshaller": re.Pattern, "CastUnmarshaller": object,
}
CLAUSE = "a-value-of-exactly-the-target-class-is-returned-as-is"



def _outer_loop_target(I, func):
    """name of the loop variable of the function's outermost `for` (the candidate form of the input), read off the AST"""
    import ast as _ast
    _m, _c, node = I.src.find_def(func)
    for st in _ast.walk(node):
        if isinstance(st, _ast.For) and isinstance(st.target, _ast.Name):
            return st.target.id
    return "candidate"

def callee_contracts(val):
    bl = z3.Or(*[sub(cls_of(val), cls_const(k)) for k in (bytes, bytearray, memoryview)])
    txt = z3.Or(*[sub(cls_of(val), cls_const(k)) for k in TEXT])
    return [z3.Implies(z3.Not(bl), rw.decode_f(val) == val),       # C14: decode :: everything-else-is-returned-unchanged
            z3.Implies(z3.Not(txt), rw.load_f(val) == val)]        # C14: load :: non-text-input-is-returned-untouched


def make_interp():
    I = uw.make_interp()
    I.stubs["typelib.py.inspection.istexttype"] = uw.Stub(
        "inspection.istexttype", lambda I, p, a, k: SBool(z3.Or(*[sub(I.cls_term(a[0]), cls_const(c)) for c in TEXT])), None)
    # re.compile(p) returns p itself for an already compiled pattern (documented)
    def re_compile(I, path, a, k):
        x = to_val(a[0])
        if path.branch(sub(cls_of(x), cls_const(re.Pattern))):
            return SV(x)
        return uw.call_uf(I, path, "re.compile", a, k, result_cls=cls_const(re.Pattern))
    I.builtin_models[re.compile] = re_compile
    return I


def leaf_obligations(chk, clsname, base):
    I = make_interp()
    func = f"{UN}.{clsname}.__call__"

    def mk(I, path):
        for k in TEXT + (int, float, datetime.date, datetime.datetime, datetime.time, datetime.timedelta, type(None), re.Pattern):
            cls_const(k)
        T = path.fresh("T", Cls)
        val = path.fresh("val")
        path.assume(sub(T, cls_const(base)))
        path.assume(cls_of(val) == T)                       # made of exactly the annotated class
        # builtin layouts do not mix: a subclass of `base` has no unrelated builtin among its ancestors
        for k in TEXT + (int, float, datetime.date, datetime.time, datetime.timedelta, type(None)):
            if base is not object and not issubclass(base, k) and not issubclass(k, base):
                path.assume(z3.Not(sub(T, cls_const(k))))
        if base is type(None):
            path.assume(val == VNone)
        for a in callee_contracts(val):
            path.assume(a)
        t = SCls(T)
        fields = {"t": t, "origin": t, "context": rw.Ctx(path.fresh("ctx")), "var": None}
        if clsname == "CastUnmarshaller":
            fields["caster"] = SCls(path.fresh("Caster", Cls))
        slf = rw.routine_self(I, UN, clsname, fields)
        return [slf, SV(val)], {}, {"val": val, "T": T}
    results = I.run_function(func, mk, max_paths=3000)
    for pi, (path, out, obls, writes, cur) in enumerate(results):
        _leaf_one(chk, func, clsname, pi, path, out, cur)
    chk.add(Ob(func, "cover", "pre", cover_hyps(results, class_axioms()), z3.BoolVal(True), expect="sat"))
    chk.trusted.update(I.assumed_used)


def _leaf_one(chk, func, clsname, pi, path, out, cur):
    pid, hy = f"p{pi}", path.hyps + class_axioms()
    val = cur["val"]
    if out.kind != "ret":
        chk.add(Ob(func, CLAUSE, pid, hy, z3.BoolVal(False),
                   {"outcome": out.kind, "why": str(out.value if out.kind != "raise" else out.exc.note)}))
        return
    r = out.value
    goal = (val == VNone) if r is None else (to_val(r) == val)
    chk.add(Ob(func, CLAUSE, pid, hy, goal))


def none_rejects_obligations(chk):
    """Optional[X] pass-through needs the None member to reject every valid X: NoneTypeUnmarshaller raises
    ValueError for every input that is not None - text that merely *reads* as null included."""
    I = make_interp()
    func = f"{UN}.NoneTypeUnmarshaller.__call__"

    def mk(I, path):
        for k in TEXT + (type(None),):
            cls_const(k)
        val = path.fresh("val")
        path.assume(val != VNone)
        path.assume(Q([Val], lambda x: (cls_of(x) == cls_const(type(None))) == (x == VNone), trigger=cls_of, name="None-is-the-only-NoneType"))
        for a in callee_contracts(val):
            path.assume(a)
        # decode contract (C14): a bytes-like input decodes to a str
        bl = z3.Or(*[sub(cls_of(val), cls_const(k)) for k in (bytes, bytearray, memoryview)])
        path.assume(z3.Implies(bl, cls_of(rw.decode_f(val)) == cls_const(str)))
        t = SCls(cls_const(type(None)))
        slf = rw.routine_self(I, UN, "NoneTypeUnmarshaller", {"t": t, "origin": t, "context": rw.Ctx(path.fresh("ctx")), "var": None})
        return [slf, SV(val)], {}, {"val": val}
    for pi, (path, out, obls, writes, cur) in enumerate(I.run_function(func, mk)):
        ok = out.kind == "raise" and isinstance(out.exc.exc_cls, type) and issubclass(out.exc.exc_cls, ValueError)
        chk.add(Ob(func, "every-input-other-than-None-is-rejected-with-ValueError", f"p{pi}", path.hyps + class_axioms(),
                   z3.BoolVal(bool(ok)), {"outcome": out.kind}))


def literal_obligations(chk):
    from pyvc.stmt import LoopSpec
    I = make_interp()
    func = f"{UN}.LiteralUnmarshaller.__call__"
    nv = z3.Int("lit_n")
    vv = z3.Function("lit_value", IntS, Val)
    pyeq = z3.Function("py_eq", Val, Val, BoolS)

    def equal_hook(I, path, a, b, identity):
        if not identity and isinstance(a, SV) and isinstance(b, SV):
            return SBool(pyeq(a.t, b.t))
        return _MISSING
    I.hooks["equal"] = equal_hook

    def inv(I, path, env, k):
        cand = to_val(env.lookup(_outer_loop_target(I, func)))
        return [Q([IntS], lambda j: z3.Implies(z3.And(j >= 0, j < k), z3.Not(pyeq(vv(j), cand))), name="no-earlier-match")]
    # two passes over the declared values per candidate (fix 4d8ae83): first a literal of the candidate's own class, then any equal
    def inv_exact(I, path, env, k):
        cand = to_val(env.lookup(_outer_loop_target(I, func)))
        return [Q([IntS], lambda j: z3.Implies(z3.And(j >= 0, j < k), z3.Not(z3.And(cls_of(vv(j)) == cls_of(cand), pyeq(vv(j), cand)))),
                  name="no-earlier-match-of-the-same-class")]
    I.loop_specs[(func, 1)] = LoopSpec("values-of-the-same-class", lambda I, p, e, k: None, inv_exact)
    I.loop_specs[(func, 2)] = LoopSpec("values", lambda I, p, e, k: None, inv)
    box = {}

    def mk(I, path):
        m = path.fresh("m", IntS)
        path.assume(z3.And(nv >= 0, m >= 0, m < nv))
        val = vv(m)                                       # the input *is* the m-th declared literal
        # typing de-duplicates Literal arguments by (class, value): two declared literals may be == (True and 1) as long as their
        # classes differ; == is reflexive.  (An earlier version assumed pairwise distinctness under == alone - false for
        # Literal[True, 1] - and so proved the clause for code that returned True for the input 1.)
        path.assume(Q([IntS, IntS], lambda i, j: z3.Implies(z3.And(i >= 0, i < nv, j >= 0, j < nv, i != j),
                                                           z3.Not(z3.And(pyeq(vv(i), vv(j)), cls_of(vv(i)) == cls_of(vv(j))))),
                      name="literals-distinct-by-class-and-value"))
        path.assume(Q([IntS], lambda i: pyeq(vv(i), vv(i)), trigger=vv, name="eq-reflexive"))
        values = SSeq(nv, lambda i: SV(vv(to_int(i))), "tuple")
        slf = rw.routine_self(I, UN, "LiteralUnmarshaller", {"t": SV(path.fresh("t")), "origin": SV(path.fresh("o")),
                                                              "values": values, "context": rw.Ctx(path.fresh("ctx")), "var": None})
        return [slf, SV(val)], {}, {"val": val}
    results = I.run_function(func, mk)
    for pi, (path, out, obls, writes, cur) in enumerate(results):
        for nm, pc, goal in obls:
            chk.add(Ob(func, nm, f"p{pi}", pc, goal))
        if out.kind == "end":
            continue
        hy = path.hyps
        goal = to_val(out.value) == cur["val"] if out.kind == "ret" else z3.BoolVal(False)
        chk.add(Ob(func, "a-declared-literal-is-returned-as-is", f"p{pi}", hy, goal, {"outcome": out.kind}))


def composite_obligations(chk):
    """For collection / mapping / structured targets the routine iterates serdes.load(val); for a value of
    exactly the (non-text) target class that is the value itself."""
    import ast
    I = make_interp()
    for cls in ("SubscriptedMappingUnmarshaller", "SubscriptedIterableUnmarshaller", "SubscriptedIteratorUnmarshaller",
                "FixedTupleUnmarshaller", "StructuredTypeUnmarshaller"):
        func = f"{UN}.{cls}.__call__"
        mod, chain, node = I.src.find_def(func)
        # the only use of `val` is `serdes.load(val)` (then everything goes through `decoded`)
        uses = [n for n in ast.walk(node) if isinstance(n, ast.Name) and n.id == "val" and isinstance(n.ctx, ast.Load)]
        loads = [n for n in ast.walk(node) if isinstance(n, ast.Call) and ast.unparse(n.func) == "serdes.load"
                 and len(n.args) == 1 and isinstance(n.args[0], ast.Name) and n.args[0].id == "val"]
        in_msgs = [n for n in ast.walk(node) if isinstance(n, ast.JoinedStr)]
        msg_uses = sum(1 for m in in_msgs for n in ast.walk(m) if isinstance(n, ast.Name) and n.id == "val")
        chk.add(Ob(func, "input-is-read-only-through-serdes.load", "ast", [],
                   z3.BoolVal(len(loads) >= 1 and len(uses) - msg_uses == len(loads)), {"uses": len(uses), "loads": len(loads)}))
    val = z3.Const("v", Val)
    T = z3.Const("Tc", Cls)
    for k in TEXT:
        cls_const(k)
    # lemma: a value whose class is not text-like is its own decoded form
    chk.add(Ob(f"{UN}.(composites)", "decoded-input-is-the-input-for-non-text-values", "lemma",
               callee_contracts(val) + class_axioms() + [z3.Not(z3.Or(*[sub(cls_of(val), cls_const(k)) for k in TEXT]))],
               rw.load_f(val) == val))


def obligations(chk):
    for c, b in LEAVES.items():
        leaf_obligations(chk, c, b)
    none_rejects_obligations(chk)
    literal_obligations(chk)
    composite_obligations(chk)
    # the declared members of a Literal reach the routine through inspection.args(t, evaluate=True) -> refs.evaluate: a member
    # that is not a reference object (a string literal above all) must come through unchanged (contract shared with C07)
    from props import c07
    c07.evaluate_obligations(chk)
