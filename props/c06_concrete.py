"""C06 — executable twin: marshal output is Wire, json-encodable, repeatable, fresh; Literal rejects non-members."""
from __future__ import annotations

import collections
import copy
import enum
import json
import typing
import warnings

from props import typepool as tp
from props.concrete_util import clear_typelib_caches


class MyStr(str):
    pass


class IE(enum.IntEnum):
    ONE = 1
    TWO = 2


SUBCLASS_CASES = [
    ("int <- IntEnum", int, IE.ONE), ("str <- str subclass", str, MyStr("abc")),
    ("Literal[1,x] <- IntEnum", typing.Literal[1, "x"], IE.ONE), ("Literal[1,x] <- str subclass", typing.Literal[1, "x"], MyStr("x")),
    ("list[int] <- deque of IntEnum", list[int], collections.deque([IE.ONE, IE.TWO])),
    ("dict[str,int] <- OrderedDict", dict[str, int], collections.OrderedDict([(MyStr("k"), IE.TWO)])),
    ("list[str] <- tuple of str subclass", list[str], (MyStr("a"), "b")),
]
import dataclasses
import datetime
import re


class Color(enum.Enum):
    RED = "red"


@dataclasses.dataclass
class Holder:
    """a structured member whose field happens to be called like an Enum attribute"""
    value: datetime.date


@dataclasses.dataclass
class Rule:
    """... and one called like an attribute of re.Pattern"""
    pattern: datetime.date


# unions whose earlier member's routine reads an attribute (Enum.value, Pattern.pattern) that a later member also has
UNION_CASES = [
    ("Color|Holder <- Holder", typing.Union[Color, Holder], Holder(datetime.date(2020, 1, 1))),
    ("Color|Holder <- Color", typing.Union[Color, Holder], Color.RED),
    ("Pattern|Rule <- Rule", typing.Union[re.Pattern, Rule], Rule(datetime.date(2020, 1, 1))),
    ("list[Color|Holder]", list[typing.Union[Color, Holder]], [Holder(datetime.date(2020, 1, 1)), Color.RED]),
]
NON_MEMBERS = [(typing.Literal["a", 2, None], "b"), (typing.Literal[1, "x"], 3), (list[typing.Literal["a", "b"]], ["a", "c"]),
               (dict[typing.Literal["a"], int], {"z": 1})]


def mutable_ids(x, acc=None):
    acc = set() if acc is None else acc
    if isinstance(x, (list, dict, set, collections.deque)):
        acc.add(id(x))
    if isinstance(x, dict):
        for k, v in x.items():
            mutable_ids(v, acc)
    elif isinstance(x, (list, tuple, set, frozenset, collections.deque)):
        for v in x:
            mutable_ids(v, acc)
    elif hasattr(x, "__dict__") and not isinstance(x, type):
        for v in vars(x).values():
            mutable_ids(v, acc)
    return acc


def has_bytes(T):
    return "bytes" in repr(T) or "memoryview" in repr(T)


def check_value(name, T, v):
    import typelib
    try:
        before = copy.deepcopy(v)
    except Exception:
        before = None
    try:
        w1 = typelib.marshal(v, t=T)
        w2 = typelib.marshal(v, t=T)
    except Exception as e:
        return f"marshal({v!r}, t={name}) raised {e!r}"
    if not tp.is_wire(w1):
        return f"marshal({v!r}, t={name}) = {w1!r} is not plain JSON-compatible data"
    try:
        json.dumps(w1)
    except Exception as e:
        return f"marshal({v!r}, t={name}) = {w1!r} is rejected by the standard json encoder: {e!r}"
    if w1 != w2 or repr(w1) != repr(w2):
        return f"marshal({v!r}, t={name}) differs between calls: {w1!r} vs {w2!r}"
    if mutable_ids(w1) & mutable_ids(v):
        return f"marshal({v!r}, t={name}) shares a mutable container with its input"
    if mutable_ids(w1) & mutable_ids(w2):
        return f"marshal({v!r}, t={name}): two calls share a mutable container"
    if before is not None:
        try:
            if not tp.same(before, v) and before != v:
                return f"marshal mutated its input {before!r} -> {v!r}"
        except Exception:
            pass
    return None


def search(stop_at=1):
    import typelib
    warnings.simplefilter("ignore")
    clear_typelib_caches()
    fails, n = [], 0
    cases = [(name, T, v) for name, T, vs in tp.pool() if not has_bytes(T) and name != "int|str" for v in vs]
    cases += SUBCLASS_CASES + UNION_CASES
    for name, T, v in cases:
        n += 1
        r = check_value(name, T, v)
        if r:
            fails.append({"case": name, "value": repr(v), "failure": r})
            if stop_at and len(fails) >= stop_at:
                return fails, n, n
    for T, v in NON_MEMBERS:
        n += 1
        try:
            w = typelib.marshal(v, t=T)
            fails.append({"case": repr(T), "value": repr(v), "failure": f"non-member {v!r} of {T} was emitted as {w!r} instead of ValueError"})
        except ValueError:
            pass
        except Exception as e:
            fails.append({"case": repr(T), "value": repr(v), "failure": f"non-member {v!r} of {T}: raised {e!r}, expected ValueError"})
        if stop_at and len(fails) >= stop_at:
            return fails, n, n
    # "is the same on every call" for values that compare equal to a different valid value marshalled earlier (the
    # catalogue of equal-but-distinct values is shared with C12)
    from props import c12_concrete
    vf, vn = c12_concrete.search_value_keys()
    n += vn
    for f in vf:
        if f["op"] == "marshal":
            fails.append({"case": "same-on-every-call: " + f["label"], "value": f["second"], "failure": f["failure"]})
            if stop_at and len(fails) >= stop_at:
                return fails, n, n
    return fails, n, n


def run_recorded(case):
    f, _, _ = search(stop_at=None)
    for c in f:
        if c["case"] == case["case"] and c["value"] == case["value"]:
            return c["failure"]
    return None
