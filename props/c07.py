"""C07 — recursive and mutually recursive types work at every depth.

The statement is an induction over the nesting depth of the value (DESIGN.md 3.3, M3).  Its step is:
"the routine that converts a member reached through a cut edge of the type graph is the routine of the member's own
type" - then every level is converted by the real routine (none is passed through raw) and C01 / C03 / C05 lift from
one level to the next.  The step is the composition of these contracts, all discharged from the real ASTs:

 (1) C09 exit clause: a revisited member is represented by a node whose type is refs.forwardref(<member>) (pinned to
     exactly that member) - re-used from props/c09.py (spelling clause + pinned clause);
 (2) handler tables: the first handler of both dispatch tables sends a ForwardRef node to the Delayed proxy class;
 (3) Delayed*.resolved / __call__ delegate to factory(self.t) and cache it (re-used from props/c05.py);
 (4) refs.evaluate(ref) is the pinned value of a pinned reference and the argument itself for a non-reference;
 (5) the factories return, for a reference argument, the routine built for the unwrapped *evaluated* type
     (factory clause of props/c11.py generalised to references) and write nothing into routines they have built;
 (6) structured / composite constructors find the proxy when they look the member type up (C16 three-step lookup,
     flag-independence of refs.forwardref: props/c11.py) instead of falling back to a no-op.
Termination of construction: static_order is acyclic (C09) and a proxy builds its target at most once, on first call.
The induction itself and Python's recursion limit are not mechanised; the twin replays cycle topologies at depths 0..D.
"""
from __future__ import annotations

import ast
import typing

import z3

from pyvc.core import (SV, SBool, SInt, SSeq, Obj, Val, VNone, BoolS, IntS, to_val, to_int, to_bool_term, cls_of, sub, cls_const,
                       class_axioms, Stub, PyRaise, Unsupported)
from pyvc.driver import Ob, cover_hyps
from pyvc.interp import Interp
from pyvc.builtins_model import install
from props import c05, c09, c11

APIS = (("typelib.unmarshals.api", "DelayedUnmarshaller"), ("typelib.marshals.api", "DelayedMarshaller"))


def table_obligations(chk):
    """the first entry of each `_HANDLERS` table is  inspection.isforwardref -> Delayed*  (dict order = dispatch order)"""
    I = install(Interp())
    for mod, delayed in APIS:
        node = None
        for st in I.src.toplevel(mod):
            tg = st.targets[0] if isinstance(st, ast.Assign) else getattr(st, "target", None)
            if isinstance(st, (ast.Assign, ast.AnnAssign)) and isinstance(tg, ast.Name) and tg.id == "_HANDLERS":
                node = st.value
        ok = (isinstance(node, ast.Dict) and node.keys and ast.unparse(node.keys[0]) == "inspection.isforwardref"
              and ast.unparse(node.values[0]) == delayed)
        chk.add(Ob(f"{mod}._HANDLERS", "forward-references-are-dispatched-first-and-to-the-delayed-proxy", "ast", [], z3.BoolVal(bool(ok)),
                   {"first": (ast.unparse(node.keys[0]), ast.unparse(node.values[0])) if isinstance(node, ast.Dict) and node.keys else None}))
        # the live table agrees with the source (no later mutation at import time)
        import importlib
        live = importlib.import_module(mod)._HANDLERS
        k0, v0 = next(iter(live.items()))
        from typelib.py import inspection
        chk.add(Ob(f"{mod}._HANDLERS", "the-imported-table-starts-with-the-same-entry", "ground", [],
                   z3.BoolVal(k0 is inspection.isforwardref and v0.__name__ == delayed), {"live": (getattr(k0, "__name__", "?"), v0.__name__)}))


def evaluate_obligations(chk):
    """refs.evaluate: a non-reference is returned unchanged; a pinned reference yields its pinned value."""
    I = install(Interp())
    func = "typelib.py.refs.evaluate"
    FWD = cls_const(typing.ForwardRef)
    val_of = z3.Function("__forward_value__", Val, Val)
    evd = z3.Function("__forward_evaluated__", Val, BoolS)
    I.sv_attr["__forward_evaluated__"] = lambda I, path, obj: SBool(evd(obj.t))
    I.sv_attr["__forward_value__"] = lambda I, path, obj: SV(val_of(obj.t))
    I.sv_attr["_evaluate"] = lambda I, path, obj: Stub("ForwardRef._evaluate", lambda I, p, a, k: SV(p.fresh("evaluated_by_typing")), "typing.ForwardRef._evaluate (external)")
    I.builtin_models[type] = lambda I, path, a, k: __import__("pyvc.expr", fromlist=["SCls"]).SCls(cls_of(to_val(a[0]))) if len(a) == 1 and isinstance(a[0], SV) else __import__("pyvc.env", fromlist=["_MISSING"])._MISSING

    def mk(I, path):
        ref = path.fresh("ref")
        return [SV(ref)], {}, {"ref": ref}
    results = I.run_function(func, mk)
    names = ["a-non-reference-is-returned-unchanged", "a-pinned-reference-yields-its-pinned-value"]
    for pi, (path, out, obls, writes, cur) in enumerate(results):
        pid, hy, ref = f"p{pi}", path.hyps + class_axioms(), cur["ref"]
        if out.kind != "ret":
            why = {"outcome": out.kind, "why": str(out.value if out.kind != "raise" else out.exc.exc_cls)[:200]}
            chk.add(Ob(func, names[0], pid, hy + [cls_of(ref) != FWD], z3.BoolVal(False), why))
            chk.add(Ob(func, names[1], pid, hy + [cls_of(ref) == FWD, evd(ref)], z3.BoolVal(False), why))
            continue
        r = to_val(out.value)
        chk.add(Ob(func, names[0], pid, hy + [cls_of(ref) != FWD], r == ref))
        chk.add(Ob(func, names[1], pid, hy + [cls_of(ref) == FWD, evd(ref)], r == val_of(ref)))
    if results:
        chk.add(Ob(func, "cover", "pre", cover_hyps(results), z3.BoolVal(True), expect="sat"))
    chk.trusted.update(I.assumed_used)


def obligations(chk, with_graph=True):
    table_obligations(chk)
    evaluate_obligations(chk)
    for mod, cls, fac in c05.DELAYED:                      # (3) proxies delegate to the factory's routine for their own reference
        c05.delayed_clauses(chk, mod, cls, fac)
    for mod, fname, noop in c11.FACTORIES:                 # (5) factories; dispatcher
        c11.factory_obligations(chk, mod, fname, noop)
        c11.dispatcher_obligations(chk, mod)
    c11.forwardref_obligations(chk)                        # (1)/(6) pinned references, flag-independent key
    c09.order_obligations(chk)                             # reference inputs are evaluated, then ordered like the type
    if with_graph:
        c09.obligations(chk)                               # (1) cut nodes are pinned references to the member, spelled as the context spells them
