"""A pool of annotations from the supported universe U with valid values and wire forms, and the
executable spec functions (Conf, same, Wire) used by the concrete twins (replay / bounded search).
Written from the property texts, independently of typelib's code.
"""
from __future__ import annotations

import collections
import dataclasses
import datetime
import decimal
import enum
import fractions
import pathlib
import re
import typing
import uuid

UTC = datetime.timezone.utc
TZ5 = datetime.timezone(datetime.timedelta(hours=5, minutes=30))


class Color(enum.Enum):
    RED = "red"
    BLUE = "blue"


class Num(enum.IntEnum):
    ONE = 1
    TWO = 2


@dataclasses.dataclass
class Point:
    x: int
    y: float = 0.0


@dataclasses.dataclass(frozen=True)
class Tagged:
    tag: str
    point: Point
    when: datetime.date


class NT(typing.NamedTuple):
    a: int
    b: str


class TD(typing.TypedDict):
    name: str
    qty: int


# functional syntax: keys that are not identifiers (nor valid parameter names)
TDF = typing.TypedDict("TDF", {"x-trace": str, "from": int})


class Plain:
    a: int
    b: str

    def __init__(self, a: int, b: str):
        self.a = a
        self.b = b

    def __eq__(self, o):
        return type(o) is Plain and (o.a, o.b) == (self.a, self.b)

    def __repr__(self):
        return f"Plain({self.a!r}, {self.b!r})"


@dataclasses.dataclass
class Node:
    value: int
    child: typing.Optional["Node"] = None
    kids: typing.List["Node"] = dataclasses.field(default_factory=list)


@dataclasses.dataclass
class Window:
    days: typing.List[datetime.date]


@dataclasses.dataclass
class Schedule:
    """a nested structured type whose inner class has a member type (list[date]) that the outer class reaches too - the type
    graph meets it twice, once inside the nested class"""
    window: Window
    holidays: typing.List[datetime.date]


@dataclasses.dataclass
class Derived:
    """a dataclass with a field that is not a constructor argument (init=False)"""
    name: str
    size: int = dataclasses.field(init=False, default=3)


UserId = typing.NewType("UserId", int)

# (name, annotation, [valid values])
SCALARS = [
    ("int", int, [0, -7, 10 ** 20]),
    ("bool", bool, [True, False]),
    ("float", float, [0.0, -1.5, 1e300]),
    ("str", str, ["", "abc", "1", "null", "[1]", "2020-01-01", "ab"]),
    ("Decimal", decimal.Decimal, [decimal.Decimal("1.10"), decimal.Decimal("-3E+5")]),
    ("Fraction", fractions.Fraction, [fractions.Fraction(1, 3), fractions.Fraction(-7, 2)]),
    ("UUID", uuid.UUID, [uuid.UUID(int=5), uuid.UUID("12345678-1234-5678-1234-567812345678")]),
    ("PurePosixPath", pathlib.PurePosixPath, [pathlib.PurePosixPath("/a/b"), pathlib.PurePosixPath("rel/x.txt")]),
    ("Pattern", re.Pattern, [re.compile("a+b"), re.compile(r"\d{2}")]),
    ("date", datetime.date, [datetime.date(2020, 2, 29), datetime.date(1, 1, 1), datetime.date(9999, 12, 31)]),
    ("datetime", datetime.datetime, [datetime.datetime(2020, 1, 2, 3, 4, 5, 6, tzinfo=UTC),
                                     datetime.datetime(1999, 12, 31, 23, 59, 59, tzinfo=TZ5),
                                     # negative offsets that are not whole hours (Newfoundland, Marquesas, a quarter hour west)
                                     datetime.datetime(2021, 6, 1, 12, 0, 0, tzinfo=datetime.timezone(datetime.timedelta(hours=-3, minutes=-30))),
                                     datetime.datetime(2021, 6, 1, 12, 0, 0, 250000, tzinfo=datetime.timezone(datetime.timedelta(hours=-9, minutes=-30))),
                                     datetime.datetime(2021, 6, 1, 0, 5, 0, tzinfo=datetime.timezone(datetime.timedelta(minutes=-15)))]),
    ("time", datetime.time, [datetime.time(1, 2, 3, tzinfo=UTC), datetime.time(23, 59, 59, 999999, tzinfo=UTC)]),
    ("timedelta", datetime.timedelta, [datetime.timedelta(hours=1), datetime.timedelta(days=3, seconds=5, microseconds=7)]),
    ("NoneType", type(None), [None]),
    ("Color", Color, [Color.RED, Color.BLUE]),
    ("Num", Num, [Num.ONE, Num.TWO]),
    ("Literal", typing.Literal["a", 2, None], ["a", 2, None]),
    ("Literal[1,x]", typing.Literal[1, "x"], [1, "x"]),
    # literals that are == but of different classes are distinct declared values (typing de-duplicates by type and value)
    ("Literal[True,1]", typing.Literal[True, 1], [1, True]),
    ("Literal[0,False,x]", typing.Literal[0, False, "x"], [False, 0, "x"]),
]


def composites():
    out = []
    base = [s for s in SCALARS if s[0] in ("int", "str", "Decimal", "date", "Color", "UUID")]
    for n, t, vs in base:
        out.append((f"list[{n}]", list[t], [[], list(vs), [vs[0]]]))
        out.append((f"List[{n}]", typing.List[t], [list(vs)]))
        out.append((f"set[{n}]", set[t], [set(), set(vs)]))
        out.append((f"frozenset[{n}]", frozenset[t], [frozenset(vs)]))
        out.append((f"deque[{n}]", collections.deque[t], [collections.deque(vs)]))
        out.append((f"tuple[{n},...]", tuple[t, ...], [(), tuple(vs)]))
        out.append((f"Sequence[{n}]", typing.Sequence[t], [list(vs)]))
        out.append((f"dict[str,{n}]", dict[str, t], [{}, {f"k{i}": v for i, v in enumerate(vs)}]))
        out.append((f"Mapping[str,{n}]", typing.Mapping[str, t], [{f"k{i}": v for i, v in enumerate(vs)}]))
        out.append((f"Optional[{n}]", typing.Optional[t], [None, vs[0]]))
        out.append((f"tuple[int,{n}]", tuple[int, t], [(1, vs[0]), (-2, vs[-1])]))
    out += [
        ("dict[int,str]", dict[int, str], [{1: "a", 2: "b"}]),
        ("tuple[int,str,float]", tuple[int, str, float], [(1, "a", 2.5)]),
        ("list[list[int]]", list[list[int]], [[[1], [], [2, 3]]]),
        ("dict[str,list[Decimal]]", dict[str, list[decimal.Decimal]], [{"a": [decimal.Decimal("1.5")]}]),
        ("Point", Point, [Point(1, 2.5), Point(-3)]),
        ("Tagged", Tagged, [Tagged("t", Point(1, 1.0), datetime.date(2020, 1, 2))]),
        ("NT", NT, [NT(1, "x"), NT(12, "ab")]),
        ("TD", TD, [TD(name="n", qty=3)]),
        ("TDF(non-identifier keys)", TDF, [{"x-trace": "abc", "from": 4}]),
        ("Plain", Plain, [Plain(1, "b")]),
        ("list[Point]", list[Point], [[Point(1, 2.0), Point(3, 4.0)]]),
        ("dict[str,Point]", dict[str, Point], [{"p": Point(1, 2.0)}]),
        ("Optional[Point]", typing.Optional[Point], [None, Point(5, 6.0)]),
        ("Node", Node, [Node(1), Node(1, Node(2, Node(3))), Node(1, None, [Node(2), Node(3, Node(4))])]),
        ("Schedule(member type shared with a nested class)", Schedule,
         [Schedule(Window([datetime.date(2020, 1, 2)]), [datetime.date(2021, 3, 4), datetime.date(2022, 5, 6)])]),
        ("Derived(init=False field)", Derived, [Derived("n")]),
        ("list[Derived]", list[Derived], [[Derived("a"), Derived("b")]]),
        ("UserId", UserId, [UserId(5)]),
        ("Final[int]", typing.Final[int], [3]),
        ("int|str", typing.Union[int, str], [1, "abc"]),
    ]
    return out


def pool():
    return SCALARS + composites()


# ----------------------------------------------------------------------------- spec functions
def same(a, b):
    """Structural equality with equal classes at every position (and equal UTC offset for aware temporals)."""
    if type(a) is not type(b):
        return False
    if isinstance(a, (list, tuple, collections.deque)):
        return len(a) == len(b) and all(same(x, y) for x, y in zip(a, b))
    if isinstance(a, (set, frozenset)):
        return a == b and {type(x) for x in a} == {type(x) for x in b}
    if isinstance(a, dict):
        return a.keys() == b.keys() and all(same(a[k], b[k]) for k in a)
    if dataclasses.is_dataclass(a) and not isinstance(a, type):
        return all(same(getattr(a, f.name), getattr(b, f.name)) for f in dataclasses.fields(a))
    if isinstance(a, (datetime.datetime, datetime.time)):
        return a == b and a.utcoffset() == b.utcoffset() and a.microsecond == b.microsecond
    if isinstance(a, re.Pattern):
        return a.pattern == b.pattern and a.flags == b.flags
    if isinstance(a, float):
        return a == b or (a != a and b != b)
    return a == b


def is_wire(w):
    """None | exact bool/int/float/str | exact list of wire | exact dict with primitive keys and wire values."""
    if w is None or type(w) in (bool, int, float, str):
        return True
    if type(w) is list:
        return all(is_wire(x) for x in w)
    if type(w) is dict:
        return all((k is None or type(k) in (bool, int, float, str)) and is_wire(v) for k, v in w.items())
    return False


_ABSTRACT = {typing.Sequence: list, collections.abc.Sequence: list, typing.Mapping: dict,
             collections.abc.Mapping: dict, collections.abc.Iterable: list, collections.abc.Collection: list,
             collections.abc.MutableSequence: list, collections.abc.Set: set, collections.abc.MutableSet: set,
             collections.abc.MutableMapping: dict}


def conf(T, v):
    """v structurally conforms to T (the statement of C03)."""
    if T is typing.Any or T is object:
        return True
    sup = getattr(T, "__supertype__", None)
    if sup is not None:
        return conf(sup, v)
    origin = typing.get_origin(T)
    args = typing.get_args(T)
    if origin in (typing.Final, typing.ClassVar):
        return conf(args[0], v)
    if origin is typing.Literal:
        return any(v == a and type(v) is type(a) for a in args)
    if origin is typing.Union or (origin is not None and getattr(origin, "__name__", "") == "UnionType"):
        return any(conf(a, v) for a in args)
    if isinstance(T, typing.ForwardRef) or isinstance(T, str):
        return True
    if origin is None:
        if T is type(None):
            return v is None
        if T is datetime.date:
            return isinstance(v, datetime.date) and not isinstance(v, datetime.datetime)
        if isinstance(T, type) and issubclass(T, dict) and hasattr(T, "__required_keys__"):   # TypedDict
            hints = typing.get_type_hints(T)
            return (type(v) is dict and T.__required_keys__ <= v.keys()
                    and all(k in hints and conf(hints[k], x) for k, x in v.items()))
        if isinstance(T, type):
            if not isinstance(v, T):
                return False
            if dataclasses.is_dataclass(T) or (issubclass(T, tuple) and hasattr(T, "_fields")):
                hints = typing.get_type_hints(T)
                return all(conf(h, getattr(v, f)) for f, h in hints.items() if hasattr(v, f))
            return True
        return True
    concrete = _ABSTRACT.get(origin, origin)
    if concrete is tuple:
        if type(v) is not tuple:
            return False
        if len(args) == 2 and args[1] is Ellipsis:
            return all(conf(args[0], x) for x in v)
        return len(v) == len(args) and all(conf(a, x) for a, x in zip(args, v))
    if isinstance(concrete, type) and issubclass(concrete, dict):
        return type(v) is concrete and all(conf(args[0], k) and conf(args[1], x) for k, x in v.items())
    if isinstance(concrete, type):
        return type(v) is concrete and all(conf(args[0], x) for x in v)
    return True
