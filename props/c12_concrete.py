"""C12 — executable twin: key congruence over equal-but-distinct keys, and random operation histories compared
with the same operation after clearing every cache (bounded; a sample is also compared with a cold subprocess)."""
from __future__ import annotations

import copy
import datetime
import json
import random
import subprocess
import sys
import typing
import warnings

from props import typepool as tp
from props.concrete_util import clear_typelib_caches

UTC = datetime.timezone.utc


def outcome(f):
    try:
        return ("ok", f())
    except Exception as e:
        return ("raise", type(e).__name__)


def eq(a, b):
    if a[0] != b[0]:
        return False
    if a[0] == "raise":
        return a[1] == b[1]
    return tp.same(a[1], b[1]) or (repr(a[1]) == repr(b[1]) and type(a[1]) is type(b[1]))


def key_pairs():
    """(label, key a, key b, inputs): a == b and hash(a) == hash(b) but they are different annotations."""
    return [
        ("Union member order", typing.Union[int, str], typing.Union[str, int], ["1", 1, "x"]),
        ("Union member order (float/int)", typing.Union[float, int], typing.Union[int, float], ["1", 2, "2.5"]),
        ("Optional spelling", typing.Optional[str], typing.Union[None, str], ["null", None, "x"]),
        ("Literal member order", typing.Literal[1, "1"], typing.Literal["1", 1], ["1", 1]),
    ]


def search_keys(stop_at=None):
    import typelib
    warnings.simplefilter("ignore")
    fails, n = [], 0
    for label, a, b, inputs in key_pairs():
        for x in inputs:
            for first, second in ((a, b), (b, a)):
                n += 1
                clear_typelib_caches()
                cold = outcome(lambda: typelib.unmarshal(second, x))
                clear_typelib_caches()
                outcome(lambda: typelib.unmarshal(first, x))          # warm the caches with the equal key
                warm = outcome(lambda: typelib.unmarshal(second, x))
                if not eq(cold, warm):
                    fails.append({"kind": "key-congruence", "label": label, "first": repr(first), "second": repr(second), "input": repr(x),
                                  "failure": f"unmarshal({second}, {x!r}) = {cold!r} in a cold process but {warm!r} after unmarshal({first}, ...) ran first"})
                    if stop_at and len(fails) >= stop_at:
                        return fails, n
    clear_typelib_caches()
    return fails, n


def value_key_pairs():
    """(label, annotation, value a, value b): a == b and hash(a) == hash(b) but they are different values that marshal differently
    (or must at least marshal as they do in a cold process) - what a cache keyed by the *value* would conflate."""
    import decimal
    import fractions
    import pendulum
    td = datetime.timedelta
    return [
        ("timedelta vs pendulum duration in months", td, td(days=30), pendulum.duration(months=1)),
        ("pendulum durations in days vs months", td, pendulum.duration(days=30), pendulum.duration(months=1)),
        ("timedelta vs pendulum duration in years", td, td(days=365), pendulum.duration(years=1)),
        ("negative durations", td, -td(days=30), -pendulum.duration(months=1)),
        ("Decimal scale", decimal.Decimal, decimal.Decimal("1.0"), decimal.Decimal("1.00")),
        ("int vs bool", int, 1, True),
        ("float vs int", float, 1.0, 1),
        ("Fraction vs int", fractions.Fraction, fractions.Fraction(2, 1), 2),
        ("aware datetimes of one instant", datetime.datetime, datetime.datetime(2020, 1, 1, 12, tzinfo=UTC),
         datetime.datetime(2020, 1, 1, 13, tzinfo=datetime.timezone(datetime.timedelta(hours=1)))),
        ("list[timedelta]", list[td], [td(days=30)], [pendulum.duration(months=1)]),
    ]


def search_value_keys(stop_at=None):
    import typelib
    warnings.simplefilter("ignore")
    fails, n = [], 0
    for label, T, a, b in value_key_pairs():
        for first, second in ((a, b), (b, a)):
            for opname, op in (("marshal", lambda v: typelib.marshal(v, t=T)), ("encode", lambda v: typelib.encode(v, t=T))):
                n += 1
                clear_typelib_caches()
                cold = outcome(lambda: op(second))
                clear_typelib_caches()
                outcome(lambda: op(first))                       # warm every value-keyed cache with the equal value
                warm = outcome(lambda: op(second))
                if not eq(cold, warm):
                    fails.append({"kind": "value-key-congruence", "label": label, "op": opname, "first": repr(first), "second": repr(second),
                                  "failure": f"{opname}({second!r}, t={getattr(T, '__name__', T)}) = {cold!r} in a cold process but {warm!r} after {opname}({first!r}) ran first"})
                    if stop_at and len(fails) >= stop_at:
                        return fails, n
    clear_typelib_caches()
    return fails, n


def deep_mutate(x, rnd):
    if isinstance(x, list):
        x.append("MUTATED")
        for y in x[:2]:
            deep_mutate(y, rnd)
    elif isinstance(x, dict):
        x["MUTATED"] = 1
        for y in list(x.values())[:2]:
            deep_mutate(y, rnd)
    elif isinstance(x, set):
        x.add("MUTATED")
    elif hasattr(x, "__dict__") and not isinstance(x, type):
        for k, v in list(vars(x).items())[:2]:
            deep_mutate(v, rnd)


OPS_TYPES = ["list[int]", "dict[str,int]", "Point", "list[Point]", "Node", "dict[str,list[Decimal]]", "Optional[Point]", "tuple[int,str,float]",
             "TD", "set[str]", "list[list[int]]", "datetime", "timedelta", "Literal"]
EXTRA = [("list", list, [[1, 2, 3]]), ("dict", dict, [{"a": [1]}]), ("list[Any]", None, None)]


def history_search(seed=0, n_seq=60, seq_len=25, stop_at=1):
    import typelib
    warnings.simplefilter("ignore")
    rnd = random.Random(seed)
    pool = {name: (T, vals) for name, T, vals in tp.pool() if name in OPS_TYPES}
    pool["list"] = (list, [[1, 2, 3], ["a"]])
    pool["dict"] = (dict, [{"a": [1, 2]}])
    names = sorted(pool)
    fails, n, distinct = [], 0, set()
    for s in range(n_seq):
        clear_typelib_caches()
        held = []
        log = []
        for step in range(seq_len):
            op = rnd.choice(["marshal", "unmarshal-wire", "unmarshal-text", "encode", "decode", "mutate-result", "mutate-input", "clear", "build"])
            name = rnd.choice(names)
            T, vals = pool[name]
            v = copy.deepcopy(rnd.choice(vals))
            log.append((op, name))
            if op == "clear":
                clear_typelib_caches()
                continue
            if op == "build":
                outcome(lambda: (typelib.marshaller(T), typelib.unmarshaller(T)))
                continue
            if op == "mutate-result" and held:
                deep_mutate(rnd.choice(held), rnd)
                continue
            if op == "mutate-input":
                continue
            try:
                wire = typelib.marshal(copy.deepcopy(v), t=T)
            except Exception:
                continue
            if op == "marshal":
                f = lambda: typelib.marshal(copy.deepcopy(v), t=T)
            elif op == "unmarshal-wire":
                f = lambda: typelib.unmarshal(T, copy.deepcopy(wire))
            elif op == "unmarshal-text":
                try:
                    text = json.dumps(wire)
                except Exception:
                    continue
                f = lambda: typelib.unmarshal(T, text)
            elif op == "encode":
                f = lambda: typelib.encode(copy.deepcopy(v), t=T)
            elif op == "decode":
                try:
                    b = typelib.encode(copy.deepcopy(v), t=T)
                except Exception:
                    continue
                f = lambda: typelib.decode(T, b)
            else:
                continue
            got = outcome(f)
            n += 1
            distinct.add((op, name))
            if got[0] == "ok":
                held.append(got[1])
            # the same operation "alone": every cache cleared first
            saved = None
            clear_typelib_caches()
            alone = outcome(f)
            if not eq(got, alone):
                fails.append({"kind": "history", "seed": seed, "sequence": s, "step": step, "op": op, "type": name, "log": log[-8:],
                              "failure": f"{op}({name}) after history {log[-6:]} gave {got!r}; alone it gives {alone!r}"})
                if stop_at and len(fails) >= stop_at:
                    return fails, n, len(distinct)
            if got[0] == "ok" and alone[0] == "ok" and _shares(got[1], alone[1]):
                fails.append({"kind": "sharing", "seed": seed, "sequence": s, "step": step, "op": op, "type": name, "log": log[-8:],
                              "failure": f"{op}({name}): two calls returned results sharing a mutable container"})
                if stop_at and len(fails) >= stop_at:
                    return fails, n, len(distinct)
    clear_typelib_caches()
    return fails, n, len(distinct)


def _ids(x, acc):
    if isinstance(x, (list, dict, set)):
        acc.add(id(x))
    if isinstance(x, dict):
        for v in x.values():
            _ids(v, acc)
    elif isinstance(x, (list, tuple, set, frozenset)):
        for v in x:
            _ids(v, acc)
    elif hasattr(x, "__dict__") and not isinstance(x, type):
        for v in vars(x).values():
            _ids(v, acc)
    return acc


def _shares(a, b):
    return bool(_ids(a, set()) & _ids(b, set()))


def cold_process_sample():
    """A few operations compared with a genuinely cold interpreter."""
    import typelib
    code = ("import json, typing, typelib, warnings; warnings.simplefilter('ignore'); "
            "print(json.dumps([typelib.unmarshal(list, '[1, 2, 3]'), typelib.unmarshal(typing.Optional[int], '1'), "
            "typelib.marshal({'a': [1]}, t=dict), typelib.unmarshal(dict[str, int], '{\"a\": \"1\"}')]))")
    cold = json.loads(subprocess.run([sys.executable, "-c", code], capture_output=True, text=True, timeout=60).stdout)
    a = typelib.unmarshal(list, "[1, 2, 3]")
    a.append(4)
    typelib.unmarshal(typing.Union[None, int], "7")
    warm = [typelib.unmarshal(list, "[1, 2, 3]"), typelib.unmarshal(typing.Optional[int], "1"), typelib.marshal({"a": [1]}, t=dict),
            typelib.unmarshal(dict[str, int], '{"a": "1"}')]
    bad = [f"operation {i}: cold process {c!r}, after a history {w!r}" for i, (c, w) in enumerate(zip(cold, warm)) if c != w]
    return bad
