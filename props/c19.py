"""C19 — classes.slotted: the structural part of the statement, on the real `wrap` closure.

Proved by symbolic execution of slotted(...) / wrap(cls) for an arbitrary dataclass object `cls` (opaque: any number of
fields, any namespace, any bases), with the namespace as a symbolic dict and names as opaque values:
  S1  the new namespace's __slots__ is the tuple of the dataclass field names, followed by __dict__ / __weakref__ when
      requested, minus the names some class of the mro already has a slot for - in that order, nothing else;
  S2  every field name (and __dict__ / __weakref__) is erased from the new namespace, every other entry is kept unchanged;
  S3  __setstate__ is installed exactly when the dataclass is frozen and neither its namespace nor a base declares
      __getstate__ / __setstate__ (inherited hooks come as a pair);
  S4  the new class is built by cls's own metaclass from (cls.__name__, cls.__bases__, that namespace) and gets cls's
      qualified name and module;
  S5  the re-entrancy guard is released on return: starting from an empty `_stack`, wrap leaves it empty (so decorating any
      number of classes in any order never trips the guard).
Behavioural equivalence of instances (construction, comparison, hashing, repr, copy, pickle) is decided by CPython's class
machinery given S1-S4 and is NOT decided by contract: the twin replays it on synthesised dataclasses (bounded).
"""
from __future__ import annotations

import ast

import z3

from pyvc.core import (SV, SBool, SInt, SSeq, SDict, Obj, Val, VNone, BoolS, IntS, to_val, to_int, to_bool_term, cls_of, sub, cls_const,
                       class_axioms, Stub, PyRaise, Unsupported, VStr, str_id)
from pyvc.driver import Ob, cover_hyps
from pyvc.ground import Q
from pyvc.env import _MISSING
from pyvc.expr import BoundMethod, FilteredGen
from pyvc.interp import Interp
from pyvc.builtins_model import install
from pyvc.stmt import LoopSpec

MOD = "typelib.py.classes"
n_fields = z3.Function("n_fields", Val, IntS)
field_name = z3.Function("field_name", Val, IntS, Val)
inherited = z3.Function("some_mro_class_has_a_slot_named", Val, Val, BoolS)
frozen = z3.Function("dataclass_is_frozen", Val, BoolS)
reprf = z3.Function("repr", Val, Val)
attr = {n: z3.Function(f"cls.{n}", Val, Val) for n in ("__name__", "__bases__", "__qualname__", "__module__", "__class__")}
ArrB = z3.ArraySort(Val, BoolS)
n_bases = z3.Function("n_bases", Val, IntS)
base_at = z3.Function("base_at", Val, IntS, Val)
offset = {n: z3.Function(f"offset_of{n}", Val, IntS) for n in ("__dict__", "__weakref__")}
base_declares_state = z3.Function("a_base_declares___getstate___or___setstate__", Val, BoolS)
base_provides = {n: z3.Function(f"a_direct_base_already_provides{n}", Val, BoolS) for n in ("__dict__", "__weakref__")}


def S(text):
    return VStr(z3.IntVal(str_id(text)))


class Names:
    """an insertion-ordered dict used as an ordered set of names: the symbolic field names followed by concrete extras"""
    host_symbolic = True

    def __init__(self, cls_t):
        self.cls_t = cls_t
        self.extras = []

    def seq(self):
        base = SSeq(n_fields(self.cls_t), lambda i, c=self.cls_t: SV(field_name(c, to_int(i))), "list")
        if not self.extras:
            return base
        from pyvc.expr import concat_seqs
        return concat_seqs([base, SSeq(len(self.extras), lambda i, ex=tuple(self.extras): SV(_pick(ex, i)), "list")], "list")


def _pick(ex, i):
    if isinstance(i, int):
        return S(ex[i])
    it = to_int(i)
    acc = S(ex[-1])
    for j in range(len(ex) - 2, -1, -1):
        acc = z3.If(it == j, S(ex[j]), acc)
    return acc


class FnSet:
    host_symbolic = True

    def __init__(self, pred):
        self.pred = pred


class Stack:
    """typelib.py.classes._stack (module-global set of reprs): membership array"""
    host_symbolic = True

    def __init__(self, arr):
        self.arr = arr


class NewClass:
    host_symbolic = True

    def __init__(self, meta, name, bases, ns):
        self.meta, self.name, self.bases, self.ns = meta, name, bases, ns
        self.attrs = {}


class Meta:
    host_symbolic = True

    def __init__(self, t):
        self.t = t


def _bases_val(x):
    return x.src_val if isinstance(x, SSeq) and getattr(x, "src_val", None) is not None else to_val(x)


def make_interp(st):
    import dataclasses
    import warnings
    I = install(Interp())
    for n, f in attr.items():
        if n not in ("__class__", "__bases__"):
            I.sv_attr[n] = (lambda f: lambda I, path, obj: SV(f(obj.t)))(f)

    # cls.__bases__: a tuple of base objects, each with its own tp_dictoffset / tp_weaklistoffset (CPython: non-zero exactly when
    # instances of that base already carry a __dict__ / __weakref__) - executed symbolically, however the code asks about them
    def bases_of(I, path, obj):
        sq = SSeq(n_bases(obj.t), lambda i, c=obj.t: SV(base_at(c, to_int(i))), "tuple")
        sq.src_val = attr["__bases__"](obj.t)
        return sq
    I.sv_attr["__bases__"] = bases_of
    I.sv_attr["__dictoffset__"] = lambda I, path, obj: SInt(offset["__dict__"](obj.t))
    I.sv_attr["__weakrefoffset__"] = lambda I, path, obj: SInt(offset["__weakref__"](obj.t))
    I.sv_attr["__dict__"] = lambda I, path, obj: st["ns0"]
    I.sv_attr["__dataclass_params__"] = lambda I, path, obj: obj
    I.sv_attr["frozen"] = lambda I, path, obj: SBool(frozen(obj.t))
    I.builtin_models[repr] = lambda I, path, a, k: SV(reprf(to_val(a[0]))) if isinstance(a[0], SV) else _MISSING
    I.builtin_models[warnings.warn] = lambda I, path, a, k: None

    class FieldObj:
        host_symbolic = True

        def __init__(self, c, i):
            self.c, self.i = c, i
    I.builtin_models[dataclasses.fields] = lambda I, path, a, k: SSeq(n_fields(to_val(a[0])), lambda i, c=to_val(a[0]): FieldObj(c, to_int(i)), "tuple")
    I.builtin_models[set] = lambda I, path, a, k: FnSet(lambda x: z3.BoolVal(False)) if not a else _MISSING
    # taken by contract for exactly these expressions (CPython: a class whose tp_dictoffset / tp_weaklistoffset is non-zero gives
    # its instances a __dict__ / __weakref__ - true of every class without __slots__): "some direct base already provides one"
    # ('\u00a7' marks the one variable the expression is about - whatever it is called where the expression stands)
    I.expr_contracts = {
        # some class of the mro other than cls itself and object declares a state method in its own namespace
        "any((param in vars(c) for c in \u00a7.__mro__[1:-1] for param in ('__getstate__', '__setstate__')))":
            lambda I, env, path, subject=None: SBool(base_declares_state(to_val(subject))),
    }
    I.stubs[f"{MOD}._stack"] = st["stack"]

    def dictcomp(I, node, env, path, src_v):
        # {f.name: ... for f in dataclasses.fields(cls) if f.name}: an ordered set of the field names (names are non-empty identifiers)
        if isinstance(src_v, SSeq) and ast.unparse(node.key) == "f.name":
            nm = Names(st["cls"])
            st["cur"]["names"] = nm
            return nm
        return _MISSING
    I.hooks["dictcomp"] = dictcomp
    prev_m = I.hooks.get("method")

    def method(I, path, recv, name, args, kw):
        if isinstance(recv, SV) and name == "mro":
            return SSeq(path.fresh("mro_len", IntS), lambda i: SV(path.fresh("mro_class")), "list")
        if isinstance(recv, FnSet) and name == "union":
            # set().union(*(getattr(c, '__slots__', ()) for c in cls.mro())): the names some class of the mro has a slot for
            return FnSet(lambda x, c=st["cls"]: inherited(c, x))
        if isinstance(recv, Stack):
            if name == "add":
                recv.arr = z3.Store(recv.arr, to_val(args[0]), z3.BoolVal(True))
            elif name == "clear":
                recv.arr = z3.K(Val, z3.BoolVal(False))
            elif name == "discard":
                recv.arr = z3.Store(recv.arr, to_val(args[0]), z3.BoolVal(False))
            else:
                raise Unsupported(f"_stack.{name}")
            st["cur"]["stack_arr"] = recv.arr
            return None
        if isinstance(recv, SDict) and name == "pop":
            key = to_val(args[0])
            has, val = recv.arrays
            out = SV(z3.If(z3.Select(has, key), z3.Select(val, key), to_val(args[1]) if len(args) > 1 else VNone))
            st["pops"] = st.get("pops", 0) + 1
            new = SDict.from_arrays(z3.Store(has, key, z3.BoolVal(False)), val)
            recv.has, recv.get, recv.arrays = new.has, new.get, new.arrays
            return out
        return prev_m(I, path, recv, name, args, kw) if prev_m else _MISSING
    I.hooks["method"] = method
    orig_getattr = I.getattr

    def getattr_(obj, a, path, env=None):
        if isinstance(obj, FieldObj) and a == "name":
            return SV(field_name(obj.c, obj.i))
        if isinstance(obj, (FnSet, Stack)):
            return BoundMethod(obj, a)
        if isinstance(obj, SDict) and a == "pop":
            return BoundMethod(obj, a)
        if isinstance(obj, SV) and a == "mro":
            return BoundMethod(obj, a)
        return orig_getattr(obj, a, path, env)
    I.getattr = getattr_

    def getattr_default(I, path, obj, name, default):
        if isinstance(obj, SV) and name == "__slots__":
            return SSeq(path.fresh("n_slots", IntS), lambda i: SV(path.fresh("slot")), "tuple")
        return _MISSING
    I.hooks["getattr_default"] = getattr_default

    def contains(I, path, container, item):
        if isinstance(container, FnSet):
            return SBool(container.pred(to_val(item)))
        if isinstance(container, Stack):
            return SBool(z3.Select(container.arr, to_val(item)))
        if isinstance(container, SV) and isinstance(item, str):       # constants.PKG_NAME not in cls.__module__
            return SBool(z3.Function(f"text_contains:{item}", Val, BoolS)(container.t))
        return _MISSING
    I.hooks["contains"] = contains
    prev_iter = I.hooks.get("iter")
    I.hooks["iter"] = lambda I, path, v: v.seq() if isinstance(v, Names) else (prev_iter(I, path, v) if prev_iter else _MISSING)

    def setitem(I, path, obj, idx, v):
        if isinstance(obj, Names):
            if not isinstance(idx, str):
                raise Unsupported("symbolic key stored into the field-name dict")
            if idx not in obj.extras:
                obj.extras.append(idx)
            return True
        if isinstance(obj, SDict) and isinstance(idx, str) and idx in ("__slots__", "__setstate__"):
            # host values (a tuple built from a generator / a closure): kept aside, a marker goes into the symbolic namespace
            st["cur"]["stored"][idx] = v
            marker = z3.Const(f"value_of_{idx}", Val)
            has, val = obj.arrays
            new = SDict.from_arrays(z3.Store(has, S(idx), z3.BoolVal(True)), z3.Store(val, S(idx), marker))
            obj.has, obj.get, obj.arrays = new.has, new.get, new.arrays
            return True
        return _MISSING
    I.hooks["setitem_pre"] = setitem

    from pyvc.expr import SCls
    orig_call_value = I.call_value

    def call_value(f, args, kwargs, path, node=None, env=None):
        if isinstance(f, SCls) and len(args) == 3:            # cls.__class__(name, bases, namespace): the metaclass builds the new class
            ns = args[2]
            snap = SDict.from_arrays(*ns.arrays) if isinstance(ns, SDict) and ns.arrays else ns
            nc = NewClass(f.t, to_val(args[0]), _bases_val(args[1]), snap)
            nc.names = st["cur"].get("names")
            return nc
        return orig_call_value(f, args, kwargs, path, node=node, env=env) if node is not None or env is not None else orig_call_value(f, args, kwargs, path)
    I.call_value = call_value

    def call_opaque(I, path, f, args, kwargs):
        if isinstance(f, Meta):
            ns = args[2]
            snap = SDict.from_arrays(*ns.arrays) if isinstance(ns, SDict) else ns
            nc = NewClass(f.t, to_val(args[0]), _bases_val(args[1]), snap)
            nc.names = st["cur"].get("names")
            return nc
        return _MISSING
    I.hooks["call_opaque"] = call_opaque

    orig_tuple = I.e_Tuple

    def e_Tuple(node, env, path, merge):
        # (*(f for f in field_names if ...),): a tuple built from a filtered generator is kept as that generator
        if len(node.elts) == 1 and isinstance(node.elts[0], ast.Starred) and isinstance(node.elts[0].value, ast.GeneratorExp):
            v = I.eval(node.elts[0].value, env, path, merge)
            if isinstance(v, FilteredGen):
                return (v,)
        return orig_tuple(node, env, path, merge)
    I.e_Tuple = e_Tuple

    def setattr_hook(I, path, obj, a, v):
        if isinstance(obj, NewClass):
            obj.attrs[a] = to_val(v)
            return True
        return _MISSING
    I.hooks["setattr"] = setattr_hook
    return I


# ----------------------------------------------------------------------------- obligations
CLAUSES = ["S1-slots-are-the-field-names-plus-requested-extras-minus-inherited-in-order",
           "S2-field-names-and-dict-weakref-are-erased-everything-else-is-kept",
           "S3-setstate-installed-exactly-for-frozen-classes-without-user-state-methods",
           "S4-built-by-the-metaclass-from-name-bases-namespace-with-qualname-and-module-restored",
           "S5-the-guard-is-released-and-never-trips-from-an-empty-stack"]


def shape_obligations(chk):
    """the two expressions the symbolic run takes by contract rather than executes: checked to be the ones the contracts describe"""
    I = install(Interp())
    mod, chain, node = I.src.find_def(f"{MOD}.slotted")
    def canon(e):
        """the expression with its free names replaced by their order of first appearance (so renaming locals does not matter)"""
        import copy
        e = copy.deepcopy(e)
        seen = {}
        keep = {"set", "getattr", "dataclasses", "repr", "dict"}
        for n in ast.walk(e):
            if isinstance(n, ast.Name) and n.id not in keep:
                n.id = seen.setdefault(n.id, f"v{len(seen)}")
            if isinstance(n, ast.arg):
                n.arg = seen.setdefault(n.arg, f"v{len(seen)}")
        return ast.unparse(e)
    values = {canon(a.value) for a in ast.walk(node) if isinstance(a, ast.Assign) and len(a.targets) == 1}
    want = {"inherited slots": "set().union(*(getattr(v0, '__slots__', ()) for v0 in v1.mro()))",
            "field names": "{v0.name: ... for v0 in dataclasses.fields(v1) if v0.name}", "guard key": "repr(v0)", "namespace copy": "{**v0.__dict__}"}
    bad = {k: v for k, v in want.items() if v not in values}
    chk.add(Ob(f"{MOD}.slotted", "inherited-slots-are-collected-over-the-whole-mro-and-field-names-come-from-dataclasses.fields", "ast", [], z3.BoolVal(not bad), {"differs": bad}))


def obligations(chk):
    func = f"{MOD}.slotted"
    shape_obligations(chk)
    for dflag in (False, True):
        for wflag in (False, True):
            _run(chk, func, dflag, wflag)


def _run(chk, func, dflag, wflag):
    st = {}
    st["stack"] = Stack(z3.K(Val, z3.BoolVal(False)))
    I = make_interp(st)
    wrap_q = f"{func}.<locals>.wrap"

    isname = z3.Function("is_an_erased_name", Val, BoolS)       # x is one of field_names (fields + requested extras): definitional
    name_wit = z3.Function("index_among_names", Val, IntS)

    def name_axioms(names, nm_obj=None):
        n = names.length if not isinstance(names.length, int) else z3.IntVal(names.length)
        cls_t = st["cls"]
        # introduction: every field name is an erased name (triggered by the field_name applications of the query - an
        # untriggered schema over all Int terms made the proof depend on how many Int terms happen to be around), and so is
        # every requested extra (ground facts)
        intro = [Q([IntS], lambda i: z3.Implies(z3.And(i >= 0, i < n_fields(cls_t)), isname(field_name(cls_t, i))),
                   trigger=field_name, pick=[1], name="isname-intro-fields")]
        intro += [isname(S(e)) for e in (nm_obj.extras if nm_obj is not None else [])]
        return intro + [Q([IntS], lambda i: z3.Implies(z3.And(i >= 0, i < n), isname(to_val(names.at(SInt(i))))), name="isname-intro"),
                        Q([Val], lambda x: z3.Implies(isname(x), z3.And(name_wit(x) >= 0, name_wit(x) < n, to_val(names.at(SInt(name_wit(x)))) == x)), trigger=isname, name="isname-elim")]

    def havoc(I, path, env, k):
        d = env.lookup(env.find(lambda v: isinstance(v, SDict), "namespace copy (symbolic dict)"))
        st["cur"]["pre_loop"] = d.arrays
        new = SDict.from_arrays(path.fresh("ns_has", ArrB), path.fresh("ns_val", z3.ArraySort(Val, Val)))
        d.has, d.get, d.arrays = new.has, new.get, new.arrays
        nm_obj = env.lookup(env.find(lambda v: isinstance(v, Names), "ordered field-name dict"))
        for a in name_axioms(nm_obj.seq(), nm_obj):
            path.assume(a)

    def inv(I, path, env, k):
        d = env.lookup(env.find(lambda v: isinstance(v, SDict), "namespace copy (symbolic dict)"))
        names = env.lookup(env.find(lambda v: isinstance(v, Names), "ordered field-name dict")).seq()
        has, val = d.arrays
        has0, val0 = st["cur"].setdefault("pre_loop", d.arrays)
        return [Q([IntS], lambda j: z3.Implies(z3.And(j >= 0, j < k), z3.Not(z3.Select(has, to_val(names.at(SInt(j)))))), name="names-so-far-are-erased"),
                Q([Val], lambda x: z3.Implies(z3.Select(has, x), z3.And(z3.Select(has0, x), z3.Select(val, x) == z3.Select(val0, x))), name="nothing-is-added-or-changed"),
                Q([Val], lambda x: z3.Implies(z3.And(z3.Select(has0, x), z3.Not(z3.Select(has, x))), isname(x)), name="only-names-are-erased")]
    I.loop_specs[(wrap_q, 0)] = LoopSpec("erase", havoc, inv)
    I.loop_specs[(func, 0)] = I.loop_specs[(wrap_q, 0)]

    def mk(I, path):
        cls = path.fresh("cls")
        st["cls"] = cls
        st["stack"].arr = z3.K(Val, z3.BoolVal(False))           # history invariant: the guard set is empty between calls
        st["ns0"] = SDict.from_arrays(path.fresh("ns0_has", ArrB), path.fresh("ns0_val", z3.ArraySort(Val, Val)))
        path.assume(n_fields(cls) >= 0)
        path.assume(cls != VNone)
        path.assume(n_bases(cls) >= 0)
        from pyvc.ground import exists_witness
        for nm in ("__dict__", "__weakref__"):      # definition: some direct base has a non-zero offset
            path.assume(base_provides[nm](cls) == exists_witness(path, n_bases(cls), lambda j, nm=nm: offset[nm](base_at(cls, j)) != 0, "base_provides" + nm))
        # domain: no dataclass field is named like the special namespace entries wrap itself writes or erases
        path.assume(Q([IntS], lambda i: z3.And(*[field_name(cls, i) != S(n) for n in ("__slots__", "__setstate__", "__getstate__", "__dict__", "__weakref__")]),
                      trigger=field_name, pick=[1], name="field-names-are-not-special-entries"))
        cur = {"cls": cls, "stored": {}, "stack_arr": st["stack"].arr, "ns0": st["ns0"].arrays}
        st["cur"] = cur
        return [SV(cls)], {"dict": dflag, "weakref": wflag}, cur
    results = I.run_function(func, mk, max_paths=200)
    for pi, (path, out, obls, writes, cur) in enumerate(results):
        _one(chk, func, f"dict={dflag},weakref={wflag}:p{pi}", path, out, obls, cur, dflag, wflag)
    if results:
        chk.add(Ob(func, f"cover(dict={dflag},weakref={wflag})", "pre", cover_hyps(results), z3.BoolVal(True), expect="sat"))
    chk.trusted.update(I.assumed_used)


def _one(chk, func, pid, path, out, obls, cur, dflag, wflag):
    hy = path.hyps
    for nm, pc, goal in obls:
        chk.add(Ob(func, nm, pid, pc, goal, {"split": True}))
    if out.kind == "end":
        return
    if out.kind != "ret" or not isinstance(out.value, NewClass):
        for nm in CLAUSES:
            chk.add(Ob(func, nm, pid, hy, z3.BoolVal(False), {"outcome": out.kind, "why": str(out.value if out.kind != "raise" else out.exc.exc_cls)[:200]}))
        return
    nc, cls = out.value, cur["cls"]
    has, val = nc.ns.arrays
    has0, val0 = cur["ns0"]
    # ---- S1: an extra is requested by its flag and added unless a direct base already provides it (no second __dict__ / __weakref__)
    sl = cur["stored"].get("__slots__")
    got = list(getattr(nc.names, "extras", ()))
    ok_shape, why = _slots_shape(sl, nc.names, got)
    want_extras = z3.And(z3.BoolVal("__dict__" in got) == z3.And(z3.BoolVal(dflag), z3.Not(base_provides["__dict__"](cls))),
                         z3.BoolVal("__weakref__" in got) == z3.And(z3.BoolVal(wflag), z3.Not(base_provides["__weakref__"](cls))),
                         z3.BoolVal(got == [x for x in ("__dict__", "__weakref__") if x in got]))
    chk.add(Ob(func, CLAUSES[0], pid, hy, z3.And(z3.BoolVal(ok_shape), want_extras, z3.Select(has, S("__slots__"))), {"shape": why}))
    # ---- S2
    x = path.fresh("x")
    j = path.fresh("j", IntS)
    is_field = z3.Function("is_a_field_name", Val, BoolS)
    wit = z3.Function("field_index_of", Val, IntS)
    fld_intro = Q([IntS], lambda i: z3.Implies(z3.And(i >= 0, i < n_fields(cls)), is_field(field_name(cls, i))), trigger=field_name, pick=[1], name="field-intro")
    fld_elim = Q([Val], lambda y: z3.Implies(is_field(y), z3.And(wit(y) >= 0, wit(y) < n_fields(cls), field_name(cls, wit(y)) == y)), trigger=is_field, name="field-elim")
    special = [S("__slots__"), S("__setstate__"), S("__dict__"), S("__weakref__")]
    erased = z3.Or(is_field(x), x == S("__dict__"), x == S("__weakref__"))
    chk.add(Ob(func, CLAUSES[1], pid, hy + [fld_intro, fld_elim, j >= 0, j < n_fields(cls)],
               z3.And(z3.Not(z3.Select(has, field_name(cls, j))), z3.Not(z3.Select(has, S("__dict__"))), z3.Not(z3.Select(has, S("__weakref__"))),
                      z3.Implies(z3.And(z3.Not(erased), x != S("__slots__"), x != S("__setstate__")),
                                 z3.And(z3.Select(has, x) == z3.Select(has0, x), z3.Implies(z3.Select(has0, x), z3.Select(val, x) == z3.Select(val0, x)))))))
    # ---- S3
    user_state = z3.Or(z3.And(z3.Select(has0, S("__getstate__")), z3.Not(is_field(S("__getstate__")))),
                       z3.And(z3.Select(has0, S("__setstate__")), z3.Not(is_field(S("__setstate__")))))
    installed = "__setstate__" in cur["stored"]
    from pyvc.core import Closure
    is_fix = installed and isinstance(cur["stored"]["__setstate__"], Closure) and cur["stored"]["__setstate__"].node.name == "_slots_setstate"
    chk.add(Ob(func, CLAUSES[2], pid, hy + [fld_intro, fld_elim],
               z3.And(z3.BoolVal(installed == is_fix),
                      z3.BoolVal(installed) == z3.And(frozen(cls), z3.Not(user_state), z3.Not(base_declares_state(cls))))))
    # ---- S4
    chk.add(Ob(func, CLAUSES[3], pid, hy, z3.And(nc.meta == cls_of(cls), nc.name == attr["__name__"](cls), nc.bases == attr["__bases__"](cls),
                                                 nc.attrs.get("__qualname__", VNone) == attr["__qualname__"](cls),
                                                 nc.attrs.get("__module__", VNone) == attr["__module__"](cls))))
    # ---- S5
    y = path.fresh("y")
    chk.add(Ob(func, CLAUSES[4], pid, hy, z3.Not(z3.Select(cur["stack_arr"], y))))


def _slots_shape(sl, names, extras):
    """the stored __slots__ value is  (*(f for f in field_names if f not in inherited_slots),)  over the field names followed by the extras"""
    if names is None or list(names.extras) != list(extras):
        return False, f"field-name dict extras {getattr(names, 'extras', None)!r} != {extras!r}"
    if isinstance(sl, tuple) and len(sl) == 1:
        sl = sl[0]
    fg = getattr(sl, "source_gen", None) or sl
    if not isinstance(fg, FilteredGen):
        return False, f"__slots__ value is {sl!r}"
    cond = [ast.unparse(c) for c in fg.gen.ifs]
    c0 = fg.gen.ifs[0] if len(fg.gen.ifs) == 1 else None
    # the filter is  <element> not in <the set of inherited slot names>  (identified by what the name holds, not by how it is spelled)
    filt_ok = (isinstance(c0, ast.Compare) and len(c0.ops) == 1 and isinstance(c0.ops[0], ast.NotIn) and isinstance(c0.left, ast.Name)
               and isinstance(fg.gen.target, ast.Name) and c0.left.id == fg.gen.target.id and isinstance(c0.comparators[0], ast.Name)
               and isinstance(fg.env.lookup(c0.comparators[0].id), FnSet))
    ok = ast.unparse(fg.node.elt) == ast.unparse(fg.gen.target) and filt_ok and getattr(fg, "src_host", None) is names
    return ok, f"elt={ast.unparse(fg.node.elt)} ifs={cond} src={type(getattr(fg, 'src_host', None)).__name__} extras={names.extras}"
