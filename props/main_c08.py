"""C08 check driver."""
from pyvc.driver import Check
from props import c08, c08_concrete

ASSUMPTIONS = [
    "Member routines are arbitrary: run / run_raises / run_exc are uninterpreted; they raise only Exception subclasses "
    "(KeyboardInterrupt / SystemExit are not rejections).",
    "Callee contracts: inspection.args(t) = declared members in order; inspection.isoptionaltype(t) <=> None is a member "
    "(C17); context[k] = lookup or KeyError (C16). Constructor precondition: every member lookup succeeds (C15).",
    "contextlib.suppress(C) swallows exactly the exceptions whose class is a subclass of C.",
    "Declared order is typing's __args__ order (typing de-duplicates and flattens unions; that is Python's, not typelib's).",
]


def searcher(ob):
    fails, n, d = c08_concrete.search(stop_at=1, n_random=60)
    if fails:
        return {"found": True, "kind": "c08-case", "case": fails[0], "searched": n}
    return {"found": False, "searched": n, "engine": ob.meta.get("engine"),
            "note": "bounded search over the member pool found no disagreement with the per-member routines"}


def replay(data):
    case = data.get("case")
    if not case:
        print("replay: no concrete input recorded for", data.get("obligation"), data.get("solver"))
        return 1
    r = c08_concrete.run_recorded(case)
    print("replay", case["members"], "inputs", case["input_order"], "marshal" if case["marshal"] else "unmarshal", "->", r)
    return 1 if r else 0


def main(tier, seed):
    chk = Check("C08", tier, seed)
    chk.assumptions = list(ASSUMPTIONS)
    c08.obligations(chk)
    chk.trusted.add("meta: __init__ clauses (ordered_routines = declared members) + __call__ clauses (first acceptor "
                    "over ordered_routines) compose to the statement")
    if tier in ("quick", "thorough"):
        fails, n, d = c08_concrete.search(seed=seed, stop_at=3, n_random=400 if tier == "thorough" else 60)
        chk.bounded.append({"name": "bounded cross-check: unions over the 12-type pool x input pool vs per-member routines",
                            "evaluations": n, "distinct_nontrivial": d, "failures": len(fails),
                            "rule": "permutations of a 5-type core with None at every position (len 2-3) + random tuples (len 2-4); x 38 inputs; unmarshal and marshal"})
        for f in fails:
            chk.violation("bounded-cross-check", {"found": True, "kind": "c08-case", "case": f}, True)
    chk.resolve_failures(searcher)
    return chk.finish()
