"""C10 check driver."""
import warnings

from pyvc.driver import Check
from props import c10, c10_concrete

ASSUMPTIONS = [
    "Python ints are mathematical integers (exact).",
    "inspect.signature yields parameters ordered PO* PK* VP? KO* VK? with distinct names (Python enforces this at def time).",
    "Precondition of the routing clauses: every unmarshaller call returns (conversion failures propagate unchanged and are outside the statement).",
    "unmarshals.unmarshaller(annotation) is a function of the annotation (C12 obligation K) and returns a routine object (never None).",
    "Quantified hypotheses are instantiated by trigger matching (sound for proving; a sat answer is only a candidate and is replayed on the real code).",
    "No monkey-patching / single thread; dict and tuple builtins behave per the language reference.",
]


def searcher(ob):
    """Concrete failing input for a failed obligation: bounded search over the matrix row."""
    warnings.simplefilter("ignore")
    row = ob.meta.get("row")
    if ".wrap" in ob.func or "BoundRoutine" in ob.func or "bind" in ob.func.split(".")[-1]:
        hist = c10_concrete.history_cases()
        if hist:
            return {"found": True, "kind": "c10-history", "bad": hist}
    fails, n, d = c10_concrete.search(row=row, stop_at=1)
    if not fails and row is not None:
        fails, n2, d2 = c10_concrete.search(row=None, stop_at=1)
        n += n2
    if fails:
        return {"found": True, "kind": "c10-call", "case": fails[0], "searched": n}
    return {"found": False, "searched": n, "note": "bounded search (signatures <= 5 parameters) found no failing call"}


def replay(data):
    warnings.simplefilter("ignore")
    case = data.get("case")
    if data.get("kind") == "c10-postponed":
        bad = c10_concrete.postponed_annotation_case()
        print("replay postponed annotations ->", bad)
        return 1 if bad else 0
    if data.get("kind") == "c10-history":
        bad = c10_concrete.history_cases()
        print("replay bind/wrap sequences ->", bad)
        return 1 if bad else 0
    if not case:
        print("replay: no concrete input recorded for", data.get("obligation"))
        print(data.get("solver"))
        return 1
    r = c10_concrete.run_case(case)
    print("replay", case["src"].splitlines()[0], "nargs=", case["nargs"], "kwargs=", case["kwargs"], "->", r)
    return 1 if r else 0


def main(tier, seed):
    chk = Check("C10", tier, seed)
    chk.assumptions = list(ASSUMPTIONS)
    I = c10.make_interp()
    matrix = c10.get_binding_obligations(chk, I)
    for flags, clsname in matrix.items():
        c10.binder_obligations(chk, I, flags, clsname)
        c10.binder_obligations(chk, I, flags, clsname, restrict_accept=False)
    c10.glue_obligations(chk)
    c10.bind_obligations(chk)
    c10.binding_init_obligations(chk)
    c10.binding_lookup_obligations(chk)
    c10.noop_lemma(chk)
    chk.trusted.update(I.assumed_used)
    chk.trusted.add("meta: routing clauses (per binder x matrix row) + _get_binding exit clauses + glue clauses "
                    "compose to the statement by transitivity of equality (paper argument)")
    if tier in ("quick", "thorough"):
        warnings.simplefilter("ignore")
        fails, n, d = c10_concrete.search(seed=seed, stop_at=5, limit=None if tier == "thorough" else 4000)
        chk.bounded.append({"name": "bounded cross-check: all signatures <= 5 parameters x call shapes on the real code",
                            "evaluations": n, "distinct_nontrivial": d, "failures": len(fails),
                            "rule": "every (shape, annotation rotation, defaults, call shape incl. keywords named self / __binding / args / kwargs ..., bind|wrap) for plain functions; "
                                    "signatures <= 3 parameters for bound methods (incl. receiver collected by *args), class / static methods, callable instances "
                                    "(hashable or not) and classes (with and without __call__); distinct by shape+call+flavour"})
        for f in fails:
            chk.violation("bounded-cross-check :: " + f["row"] + " :: " + f.get("flavour", "function"),
                          {"found": True, "kind": "c10-call", "case": f}, True)
        hist = c10_concrete.history_cases()
        chk.bounded.append({"name": "bounded cross-check: bind / wrap applied in sequence (subclasses and instances of wrapped classes, "
                                    "wrapping / binding twice) on the real code", "evaluations": 9, "failures": len(hist)})
        if hist:
            chk.violation("bounded-cross-check :: bind-wrap-sequences", {"found": True, "kind": "c10-history", "bad": hist}, True)
        post = c10_concrete.postponed_annotation_case()
        kf = [k for k in Check.known_findings("C10") if k["id"] == "C10-postponed-annotations"]
        if post and kf:
            chk.kf_lines.append(f"KNOWN-FINDING: property=C10 {kf[0]['print']}")
        elif post:
            chk.violation("bounded-cross-check :: postponed-annotations", {"found": True, "kind": "c10-postponed", "bad": post}, True)
        bad = c10_concrete.metadata_case()
        if bad:
            chk.violation("wrap :: metadata", {"found": True, "kind": "c10-metadata", "bad": bad}, True)
    chk.resolve_failures(searcher)
    return chk.finish()
