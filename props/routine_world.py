"""Shared symbolic world for the routine classes (unmarshals/routines.py, marshals/routines.py).

Annotations, contexts and routines are opaque values; what the constructors and __call__ bodies
may rely on is exactly the callee contracts stated here:

  inspection.args(t, evaluate=..)  -> the member annotations  (arg(t, j), j < nargs(t))
  inspection.origin(t)             -> origin(t)
  inspection.isoptionaltype(t)     -> nullable(t)
  context[k]                       -> ctx(k) when ctx_has(k) else KeyError      (C16's contract)
  context.get(k)                   -> ctx(k) when ctx_has(k) else None          (C16's contract)
  routine(v)                       -> run(routine, v) | raises run_exc(routine, v)
"""
from __future__ import annotations

import z3

from pyvc.core import (SV, SInt, SBool, SSeq, SDict, Obj, Val, VNone, BoolS, IntS, Cls, to_val, to_int, PyRaise,
                       Unsupported, Stub, run, run_raises, run_exc, cls_of, sub, cls_const)
from pyvc.ground import Q
from pyvc.interp import Interp
from pyvc.builtins_model import install
from pyvc.env import _MISSING

nargs = z3.Function("nargs", Val, IntS)
arg = z3.Function("arg", Val, IntS, Val)
origin_f = z3.Function("origin", Val, Val)
nullable = z3.Function("nullable", Val, BoolS)
ctx_has = z3.Function("ctx_has", Val, Val, BoolS)     # (context, key)
ctx_val = z3.Function("ctx_val", Val, Val, Val)


class Ctx:
    """A TypeContext seen through C16's contract."""
    host_symbolic = True

    def __init__(self, ident):
        self.ident = ident


def world_axioms():
    return [Q([Val], lambda t: nargs(t) >= 0, trigger=nargs, name="nargs-nonneg")]


def make_interp():
    I = install(Interp())

    def args_stub(I, path, a, k):
        t = to_val(a[0])
        n = nargs(t)
        return SSeq(n, lambda j, t=t: SV(arg(t, to_int(j))), "tuple")
    I.stubs["typelib.py.inspection.args"] = Stub("inspection.args", args_stub,
                                                 "args(t): the member annotations of t as a tuple (C17 contract)")
    I.stubs["typelib.py.inspection.origin"] = Stub(
        "inspection.origin", lambda I, p, a, k: SV(origin_f(to_val(a[0]))), "origin(t) (C17 contract)")
    I.stubs["typelib.py.inspection.isoptionaltype"] = Stub(
        "inspection.isoptionaltype", lambda I, p, a, k: SBool(nullable(to_val(a[0]))),
        "isoptionaltype(t) <=> None is a member of the union t (C17 contract)")

    def obj_getitem(I, path, obj, idx, merge=False):
        if isinstance(obj, Ctx):
            k = to_val(idx)
            has = ctx_has(obj.ident, k)
            if merge or I.merging:
                I.note_elem_raise(z3.Not(has))
                return SV(ctx_val(obj.ident, k))
            if path.branch(has):
                return SV(ctx_val(obj.ident, k))
            raise PyRaise(KeyError, payload=idx)
        raise Unsupported(f"subscript of {obj!r}")
    orig_subscript = I.subscript

    def subscript(obj, idx, path, merge=False):
        if isinstance(obj, Ctx):
            return obj_getitem(I, path, obj, idx, merge)
        return orig_subscript(obj, idx, path, merge)
    I.subscript = subscript

    def method(I, path, recv, name, args, kwargs):
        if isinstance(recv, Ctx) and name == "get":
            k = to_val(args[0])
            has = ctx_has(recv.ident, k)
            default = args[1] if len(args) > 1 else None
            if path.branch(has):
                return SV(ctx_val(recv.ident, k))
            return default
        return _MISSING
    I.hooks["method"] = method
    orig_getattr = I.getattr

    def getattr_(obj, attr, path, env=None):
        if isinstance(obj, Ctx):
            from pyvc.expr import BoundMethod
            return BoundMethod(obj, attr)
        return orig_getattr(obj, attr, path, env)
    I.getattr = getattr_
    return I


def routine_self(I, modname, clsname, fields):
    cv = I.mods.resolve(modname, clsname)
    slf = Obj(cv, dict(fields))
    slf.sym_fields = None
    return slf


def routines_seq(path, name="r"):
    """A symbolic list of routine objects (ordered_routines): length n >= 0."""
    n = path.fresh("n_" + name, IntS)
    path.assume(n >= 0)
    f = z3.Function(name, IntS, Val)
    return n, f, SSeq(n, lambda j: SV(f(to_int(j))), "list")
