"""Shared symbolic world for the routine classes (unmarshals/routines.py, marshals/routines.py).

Annotations, contexts and routines are opaque values; what the constructors and __call__ bodies
may rely on is exactly the callee contracts stated here:

  inspection.args(t, evaluate=..)  -> the member annotations  (arg(t, j), j < nargs(t))
  inspection.origin(t)             -> origin(t)
  inspection.isoptionaltype(t)     -> nullable(t)
  context[k]                       -> ctx(k) when ctx_has(k) else KeyError      (C16's contract)
  context.get(k)                   -> ctx(k) when ctx_has(k) else None          (C16's contract)
  routine(v)                       -> run(routine, v) | raises run_exc(routine, v)
"""
from __future__ import annotations

import z3

from pyvc.core import (SV, SInt, SBool, SSeq, SDict, Obj, Val, VNone, BoolS, IntS, Cls, to_val, to_int, PyRaise,
                       Unsupported, Stub, run, run_raises, run_exc, cls_of, sub, cls_const)
from pyvc.ground import Q
from pyvc.interp import Interp
from pyvc.builtins_model import install
from pyvc.env import _MISSING

nargs = z3.Function("nargs", Val, IntS)
arg = z3.Function("arg", Val, IntS, Val)
origin_f = z3.Function("origin", Val, Val)
nullable = z3.Function("nullable", Val, BoolS)
ctx_has = z3.Function("ctx_has", Val, Val, BoolS)     # (context, key)
ctx_val = z3.Function("ctx_val", Val, Val, Val)


class Ctx:
    """A TypeContext seen through C16's contract."""
    host_symbolic = True

    def __init__(self, ident):
        self.ident = ident


def world_axioms():
    return [Q([Val], lambda t: nargs(t) >= 0, trigger=nargs, name="nargs-nonneg")]


def make_interp():
    I = install(Interp())

    def args_stub(I, path, a, k):
        t = to_val(a[0])
        n = nargs(t)
        return SSeq(n, lambda j, t=t: SV(arg(t, to_int(j))), "tuple")
    I.stubs["typelib.py.inspection.args"] = Stub("inspection.args", args_stub,
                                                 "args(t): the member annotations of t as a tuple (C17 contract)")
    I.stubs["typelib.py.inspection.origin"] = Stub(
        "inspection.origin", lambda I, p, a, k: SV(origin_f(to_val(a[0]))), "origin(t) (C17 contract)")
    I.stubs["typelib.py.inspection.isoptionaltype"] = Stub(
        "inspection.isoptionaltype", lambda I, p, a, k: SBool(nullable(to_val(a[0]))),
        "isoptionaltype(t) <=> None is a member of the union t (C17 contract)")

    # every other one-argument is* predicate of inspection.py is, for a routine, a callee taken by contract: a total boolean
    # function of its argument (C17 states what each one answers).  Routines only branch on them or store the answer.
    import ast as _ast
    for node in I.src.toplevel("typelib.py.inspection"):
        if isinstance(node, _ast.FunctionDef) and node.name.startswith("is") and len(node.args.args) == 1 and not node.args.kwonlyargs \
                and f"typelib.py.inspection.{node.name}" not in I.stubs:
            uf_ = z3.Function(f"inspection_{node.name}", Val, BoolS)
            I.stubs[f"typelib.py.inspection.{node.name}"] = Stub(
                f"inspection.{node.name}", (lambda u: lambda I, p, a, k: SBool(u(to_val(a[0]))))(uf_),
                f"{node.name}(t): a total predicate of its argument (C17 contract)")

    def obj_getitem(I, path, obj, idx, merge=False):
        if isinstance(obj, Ctx):
            k = to_val(idx)
            has = ctx_has(obj.ident, k)
            if merge or I.merging:
                I.note_elem_raise(z3.Not(has))
                return SV(ctx_val(obj.ident, k))
            if path.branch(has):
                return SV(ctx_val(obj.ident, k))
            raise PyRaise(KeyError, payload=idx)
        raise Unsupported(f"subscript of {obj!r}")
    orig_subscript = I.subscript

    def subscript(obj, idx, path, merge=False):
        if isinstance(obj, Ctx):
            return obj_getitem(I, path, obj, idx, merge)
        return orig_subscript(obj, idx, path, merge)
    I.subscript = subscript

    def method(I, path, recv, name, args, kwargs):
        if isinstance(recv, Ctx) and name == "get":
            k = to_val(args[0])
            has = ctx_has(recv.ident, k)
            default = args[1] if len(args) > 1 else None
            if path.branch(has):
                return SV(ctx_val(recv.ident, k))
            return default
        return _MISSING
    I.hooks["method"] = method
    orig_getattr = I.getattr

    def getattr_(obj, attr, path, env=None):
        if isinstance(obj, Ctx):
            from pyvc.expr import BoundMethod
            return BoundMethod(obj, attr)
        return orig_getattr(obj, attr, path, env)
    I.getattr = getattr_
    return I


def routine_self(I, modname, clsname, fields):
    cv = I.mods.resolve(modname, clsname)
    slf = Obj(cv, dict(fields))
    slf.sym_fields = None
    return slf


def routines_seq(path, name="r"):
    """A symbolic list of routine objects (ordered_routines): length n >= 0."""
    n = path.fresh("n_" + name, IntS)
    path.assume(n >= 0)
    f = z3.Function(name, IntS, Val)
    return n, f, SSeq(n, lambda j: SV(f(to_int(j))), "list")


# ============================================================================ serdes / constructors
load_f = z3.Function("load", Val, Val)                 # serdes.load(x)
decode_f = z3.Function("decode", Val, Val)             # serdes.decode(x)
items_n = z3.Function("items_n", Val, IntS)            # len(list(serdes.iteritems(x)))
item_k = z3.Function("item_k", Val, IntS, Val)
item_v = z3.Function("item_v", Val, IntS, Val)
vals_n = z3.Function("vals_n", Val, IntS)              # len(list(serdes.itervalues(x)))
val_at = z3.Function("val_at", Val, IntS, Val)
evaluate_f = z3.Function("evaluate", Val, Val)         # refs.evaluate(hint)


class Built:
    """The value returned by calling a class/constructor on an iterable or on keyword arguments."""
    host_symbolic = True

    def __init__(self, ctor, source=None, kwargs=None):
        self.ctor = ctor          # host value called (SV of self.origin / self.t)
        self.source = source      # SSeq consumed positionally (elements or pairs)
        self.kwargs = kwargs      # CompDict / SDict passed as **kwargs


class CompDict:
    """{key(i): val(i) for i in range(n) if keep(i)} over a symbolic-length source of pairs."""
    host_symbolic = True

    def __init__(self, n, key, val, keep, raises):
        self.n, self.key, self.val, self.keep, self.raises = n, key, val, keep, raises


def install_serdes(I):
    I.stubs["typelib.serdes.load"] = Stub("serdes.load", lambda I, p, a, k: SV(load_f(to_val(a[0]))),
                                          "serdes.load contract (C14): text-like -> strload, anything else unchanged")
    I.stubs["typelib.serdes.decode"] = Stub("serdes.decode", lambda I, p, a, k: SV(decode_f(to_val(a[0]))),
                                            "serdes.decode contract (C14)")

    def iteritems(I, path, a, k):
        x = to_val(a[0])
        return SSeq(items_n(x), lambda i, x=x: (SV(item_k(x, to_int(i))), SV(item_v(x, to_int(i)))), "gen")

    def itervalues(I, path, a, k):
        x = to_val(a[0])
        return SSeq(vals_n(x), lambda i, x=x: SV(val_at(x, to_int(i))), "gen")
    I.stubs["typelib.serdes.iteritems"] = Stub("serdes.iteritems", iteritems,
                                               "serdes.iteritems contract (C18): the (key, value) pairs of x, in order, once")
    I.stubs["typelib.serdes.itervalues"] = Stub("serdes.itervalues", itervalues,
                                                "serdes.itervalues contract (C18): the values of x, in order, once")
    I.stubs["typelib.py.refs.evaluate"] = Stub("refs.evaluate", lambda I, p, a, k: SV(evaluate_f(to_val(a[0]))),
                                               "refs.evaluate(ref) = den(ref) (typing.ForwardRef._evaluate)")
    import warnings
    I.builtin_models[warnings.warn] = lambda I, path, args, kw: None

    def dictcomp_seq(I, node, env, path, src):
        gen = node.generators[0]

        def bind(i):
            e2 = env.child()
            I.assign_target(gen.target, src.at(i), e2, path)
            return e2

        def keep(i):
            try:
                acc = z3.BoolVal(True)
                with I.elem_scope():
                    for c in gen.ifs:
                        from pyvc.core import to_bool_term
                        acc = z3.And(acc, to_bool_term(I.eval(c, bind(i), path, True)))
                return acc
            except Unsupported as e:
                return I.poison(path, e, boolean=True)

        def key(i):
            try:
                with I.elem_scope():
                    return I.eval(node.key, bind(i), path, True)
            except Unsupported as e:
                return I.poison(path, e)

        def val(i):
            try:
                with I.elem_scope():
                    return I.eval(node.value, bind(i), path, True)
            except Unsupported as e:
                return I.poison(path, e)

        def raises(i):
            try:
                with I.elem_scope() as sc:
                    I.eval(node.key, bind(i), path, True)
                    I.eval(node.value, bind(i), path, True)
                return z3.And(keep(i), sc.cond())
            except Unsupported as e:
                return I.poison(path, e, boolean=True)
        cd = CompDict(src.length, key, val, keep, raises)
        # membership as functions of the key (both directions quantifier-free via a witness function)
        uid = next(path.names.n)
        cd.has_f = z3.Function(f"compdict_has!{uid}", Val, BoolS)
        cd.wit_f = z3.Function(f"compdict_wit!{uid}", Val, IntS)
        n = src.length if not isinstance(src.length, int) else z3.IntVal(src.length)
        path.assume(Q([Val], lambda k_, cd=cd, n=n: z3.Implies(cd.has_f(k_), z3.And(
            cd.wit_f(k_) >= 0, cd.wit_f(k_) < n, cd.keep(SInt(cd.wit_f(k_))), to_val(cd.key(SInt(cd.wit_f(k_)))) == k_)),
            trigger=cd.has_f, name="compdict-has-elim"))
        path.assume(Q([IntS], lambda i, cd=cd, n=n: z3.Implies(z3.And(i >= 0, i < n, cd.keep(SInt(i))),
                                                               cd.has_f(to_val(cd.key(SInt(i))))),
                      name="compdict-has-intro"))
        return cd
    I.hooks["dictcomp_seq"] = dictcomp_seq

    def call_opaque(I, path, f, args, kwargs):
        # self.origin(iterable) / self.t(**kwargs) / self.caster(x): constructor applications are recorded
        if getattr(f, "is_ctor", False):
            if "$starstar" in kwargs and not args:
                return Built(f, kwargs=kwargs["$starstar"])
            if len(args) == 1 and not kwargs and isinstance(args[0], SSeq):
                return Built(f, source=args[0])
        return _MISSING
    I.hooks["call_opaque"] = call_opaque

    def len_host(I, path, x):
        # len(constructor(iterable)) for sequence constructors: the constructor keeps the elements
        if isinstance(x, Built) and x.source is not None:
            n = x.source.length
            return n if isinstance(n, int) else SInt(n)
        return _MISSING
    I.hooks["len_host"] = len_host

    def contains(I, path, container, item):
        if isinstance(container, CompDict):
            return SBool(container.has_f(to_val(item)))
        raise Unsupported(f"`in` on {container!r}")
    I.hooks["contains"] = contains

    def getattr_default(I, path, obj, name, default):
        if name == "__required_keys__" and isinstance(obj, SV):
            t = obj.t
            return SSeq(required_n(t), lambda i, t=t: SV(required_key(t, to_int(i))), "tuple")
        return _MISSING
    I.hooks["getattr_default"] = getattr_default
    return I


required_n = z3.Function("required_n", Val, IntS)          # len(getattr(t, '__required_keys__', ()))
required_key = z3.Function("required_key", Val, IntS, Val)


def ctor(term):
    v = SV(term)
    v.is_ctor = True
    return v
