"""C14 — executable twin: the five text carriers are interchangeable; load/strload follow the JSON decoder."""
from __future__ import annotations

import json
import typing
import warnings

from props import typepool as tp
from props.concrete_util import clear_typelib_caches

STRINGS = ["", "1", "1.5", "-7", "true", "null", "None", "abc", "a b", "[1, 2]", '{"a": 1}', "(7, 8, 9)", "{1, 2}", "{{}}",
           "{[1, 2]}", "{[]: 1}", "[[", '{"a":', "nan", "x\ty", "naïve", "日本", "2020-01-02", "2020-01-02T03:04:05+00:00",
           "P1D", "12345678-1234-5678-1234-567812345678", "'quoted'", '"quoted"', "0x10", "1e3", "red", "a", "x",
           "-" * 100000 + "1", "1" + "+1" * 50000]


def carriers(s):
    b = s.encode()
    return [("str", s), ("bytes", b), ("bytearray", bytearray(b)), ("memoryview(bytes)", memoryview(b)),
            ("memoryview(bytearray)", memoryview(bytearray(b)))]


def outcome(f):
    try:
        return ("ok", f())
    except Exception as e:
        return ("reject", type(e).__name__)
    except BaseException as e:
        return ("crash", type(e).__name__)


def equal_outcomes(a, b):
    if a[0] != b[0]:
        return False
    if a[0] != "ok":
        return True
    try:
        return tp.same(a[1], b[1]) or (a[1] == b[1] and type(a[1]) is type(b[1])) or \
            (type(a[1]) is type(b[1]) and repr(a[1]) == repr(b[1]))
    except Exception:
        return False


def has_bytes(T):
    return "bytes" in repr(T) or "memoryview" in repr(T)


def search(stop_at=1, long_strings=True):
    import typelib
    from typelib import serdes
    warnings.simplefilter("ignore")
    clear_typelib_caches()
    fails, n, distinct = [], 0, set()
    strings = STRINGS if long_strings else STRINGS[:-2]
    # 1. load / strload against the JSON decoder
    for si, s in enumerate(strings):
        try:
            exp = ("json", json.loads(s)) if len(s) < 1000 else None
        except ValueError:
            exp = None
        for cname, c in carriers(s):
            for fn in (serdes.load, serdes.strload):
                n += 1
                distinct.add(("load", si, cname, fn.__name__))
                r = outcome(lambda: fn(c))
                msg = None
                if r[0] != "ok":
                    msg = f"serdes.{fn.__name__}({cname} of {s[:40]!r}) raised {r[1]}"
                elif exp is not None and not (r[1] == exp[1] and type(r[1]) is type(exp[1])):
                    msg = f"serdes.{fn.__name__}({cname} of {s!r}) = {r[1]!r}, the JSON decoder gives {exp[1]!r}"
                if msg:
                    fails.append({"kind": "load", "string_index": si, "carrier": cname, "failure": msg})
                    if stop_at and len(fails) >= stop_at:
                        return fails, n, len(distinct)
    for obj in (1, 1.5, None, [1], {"a": 1}, (1, 2), object):
        n += 1
        if serdes.load(obj) is not obj:
            fails.append({"kind": "load-nontext", "failure": f"serdes.load({obj!r}) did not return its input"})
    # 2. every unmarshaller: all carriers agree
    for name, T, values in tp.pool():
        if has_bytes(T):
            continue
        texts = list(strings[:-2])
        for v in values:
            try:
                w = typelib.marshal(v, t=T)
                texts.append(w if isinstance(w, str) else json.dumps(w))
                if not isinstance(w, str):
                    texts.append(repr(w))
            except Exception:
                pass
        for ti, s in enumerate(texts):
            outs = [(cname, outcome(lambda c=c: typelib.unmarshal(T, c))) for cname, c in carriers(s)]
            n += len(outs)
            distinct.add((name, ti))
            for cname, o in outs[1:]:
                if not equal_outcomes(outs[0][1], o):
                    fails.append({"kind": "carriers", "type": name, "text": s[:80], "failure":
                                  f"unmarshal({name}, {s[:60]!r}): str gives {outs[0][1]!r} but {cname} gives {o!r}"})
                    break
            if stop_at and len(fails) >= stop_at:
                return fails, n, len(distinct)
    # 3. collection / mapping / structured targets: the JSON text and the Python-literal text of a wire value are
    #    equivalent to the decoded wire value itself
    big = [("list[int] 64-bit boundaries", list[int], [[2 ** 63 - 1, -2 ** 63, 2 ** 64 - 1, 0]]),
           ("dict[str,int] 64-bit boundaries", dict[str, int], [{"a": 2 ** 64 - 1, "b": -2 ** 63}])]
    for name, T, values in tp.pool() + big:
        if has_bytes(T):
            continue
        for vi, v in enumerate(values):
            try:
                w = typelib.marshal(v, t=T)
            except Exception:
                continue
            if not isinstance(w, (list, dict)):
                continue
            want = outcome(lambda: typelib.unmarshal(T, w))
            for form, text in (("json", outcome(lambda: json.dumps(w))), ("literal", ("ok", repr(w)))):
                if text[0] != "ok":
                    continue
                n += 1
                distinct.add((name, "text-vs-decoded", vi, form))
                got = outcome(lambda: typelib.unmarshal(T, text[1]))
                if not equal_outcomes(want, got):
                    fails.append({"kind": "text-vs-decoded", "type": name, "text": text[1][:80], "failure":
                                  f"unmarshal({name}, {text[1][:80]!r}) gives {got!r} but the decoded value gives {want!r}"})
                    if stop_at and len(fails) >= stop_at:
                        return fails, n, len(distinct)
    return fails, n, len(distinct)


def beyond_64_bit_witness():
    """Known finding C14-json-integers-beyond-64-bit: the JSON decoder in use (orjson) reads an integer outside the 64-bit range
    as a float, so the JSON text of such a wire value is not equivalent to the decoded value."""
    import typelib
    from typelib import serdes
    clear_typelib_caches()
    w = [12345678901234567890123]
    a, b = outcome(lambda: typelib.unmarshal(list[int], json.dumps(w))), outcome(lambda: typelib.unmarshal(list[int], w))
    r = serdes.strload(str(2 ** 64))
    if equal_outcomes(a, b) and r == 2 ** 64 and type(r) is int:
        return None
    return (f"unmarshal(list[int], {json.dumps(w)!r}) gives {a!r} but the decoded value gives {b!r}; "
            f"serdes.strload({str(2 ** 64)!r}) == {r!r}")


def run_recorded(case):
    f, _, _ = search(stop_at=None)
    for c in f:
        if all(c.get(k) == case.get(k) for k in ("kind", "type", "text", "string_index", "carrier")):
            return c["failure"]
    return None
