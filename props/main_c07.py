"""C07 check driver."""
from pyvc.driver import Check
from props import c07, c07_concrete

ASSUMPTIONS = [
    "Induction over the nesting depth of the value (M3, DESIGN 3.3) is a paper argument: the mechanised part is its step - a member "
    "reached through a cut edge is converted by the routine of the member's own type (contracts (1)-(6) of props/c07.py) - and the "
    "one-level clauses of C01 / C03 / C05.",
    "typing.ForwardRef: equality and hash are by (__forward_arg__, __forward_module__) (plus the pinned value when both are "
    "evaluated); _evaluate of an unpinned reference is external.",
    "The memoised factories are functions of their argument (C12 obligation K), so the routine a proxy resolves is the routine "
    "anyone gets for that type; a proxy resolves at most once (cached in _resolved).",
    "Python's recursion limit bounds the depth ('below the interpreter's recursion limit' in the statement); running out of stack "
    "surfaces as RecursionError (fix 6567e0f) rather than being retried.",
    "Termination of get_type_graph's work-list is bounded evidence only (C09).",
]


def searcher(ob):
    fails, n = c07_concrete.search("quick", 0, stop_at=1)
    if fails:
        return {"found": True, "kind": "c07-case", "case": fails[0], "searched": n}
    return {"found": False, "searched": n, "note": "no cycle topology (<= 3 classes, 6 edge kinds, 6 root kinds, depths 0..12) or recursive alias leaves a level unconverted (bounded)"}


def replay(data):
    case = data.get("case")
    if not case:
        print("replay: no concrete input recorded for", data.get("obligation"), str(data.get("solver"))[:300])
        return 1
    r = c07_concrete.run_recorded(case)
    print("replay", case, "->", r)
    return 1 if r else 0


def main(tier, seed):
    chk = Check("C07", tier, seed)
    chk.assumptions = list(ASSUMPTIONS)
    c07.obligations(chk, with_graph=True)
    fails, n = c07_concrete.search(tier, seed, stop_at=3)
    chk.bounded.append({"name": "bounded replay on the real code: every simple cycle over 1..3 synthesised dataclasses with each edge kind (Optional, list, dict, "
                                "variadic tuple, X | None, X | None in a field of a member class), mixed-kind topologies with chords and self loops, every class and "
                                "list / dict / tuple / Optional / NewType of it as root, recursive aliases (dict-, list-closed), depths 0..12 (thorough: ..150); "
                                "termination probes with text leaves on a two-collection alias",
                        "evaluations": n, "failures": len(fails),
                        "rule": "unmarshal(wire) equals the directly constructed object graph at every level (no raw dict, no no-op warning), marshal gives the "
                                "normal wire form, and the round trip is the identity"})
    for i, f in enumerate(fails):
        chk.violation(f"bounded-replay#{i}", {"found": True, "kind": "c07-case", "case": f}, True)
    chk.resolve_failures(searcher)
    return chk.finish()
