"""Helpers shared by the executable twins."""
import sys


def clear_typelib_caches():
    """Clear every functools cache in the loaded typelib modules (so that typing's order-insensitive
    Union equality cannot hand one union the routine built for another member order: that is C12's
    subject, not the property under test here)."""
    n = 0
    for name, mod in list(sys.modules.items()):
        if name == "typelib" or name.startswith("typelib."):
            for v in list(vars(mod).values()):
                cc = getattr(v, "cache_clear", None)
                if callable(cc):
                    try:
                        cc()
                        n += 1
                    except Exception:
                        pass
    return n
