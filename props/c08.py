"""C08 — union members are tried in declared order, None always honoured.

Functions under contract: UnionUnmarshaller.__init__/__call__ and UnionMarshaller.__init__/__call__
(real ASTs).  The first-acceptor loop is proved with an inductive invariant, for any number of
members; member routines are arbitrary (uninterpreted run / run_raises / run_exc).
"""
from __future__ import annotations

import z3

from pyvc.core import (SV, SInt, SBool, SSeq, Obj, Val, VNone, BoolS, IntS, to_val, to_int, PyRaise, run, run_raises,
                       run_exc, sub, cls_const)
from pyvc.driver import Ob, cover_hyps
from pyvc.ground import Q
from pyvc.stmt import LoopSpec
from props import routine_world as rw

UNITS = [("typelib.unmarshals.routines", "UnionUnmarshaller"), ("typelib.marshals.routines", "UnionMarshaller")]


def member_exceptions_axiom():
    return Q([Val, Val], lambda r, v: sub(run_exc(r, v), cls_const(Exception)), trigger=run_exc,
             name="member-routines-raise-Exception-subclasses")


def init_obligations(chk, mod, cls):
    I = rw.make_interp()
    func = f"{mod}.{cls}.__init__"

    def mk(I, path):
        for a in rw.world_axioms():
            path.assume(a)
        t = path.fresh("t")
        c = rw.Ctx(path.fresh("ctx"))
        slf = rw.routine_self(I, mod, cls, {})
        cur = {"t": t, "ctx": c, "self": slf}
        return [slf, SV(t), c], {"var": None}, cur

    results = I.run_function(func, mk)
    for pi, (path, out, obls, writes, cur) in enumerate(results):
        _init_one(chk, func, pi, path, out, cur)
    chk.trusted.update(I.assumed_used)
    chk.add(Ob(func, "cover", "pre", cover_hyps(results), z3.BoolVal(True), expect="sat"))


def _init_one(chk, func, pi, path, out, cur):
    from pyvc.expr import seq_of
    pid = f"p{pi}"
    hy = path.hyps
    names = ["ordered-routines-are-the-declared-members-in-order", "nullable-flag-is-isoptional"]
    if out.kind != "ret":
        why = {"engine": out.value} if out.kind == "unsupported" else {"exc": str(out.exc.exc_cls)}
        for nm in names:
            chk.add(Ob(func, nm, pid, hy, z3.BoolVal(False), why))
        return
    slf, t, c = cur["self"], cur["t"], cur["ctx"]
    orr = slf.fields.get("ordered_routines")
    s = seq_of(orr) if orr is not None else None
    if s is None:
        chk.add(Ob(func, names[0], pid, hy, z3.BoolVal(False), {"note": "ordered_routines not set"}))
    else:
        n = s.length if not isinstance(s.length, int) else z3.IntVal(s.length)
        j = path.fresh("j", IntS)
        chk.add(Ob(func, names[0], pid, hy + [j >= 0, j < rw.nargs(t)],
                   z3.And(n == rw.nargs(t), to_val(s.at(SInt(j))) == rw.ctx_val(c.ident, rw.arg(t, j)))))
    nl = slf.fields.get("nullable")
    if nl is None:
        chk.add(Ob(func, names[1], pid, hy, z3.BoolVal(False), {"note": "nullable not set"}))
    else:
        from pyvc.core import to_bool_term
        chk.add(Ob(func, names[1], pid, hy, to_bool_term(nl) == rw.nullable(t)))


def fatal(e):
    """resource exhaustion: says nothing about whether the member accepts the value (re-raised by the union routines)"""
    return z3.Or(sub(e, cls_const(RecursionError)), sub(e, cls_const(MemoryError)))


def rejects(r, v):
    """the member routine r rejects v: it raises an error other than resource exhaustion"""
    return z3.And(run_raises(r, v), z3.Not(fatal(run_exc(r, v))))


def call_obligations(chk, mod, cls):
    I = rw.make_interp()
    func = f"{mod}.{cls}.__call__"
    box = {}

    def inv(I, path, env, k):
        r, val = box["r"], box["val"]
        return [Q([IntS], lambda j: z3.Implies(z3.And(j >= 0, j < k), rejects(r(j), val)), name="earlier-members-rejected")]
    I.loop_specs[(func, 0)] = LoopSpec("members", lambda I, path, env, k: None, inv)

    def mk(I, path):
        path.assume(member_exceptions_axiom())
        n, r, seq = rw.routines_seq(path)
        val = path.fresh("val")
        nl = path.fresh("nullable", BoolS)
        slf = rw.routine_self(I, mod, cls, {"ordered_routines": seq, "nullable": SBool(nl),
                                           "stack": SV(path.fresh("stack")), "t": SV(path.fresh("t"))})
        box.update(r=r, val=val)
        cur = {"n": n, "r": r, "val": val, "nullable": nl}
        return [slf, SV(val)], {}, cur

    results = I.run_function(func, mk)
    for pi, (path, out, obls, writes, cur) in enumerate(results):
        _call_one(chk, func, pi, path, out, obls, cur)
    chk.add(Ob(func, "cover", "pre", cover_hyps(results), z3.BoolVal(True), expect="sat"))
    chk.trusted.update(I.assumed_used)


CALL_CLAUSES = ["none-is-honoured", "result-is-first-acceptor's", "valueerror-only-when-every-member-rejects",
                "only-resource-exhaustion-of-a-member-surfaces-otherwise"]


def _call_one(chk, func, pi, path, out, obls, cur):
    pid = f"p{pi}"
    hy = path.hyps
    n, r, val, nl = cur["n"], cur["r"], cur["val"], cur["nullable"]
    for nm, pc, goal in obls:
        chk.add(Ob(func, nm, pid, pc, goal))
    if out.kind == "end":
        return
    if out.kind == "unsupported":
        for nm in CALL_CLAUSES:
            chk.add(Ob(func, nm, pid, hy, z3.BoolVal(False), {"engine": out.value}))
        return
    is_none = z3.And(nl, val == VNone)
    if out.kind == "ret":
        res = to_val(out.value)
        chk.add(Ob(func, CALL_CLAUSES[0], pid, hy + [is_none], res == VNone))
        k = path.loop_k.get("members")
        if k is None:
            # returned outside the loop: only legitimate for the honoured None
            chk.add(Ob(func, CALL_CLAUSES[1], pid, hy, is_none))
        else:
            chk.add(Ob(func, CALL_CLAUSES[1], pid, hy + [z3.Not(is_none)],
                       [z3.And(k >= 0, k < n, z3.Not(run_raises(r(k), val)), res == run(r(k), val)),
                        Q([IntS], lambda j: z3.Implies(z3.And(j >= 0, j < k), rejects(r(j), val)), name="first")]))
        chk.add(Ob(func, CALL_CLAUSES[2], pid, hy, z3.BoolVal(True), {"trivial": True}))
        chk.add(Ob(func, CALL_CLAUSES[3], pid, hy, z3.BoolVal(True), {"trivial": True}))
        return
    # raise
    exc = out.exc.exc_cls
    chk.add(Ob(func, CALL_CLAUSES[0], pid, hy, z3.Not(is_none)))
    chk.add(Ob(func, CALL_CLAUSES[1], pid, hy, z3.BoolVal(True), {"trivial": True}))
    if isinstance(exc, type):
        # raised by the union routine itself: must be the ValueError of "every member rejects"
        is_ve = issubclass(exc, ValueError)
        chk.add(Ob(func, CALL_CLAUSES[2], pid, hy,
                   [z3.BoolVal(bool(is_ve)),
                    Q([IntS], lambda j: z3.Implies(z3.And(j >= 0, j < n), rejects(r(j), val)), name="all-reject")],
                   {"exc": str(exc)}))
        chk.add(Ob(func, CALL_CLAUSES[3], pid, hy, z3.BoolVal(bool(is_ve)), {"exc": str(exc)}))
    else:
        # an exception of a member routine surfaced: only resource exhaustion may, and only of the first member that did not reject
        k = path.loop_k.get("members")
        chk.add(Ob(func, CALL_CLAUSES[2], pid, hy, z3.BoolVal(True), {"trivial": True}))
        if k is None:
            chk.add(Ob(func, CALL_CLAUSES[3], pid, hy, z3.BoolVal(False), {"exc": str(exc), "note": "member exception outside the member loop"}))
        else:
            chk.add(Ob(func, CALL_CLAUSES[3], pid, hy,
                       [z3.And(k >= 0, k < n, run_raises(r(k), val), exc == run_exc(r(k), val), fatal(exc)),
                        Q([IntS], lambda j: z3.Implies(z3.And(j >= 0, j < k), rejects(r(j), val)), name="first")], {"exc": str(exc)}))


# ----------------------------------------------------------------------------- isoptionaltype (callee contract)
UNWRAP_F = z3.Function("unwrap", Val, Val)
OPTIONAL_F = z3.Function("isoptionaltype_of_the_unwrapped_member", Val, BoolS)


def null_member(m):
    """the member is None / NoneType - as written, or behind NewType / alias layers - or is itself an optional annotation behind
    such layers (`type MaybeInt = int | None`)"""
    none_t = to_val(type(None))
    u = UNWRAP_F(m)
    return z3.Or(m == none_t, m == VNone, u == none_t, u == VNone, OPTIONAL_F(u))


def isoptional_obligations(chk):
    """inspection.isoptionaltype(t) for a union t  <=>  None (or NoneType) is one of its members,
    at whatever position and for any number of members."""
    import z3 as _z3
    from pyvc.core import Stub, VStr, str_id
    I = rw.make_interp()
    func = "typelib.py.inspection.isoptionaltype"
    # a member may be optional behind NewType / alias layers: unwrap(member) (C11) is None / NoneType, or optional itself - the
    # function's own answer for the unwrapped member (a strictly smaller annotation; recursive calls use this contract)
    I.stubs["typelib.py.inspection.isoptionaltype"] = Stub("inspection.isoptionaltype", lambda I, p, a, k: SBool(OPTIONAL_F(to_val(a[0]))),
                                                           "isoptionaltype(unwrapped member): this very contract, for a smaller annotation")
    I.stubs["typelib.py.inspection.unwrap"] = Stub("inspection.unwrap", lambda I, p, a, k: SV(UNWRAP_F(to_val(a[0]))),
                                                   "unwrap(member): the member with NewType / alias layers removed, never raising (C11)")
    origin_v = _z3.Function("origin_value", Val, Val)
    I.stubs["typelib.py.inspection.origin"] = Stub("inspection.origin", lambda I, p, a, k: SV(origin_v(to_val(a[0]))),
                                                   "origin(t) of a union annotation is typing.Union / types.UnionType (C17)")
    members = _z3.Function("member", Val, IntS, Val)
    nmem = _z3.Function("n_members", Val, IntS)

    def getattr_default(I, path, obj, name, default):
        from pyvc.env import _MISSING
        if isinstance(obj, SV) and name == "__args__":
            return SSeq(nmem(obj.t), lambda j, t=obj.t: SV(members(t, to_int(j))), "tuple")
        return _MISSING
    I.hooks["getattr_default"] = getattr_default
    NONE_T = to_val(type(None))

    def mk(I, path):
        t = path.fresh("t")
        path.assume(nmem(t) >= 0)
        import typing
        import types
        path.assume(_z3.Or(origin_v(t) == to_val(typing.Union), origin_v(t) == to_val(types.UnionType)))     # t is a union
        # the Ellipsis object (the code's "not found" marker) is not a null member: it is no NewType / alias, not None, not optional
        path.assume(_z3.Not(null_member(to_val(Ellipsis))))
        return [SV(t)], {}, {"t": t}
    results = I.run_function(func, mk)
    for pi, (path, out, obls, writes, cur) in enumerate(results):
        _isopt_one(chk, func, pi, path, out, cur, members, nmem, NONE_T)
    chk.add(Ob(func, "cover", "pre", cover_hyps(results), _z3.BoolVal(True), expect="sat"))
    chk.trusted.update(I.assumed_used)


def _isopt_one(chk, func, pi, path, out, cur, members, nmem, NONE_T):
    from pyvc.core import to_bool_term
    t = cur["t"]
    pid = f"p{pi}"
    hy = path.hyps
    is_none = lambda j: null_member(members(t, j))
    if out.kind != "ret":
        for nm in ("true-implies-a-None-member", "false-implies-no-None-member"):
            chk.add(Ob(func, nm, pid, hy, z3.BoolVal(False), {"outcome": out.kind, "why": str(out.value or out.exc)}))
        return
    res = to_bool_term(out.value)
    # result true  => some member is None   (witness: whatever index the body found; proved by refutation)
    # stated contrapositively so that both directions are universally quantified goals/hypotheses
    chk.add(Ob(func, "true-implies-a-None-member", pid,
               hy + [Q([IntS], lambda j: z3.Implies(z3.And(j >= 0, j < nmem(t)), z3.Not(is_none(j))), name="no-none")],
               z3.Not(res)))
    j0 = path.fresh("j0", IntS)
    chk.add(Ob(func, "false-implies-no-None-member", pid, hy + [j0 >= 0, j0 < nmem(t), is_none(j0)], res))


def obligations(chk):
    for mod, cls in UNITS:
        init_obligations(chk, mod, cls)
        call_obligations(chk, mod, cls)
    isoptional_obligations(chk)
