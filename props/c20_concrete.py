"""C20 — executable twin: future.transform on a grammar of annotation expressions (bounded).

Grammar (depth <= 4): names, dotted names, builtin generic names bare and subscripted, subscripts, tuples, ellipsis,
|-chains of any associativity / parenthesisation, Literal[...] with strings containing '|' and '[', Callable[[...], ...],
Annotated[...], string forward references; plus non-annotation expressions (arithmetic, calls, comparisons)."""
from __future__ import annotations

import ast
import itertools
import random
import typing

ATOMS = ["int", "str", "None", "X", "m.Y", "a.b.C", "dict", "list", "set", "tuple", "Pattern", "re.Pattern", "typing.List", "...",
         "'int | str'", "Literal['a|b', '[x]']", "typing.Literal['|']"]
NS = {"typing": typing, "X": type("X", (), {}), "m": type("m", (), {"Y": type("Y", (), {})}),
      "a": type("a", (), {"b": type("b", (), {"C": type("C", (), {})})}), "Literal": typing.Literal, "Callable": typing.Callable,
      "Annotated": typing.Annotated, "Optional": typing.Optional, "re": __import__("re"), "Pattern": typing.Pattern}
GENERICS = {"dict": "typing.Dict", "list": "typing.List", "set": "typing.Set", "tuple": "typing.Tuple", "Pattern": "typing.Pattern"}


def gen(depth, rnd, nonann=False):
    if depth == 0:
        return rnd.choice(ATOMS)
    k = rnd.randrange(12 if nonann else 9)
    g = lambda: gen(depth - 1, rnd, nonann)
    if k == 0:
        return f"{g()} | {g()}"
    if k == 1:
        return f"{g()} | ({g()} | {g()})"
    if k == 2:
        return f"({g()} | {g()}) | {g()}"
    if k == 3:
        return f"{rnd.choice(['list', 'set', 'typing.List', 'typing.Optional', 'tuple'])}[{g()}]"
    if k == 4:
        return f"{rnd.choice(['dict', 'typing.Dict', 'tuple', 'typing.Mapping'])}[{g()}, {g()}]"
    if k == 5:
        return f"Callable[[{g()}, {g()}], {g()}]"
    if k == 6:
        return f"Annotated[{g()}, 'meta|data']"
    if k == 7:
        return f"tuple[{g()}, ...]"
    if k == 8:
        return rnd.choice(ATOMS)
    if k == 9:
        return f"({g()}) + ({g()})"
    if k == 10:
        return f"f({g()}, key={g()})"
    return f"{g()} + {g()} | {g()}"


def has_union(tree):
    """a PEP 604 union (BinOp with BitOr) anywhere outside constants"""
    return any(isinstance(n, ast.BinOp) and isinstance(n.op, ast.BitOr) for n in ast.walk(tree))


def has_construct(tree):
    return has_union(tree) or any(isinstance(n, ast.Name) and n.id in GENERICS for n in ast.walk(tree))


def spec(node):
    """the statement's rewriting, written independently as a recursive function over the tree"""
    if isinstance(node, ast.BinOp) and isinstance(node.op, ast.BitOr):
        ops = []

        def flat(n):
            if isinstance(n, ast.BinOp) and isinstance(n.op, ast.BitOr):
                flat(n.left)
                ops.append(n.right)
            else:
                ops.append(n)
        flat(node.left)
        ops.append(node.right)
        return ast.Subscript(value=ast.Name(id="typing.Union", ctx=ast.Load()), slice=ast.Tuple(elts=[spec(o) for o in ops], ctx=ast.Load()), ctx=ast.Load())
    if isinstance(node, ast.Name) and node.id in GENERICS:
        return ast.Name(id=GENERICS[node.id], ctx=ast.Load())
    new = type(node)()
    for f, v in ast.iter_fields(node):
        if isinstance(v, ast.AST):
            v = spec(v)
        elif isinstance(v, list):
            v = [spec(x) if isinstance(x, ast.AST) else x for x in v]
        setattr(new, f, v)
    return new


def structure(t):
    """origin / arguments, recursively; bare typing aliases count as their origin, None as NoneType"""
    import types
    if t is None:
        return type(None)
    if isinstance(t, (types.FunctionType, types.GeneratorType)) or (isinstance(t, (int, float, bool)) and not isinstance(t, type)):
        raise ValueError("not a type")
    if isinstance(t, typing.ForwardRef):
        return t.__forward_arg__               # typing wraps a string argument into a ForwardRef of that string
    o, a = typing.get_origin(t), typing.get_args(t)
    if o is None:
        return t
    if o is types.UnionType:
        o = typing.Union
    if not a:
        return o
    parts = tuple(structure(x) if not isinstance(x, list) else tuple(structure(y) for y in x) for x in a)
    if o is typing.Union:                      # typing flattens nested unions and drops duplicate members
        flat = []
        for p in parts:
            for q in (p[1] if isinstance(p, tuple) and len(p) == 2 and p[0] is typing.Union else (p,)):
                if q not in flat:
                    flat.append(q)
        # typing's own cache hands out an equal Union built earlier with another member order: compare members as a set
        return flat[0] if len(flat) == 1 else (o, tuple(sorted(flat, key=repr)))
    return (o, parts)


def check(src):
    from typelib.py import future
    try:
        tree = ast.parse(src, mode="eval")
    except SyntaxError:
        return None
    try:
        out = future.transform(src)
    except Exception as e:
        return f"transform({src!r}) raised {type(e).__name__}: {e}"
    try:
        out_tree = ast.parse(out, mode="eval")
    except SyntaxError as e:
        return f"transform({src!r}) = {out!r} does not parse"
    if has_union(out_tree):
        return f"transform({src!r}) = {out!r} still contains a PEP 604 union"
    want = ast.unparse(ast.fix_missing_locations(spec(tree))).strip()
    if ast.dump(ast.parse(want, mode="eval")) != ast.dump(out_tree):
        return f"transform({src!r}) = {out!r}, the statement prescribes {want!r}"
    if has_union(tree) and "typing.Union" not in src:
        alt = future.transform(src, union="U_")
        if alt != out.replace("typing.Union[", "U_["):
            return f"transform({src!r}, union='U_') = {alt!r}, expected the default rewriting with the union name replaced"
    if future.transform(out) != out:
        return f"transform is not a fixpoint on {out!r}: {future.transform(out)!r}"
    if not has_construct(tree) and ast.dump(out_tree) != ast.dump(tree):
        return f"{src!r} has none of the constructs but was rewritten to {out!r}"
    # same structure when both sides evaluate
    try:
        a = eval(src, dict(NS))
    except Exception:
        return None
    try:
        b = eval(out, dict(NS))
    except Exception as e:
        return f"{src!r} evaluates but its rewriting {out!r} raises {type(e).__name__}: {e}"
    try:
        sa, sb = structure(a), structure(b)
    except Exception:
        return None
    if sa != sb:
        return f"{src!r} and its rewriting {out!r} evaluate to different structures: {sa!r} vs {sb!r}"
    return None


def cases(tier="quick", seed=0):
    rnd = random.Random(seed)
    out = list(ATOMS) + ["(a | b) + c", "a + b | c", "x[a | b] - y", "a | b | c | dict[str, int | None]", "f(a | b)", "a if b | c else d",
                         "[a | b for a in c]", "lambda: a | b", "a | b < c", "not a | b", "a @ b | c", "a ** (b | c)"]
    for a, b in itertools.product(ATOMS, repeat=2):
        out += [f"{a} | {b}", f"dict[{a}, {b}]", f"{a} | {b} | {a}", f"{a} | ({b} | {a})", f"tuple[{a}, {b} | None]", f"{a} + {b}"]
    for d, count in ((2, 600), (3, 600), (4, 300)) if tier == "quick" else ((2, 4000), (3, 6000), (4, 4000)):
        for _ in range(count):
            out.append(gen(d, rnd, nonann=rnd.random() < 0.3))
    return out


def search(tier="quick", seed=0, stop_at=1):
    fails, n = [], 0
    for src in cases(tier, seed):
        n += 1
        r = check(src)
        if r:
            fails.append({"source": src, "violation": r})
            if len(fails) >= stop_at:
                break
    return fails, n


def run_recorded(rec):
    return check(rec["source"])
