"""C17 — type predicates agree with Python's own type semantics.

Symbolic part: every class-valued predicate of inspection.py is executed on an arbitrary object and
proved equal to the issubclass formula the statement prescribes (the runtime primitives - issubclass,
origin, get_origin / get_args, name - are uninterpreted, so the equivalence holds for every
interpretation of them, i.e. for every object); special-form predicates get their own formulas.
Ground part: exhaustive obligations over the finite tables of the current source.
"""
from __future__ import annotations

import builtins as B
import collections
import dataclasses
import collections.abc
import datetime
import decimal
import enum
import fractions
import numbers
import pathlib
import re
import sqlite3
import types
import typing
import uuid

import z3

from pyvc.core import (SV, SBool, SInt, SSeq, Obj, Val, VNone, VStr, BoolS, IntS, Cls, to_val, to_int, to_bool_term, cls_of, sub,
                       cls_const, class_axioms, Stub, PyRaise, Unsupported, str_id, cls_val)
from pyvc.driver import Ob
from pyvc.ground import Q
from pyvc.env import _MISSING
from pyvc.expr import SCls
from pyvc.interp import Interp
from pyvc.builtins_model import install

INSP = "typelib.py.inspection"
origin_cls = z3.Function("origin_class", Val, Cls)       # inspection.origin(obj) as a class (domain: class-valued)
as_cls = z3.Function("as_class", Val, Cls)               # obj itself as a class
is_class = z3.Function("is_a_class", Val, BoolS)

# predicate -> (goes through origin()?, bases of the statement's issubclass test, extra exact classes)
VIA_ORIGIN = {
    "isdatetype": (datetime.date,), "isdatetimetype": (datetime.datetime,), "istimetype": (datetime.time,),
    "istimedeltatype": (datetime.timedelta,), "isdecimaltype": (decimal.Decimal,), "isfractiontype": (fractions.Fraction,),
    "isuuidtype": (uuid.UUID,), "isiterabletype": (collections.abc.Iterable,), "isiteratortype": (collections.abc.Iterator,),
    "istupletype": (tuple,), "ismappingtype": (collections.abc.Mapping, dict, sqlite3.Row, types.MappingProxyType),
}
COLLECTION_EXTRAS = (list, set, tuple, frozenset, dict, str, bytes)
VIA_ORIGIN_WITH_EXTRAS = {"issequencetype": (collections.abc.Sequence,), "iscollectiontype": (collections.abc.Collection,)}
DIRECT = {
    "isenumtype": (enum.Enum,), "istexttype": (str, bytes, bytearray, memoryview), "isstringtype": (str,),
    "isbytestype": (bytes, bytearray, memoryview), "isnumbertype": (numbers.Number,), "isintegertype": (int,),
    "isfloattype": (float,), "ispatterntype": (re.Pattern,), "ispathtype": (pathlib.PurePath,),
}


def make_interp():
    I = install(Interp())
    # typing aliases used as issubclass targets stand for their runtime ABC
    orig_cls_term = I.cls_term

    def cls_term(c):
        if not isinstance(c, type) and hasattr(c, "__origin__") and isinstance(getattr(c, "__origin__"), type):
            return cls_const(c.__origin__)
        return orig_cls_term(c)
    I.cls_term = cls_term
    I.stubs[f"{INSP}.origin"] = Stub("inspection.origin", lambda I, p, a, k: SCls(origin_cls(to_val(a[0]))),
                                     "origin(obj): within the domain of the class-valued predicates it is a class")

    def issubclass_opaque(I, path, c, classes):
        # issubclass(x, C) raises TypeError unless x is a class
        if path.branch(is_class(c.t)):
            return SBool(z3.Or(*[sub(as_cls(c.t), I.cls_term(k)) for k in classes]))
        raise PyRaise(TypeError, note="issubclass() arg 1 must be a class")
    I.hooks["issubclass_opaque"] = issubclass_opaque
    return I


def class_predicates(chk):
    I = make_interp()
    for name, bases in list(VIA_ORIGIN.items()) + list(VIA_ORIGIN_WITH_EXTRAS.items()) + list(DIRECT.items()):
        func = f"{INSP}.{name}"
        # every class-valued predicate is about the class the annotation resolves to (statement: "its typing origin after
        # NewType and alias resolution"), so the formula goes through origin() for all of them.  The DIRECT group used to
        # be specified on the annotation object itself - that encoded the code (isintegertype(NewType('N', int)) is False)
        # instead of the statement, and was corrected together with fix e070808.
        via_origin = True

        def mk(I, path, bases=bases):
            for b in bases + COLLECTION_EXTRAS:
                cls_const(b)
            obj = path.fresh("obj")
            return [SV(obj)], {}, {"obj": obj}
        for pi, (path, out, obls, writes, cur) in enumerate(I.run_function(func, mk)):
            _class_pred_one(chk, I, func, name, bases, via_origin, pi, path, out, cur)
    chk.trusted.update(I.assumed_used)


def _class_pred_one(chk, I, func, name, bases, via_origin, pi, path, out, cur):
    pid, hy, obj = f"p{pi}", path.hyps + class_axioms(), cur["obj"]
    nm = "answer-is-the-issubclass-test-of-the-statement"
    nm2 = "never-raises-within-its-domain"
    c = origin_cls(obj) if via_origin else as_cls(obj)
    spec = z3.Or(*[sub(c, I.cls_term(b)) for b in bases])
    if name in VIA_ORIGIN_WITH_EXTRAS:
        spec = z3.Or(spec, *[c == cls_const(k) for k in COLLECTION_EXTRAS])
    if not via_origin:
        spec = z3.And(is_class(obj), spec)          # a non-class is never a subtype
    if out.kind == "ret":
        chk.add(Ob(func, nm, pid, hy, to_bool_term(out.value) == spec))
        chk.add(Ob(func, nm2, pid, hy, z3.BoolVal(True), {"trivial": True}))
    elif out.kind == "raise":
        chk.add(Ob(func, nm, pid, hy, z3.BoolVal(True), {"trivial": True}))
        chk.add(Ob(func, nm2, pid, hy, z3.BoolVal(False), {"exc": str(out.exc.exc_cls)}))
    else:
        for n_ in (nm, nm2):
            chk.add(Ob(func, n_, pid, hy, z3.BoolVal(False), {"engine": str(out.value)}))


# ----------------------------------------------------------------------------- special forms
origin_v = z3.Function("origin_value", Val, Val)          # inspection.origin(obj) as a value
name_v = z3.Function("name_of", Val, Val)                 # inspection.name(x)
nargs = z3.Function("n___args__", Val, IntS)
arg_at = z3.Function("__args___at", Val, IntS, Val)
get_origin_v = z3.Function("typing_get_origin", Val, Val)


def special_interp():
    I = install(Interp())
    I.stubs[f"{INSP}.origin"] = Stub("inspection.origin", lambda I, p, a, k: SV(origin_v(to_val(a[0]))), None)
    I.stubs[f"{INSP}.name"] = Stub("inspection.name", lambda I, p, a, k: SV(name_v(to_val(a[0]))),
                                   "name(x): the last component of x's qualified name")

    def getattr_default(I, path, obj, name, default):
        if isinstance(obj, SV) and name == "__args__":
            return SSeq(nargs(obj.t), lambda j, t=obj.t: SV(arg_at(t, to_int(j))), "tuple")
        return _MISSING
    I.hooks["getattr_default"] = getattr_default
    return I


UNION_OBJS = (typing.Union, types.UnionType)


def _val_of(pyobj):
    return to_val(pyobj)


def union_predicates(chk):
    """isuniontype(obj) <=> origin(obj) is typing.Union or types.UnionType (identity, not spelling);
    isoptionaltype(obj) <=> that, or Literal, with a None member - or the bare typing.Optional form."""
    I = special_interp()
    func = f"{INSP}.isuniontype"

    def mk(I, path):
        obj = path.fresh("obj")
        path.assume(nargs(obj) >= 0)
        return [SV(obj)], {}, {"obj": obj}
    for pi, (path, out, obls, writes, cur) in enumerate(I.run_function(func, mk)):
        obj = cur["obj"]
        spec = z3.Or(*[origin_v(obj) == _val_of(u) for u in UNION_OBJS])
        goal = to_bool_term(out.value) == spec if out.kind == "ret" else z3.BoolVal(False)
        chk.add(Ob(func, "true-exactly-for-objects-whose-origin-is-a-union-form", f"p{pi}", path.hyps + name_axioms(), goal, {"outcome": out.kind}))
    func = f"{INSP}.isoptionaltype"
    NONE_T = _val_of(type(None))
    # "after NewType and alias resolution": a union member counts as None when it is None / NoneType behind NewType / alias layers,
    # or is itself optional behind them (the function's own answer for the unwrapped member; recursive calls use this contract)
    unwrap_f = z3.Function("unwrap", Val, Val)
    optional_f = z3.Function("isoptionaltype_of_the_unwrapped_member", Val, BoolS)
    I.stubs[func] = Stub("inspection.isoptionaltype", lambda I, p, a, k: SBool(optional_f(to_val(a[0]))), "isoptionaltype(unwrapped member): this very contract, for a smaller annotation")
    I.stubs[f"{INSP}.unwrap"] = Stub("inspection.unwrap", lambda I, p, a, k: SV(unwrap_f(to_val(a[0]))), "unwrap(member): the member with NewType / alias layers removed, never raising (C11)")

    def behind(m):
        u = unwrap_f(m)
        return z3.Or(u == NONE_T, u == VNone, optional_f(u))
    ELL = _val_of(Ellipsis)
    for pi, (path, out, obls, writes, cur) in enumerate(I.run_function(func, mk)):
        obj = cur["obj"]
        o = origin_v(obj)
        is_union = z3.Or(*[o == _val_of(u) for u in UNION_OBJS])
        hy = path.hyps + name_axioms() + [z3.Not(behind(ELL))]      # the "not found" marker object is no NewType / alias of None
        unionish = z3.Or(*[o == _val_of(u) for u in UNION_OBJS + (typing.Literal,)])
        is_none = lambda j: z3.Or(arg_at(obj, j) == NONE_T, arg_at(obj, j) == VNone, z3.And(is_union, behind(arg_at(obj, j))))
        if out.kind != "ret":
            chk.add(Ob(func, "optional-iff-a-union-or-literal-with-a-None-member", f"p{pi}", hy, z3.BoolVal(False), {"outcome": out.kind}))
            continue
        res = to_bool_term(out.value)
        bare = o == _val_of(typing.Optional)
        # (=>) by contraposition with a schema hypothesis; (<=) with a witness
        chk.add(Ob(func, "optional-implies-a-None-member-of-a-union-or-literal", f"p{pi}",
                   hy + [z3.Not(bare), Q([IntS], lambda j: z3.Implies(z3.And(j >= 0, j < nargs(obj)), z3.Not(is_none(j))), name="no-none")],
                   z3.Not(res)))
        chk.add(Ob(func, "optional-implies-a-union-or-literal-form", f"p{pi}", hy + [z3.Not(bare), z3.Not(unionish)], z3.Not(res)))
        j0 = path.fresh("j0", IntS)
        chk.add(Ob(func, "a-None-member-of-a-union-or-literal-implies-optional", f"p{pi}",
                   hy + [unionish, j0 >= 0, j0 < nargs(obj), is_none(j0)], res))
    chk.trusted.update(I.assumed_used)


def name_axioms():
    """name() is injective on the special forms the predicates name: only typing.Union is called 'Union', etc.
    (this is exactly what a name-based implementation needs and an identity-based one does not)."""
    return []


def simple_special(chk):
    """isnonetype, isunresolvable, isforwardref, isfinal, isliteral, istypealiastype: membership / identity tests."""
    I = special_interp()
    cases = {
        "isnonetype": lambda obj: z3.Or(obj == VNone, obj == _val_of(type(None))),
        "isfinal": lambda obj: origin_v(obj) == _val_of(typing.Final),
        "isforwardref": lambda obj: cls_of(obj) == cls_const(typing.ForwardRef),
    }
    for name, spec in cases.items():
        func = f"{INSP}.{name}"

        def mk(I, path):
            cls_const(typing.ForwardRef)
            obj = path.fresh("obj")
            return [SV(obj)], {}, {"obj": obj}
        for pi, (path, out, obls, writes, cur) in enumerate(I.run_function(func, mk)):
            goal = to_bool_term(out.value) == spec(cur["obj"]) if out.kind == "ret" else z3.BoolVal(False)
            chk.add(Ob(func, "answer-is-the-identity-test-of-the-statement", f"p{pi}", path.hyps + class_axioms(), goal, {"outcome": out.kind}))
    # isclassvartype: the ClassVar form itself, bare or subscripted, after NewType resolution
    I3 = special_interp()
    rs = z3.Function("resolve_supertype", Val, Val)
    has_o, dunder_o = z3.Function("has___origin__", Val, BoolS), z3.Function("__origin__", Val, Val)
    I3.stubs[f"{INSP}.resolve_supertype"] = Stub("inspection.resolve_supertype", lambda I, p, a, k: SV(rs(to_val(a[0]))), "resolve_supertype(x): x with NewType layers removed (C11)")

    def gd(I, path, obj, name, default):
        if isinstance(obj, SV) and name == "__origin__":
            return SV(dunder_o(obj.t)) if path.branch(has_o(obj.t)) else default
        return _MISSING
    I3.hooks["getattr_default"] = gd
    I3.builtin_models[typing.get_origin] = lambda I, path, a, k: SV(get_origin_v(to_val(a[0])))
    func = f"{INSP}.isclassvartype"
    CV = _val_of(typing.ClassVar)

    def mk(I, path):
        obj = path.fresh("obj")
        return [SV(obj)], {}, {"obj": obj}
    for pi, (path, out, obls, writes, cur) in enumerate(I3.run_function(func, mk)):
        o = rs(cur["obj"])
        # typing.get_origin of a ClassVar[...] alias is its __origin__; the bare form has no origin (documented typing behaviour)
        typing_ax = [(get_origin_v(o) == CV) == z3.And(has_o(o), dunder_o(o) == CV), z3.Not(has_o(CV))]
        spec = z3.Or(o == CV, z3.And(has_o(o), dunder_o(o) == CV))
        goal = to_bool_term(out.value) == spec if out.kind == "ret" else z3.BoolVal(False)
        chk.add(Ob(func, "true-exactly-for-the-ClassVar-form-bare-or-subscripted-after-NewType-resolution", f"p{pi}", path.hyps + typing_ax + class_axioms(),
                   goal, {"outcome": out.kind}))
    chk.trusted.add("typing.get_origin(x) is ClassVar exactly when x.__origin__ is ClassVar (bare ClassVar has no origin): documented typing behaviour, assumed")
    from typelib.py import inspection as _i
    yes = [typing.ClassVar, typing.ClassVar[int], typing.ClassVar[typing.Optional[str]], typing.NewType("CVN", typing.ClassVar[str])]
    no = [int, typing.Final, typing.Final[int], typing.Optional[int], list[int], typing.Any, "ClassVar"]
    bad = [repr(x) for x in yes if _i.isclassvartype(x) is not True] + [repr(x) for x in no if _i.isclassvartype(x) is not False]
    chk.add(Ob(func, "bare-and-subscripted-ClassVar-are-recognised-other-forms-are-not", "ground", [], z3.BoolVal(not bad), {"bad": bad}))
    # isunresolvable: membership in the documented table (read from the source), by identity/equality; or a TypeVar;
    # or a subscripted callable / class-as-value (typing.get_origin is collections.abc.Callable or type)
    func = f"{INSP}.isunresolvable"
    table = I.mods.resolve(INSP, "_UNRESOLVABLE")
    I.builtin_models[typing.get_origin] = lambda I, path, a, k: SV(get_origin_v(to_val(a[0])))

    def mk(I, path):
        obj = path.fresh("obj")
        cls_const(typing.TypeVar)
        return [SV(obj)], {}, {"obj": obj}
    for pi, (path, out, obls, writes, cur) in enumerate(I.run_function(func, mk)):
        obj = cur["obj"]
        spec = z3.Or(*[obj == _safe_val(x) for x in table],
                     sub(cls_of(obj), cls_const(typing.TypeVar)),
                     get_origin_v(obj) == _safe_val(collections.abc.Callable), get_origin_v(obj) == _safe_val(type))
        goal = to_bool_term(out.value) == spec if out.kind == "ret" else z3.BoolVal(False)
        chk.add(Ob(func, "true-exactly-for-the-documented-unresolvable-annotations", f"p{pi}", path.hyps + class_axioms(), goal, {"outcome": out.kind}))
    # ground: the forms the statement names are covered, resolvable annotations are not
    from typelib.py import inspection
    T = typing.TypeVar("T")
    yes = [object, typing.Any, typing.Callable, collections.abc.Callable, typing.Callable[..., int], typing.Callable[[int], str],
           collections.abc.Callable[[int], str], T, type, type[int], typing.Type, typing.Type[int], Ellipsis]
    no = [int, str, list[int], dict[str, int], typing.Optional[int], typing.Literal[1], tuple[int, ...], type(None)]
    bad = [repr(x) for x in yes if inspection.isunresolvable(x) is not True] + [repr(x) for x in no if inspection.isunresolvable(x) is not False]
    chk.add(Ob(func, "type-variables-subscripted-callables-and-classes-as-values-are-unresolvable", "ground", [], z3.BoolVal(not bad), {"bad": bad}))


def _safe_val(x):
    return to_val(x)


# ----------------------------------------------------------------------------- ground tables (exhaustive over finite tables)
ABSTRACT_COLLECTIONS = {
    "Sequence": list, "MutableSequence": list, "Collection": list, "Iterable": list, "Set": set, "MutableSet": set,
    "Mapping": dict, "MutableMapping": dict,
}


def table_obligations(chk):
    """origin() of every documented abstract collection (typing alias and collections.abc ABC, bare and
    parameterised) is a concrete, instantiable builtin of that kind; class tables contain what the docs say."""
    from typelib.py import inspection
    func = f"{INSP}.origin"
    bad = []
    n = 0
    for abc_name, concrete in ABSTRACT_COLLECTIONS.items():
        abc = getattr(collections.abc, abc_name)
        spellings = [abc, abc[int] if abc_name not in ("Mapping", "MutableMapping") else abc[str, int]]
        tname = {"Set": "AbstractSet"}.get(abc_name, abc_name)
        talias = getattr(typing, tname)
        spellings += [talias, talias[int] if abc_name not in ("Mapping", "MutableMapping") else talias[str, int]]
        for sp in spellings:
            n += 1
            try:
                o = inspection.origin(sp)
                ok = (isinstance(o, type) and issubclass(o, abc) and not getattr(o, "__abstractmethods__", None)
                      and o is concrete)
                if ok:
                    o([] if concrete is not dict else {})
                if not ok:
                    bad.append(f"origin({sp}) = {o!r}, expected the concrete builtin {concrete.__name__}")
            except Exception as e:
                bad.append(f"origin({sp}) raised {e!r}")
    chk.add(Ob(func, "abstract-collections-map-to-a-concrete-instantiable-builtin-in-every-spelling", "ground", [],
               z3.BoolVal(not bad), {"checked": n, "bad": bad}))
    # GENERIC_TYPE_MAP itself: every entry maps an abstract class to a concrete subclass of it
    bad2 = []
    for k, v in inspection.GENERIC_TYPE_MAP.items():
        ko = typing.get_origin(k) or k
        if not (isinstance(v, type) and issubclass(v, ko) and not getattr(v, "__abstractmethods__", None)):
            bad2.append(f"{k} -> {v}")
    chk.add(Ob(f"{INSP}.GENERIC_TYPE_MAP", "every-entry-maps-an-abstract-class-to-a-concrete-subclass", "ground", [],
               z3.BoolVal(not bad2), {"entries": len(inspection.GENERIC_TYPE_MAP), "bad": bad2}))
    want_builtin = {int, bool, float, str, bytes, bytearray, list, set, frozenset, tuple, dict, type(None)}
    chk.add(Ob(f"{INSP}.BUILTIN_TYPES", "is-the-documented-set-of-builtins", "ground", [],
               z3.BoolVal(set(inspection.BUILTIN_TYPES) == want_builtin), {"got": sorted(map(repr, inspection.BUILTIN_TYPES))}))
    chk.add(Ob(f"{INSP}.STDLIB_TYPES", "contains-the-builtins-and-the-documented-stdlib-scalars", "ground", [],
               z3.BoolVal(want_builtin <= set(inspection.STDLIB_TYPES) and {datetime.date, datetime.datetime, datetime.time,
                          datetime.timedelta, decimal.Decimal, uuid.UUID, pathlib.Path} <= set(inspection.STDLIB_TYPES))))


def obligations(chk):
    class_predicates(chk)
    union_predicates(chk)
    simple_special(chk)
    table_obligations(chk)


def order_stability_obligations(chk, known=()):
    """Accessors answer for the annotation they are given, not for an equal one seen earlier: typing compares unions and
    literals without regard to member order, so a memoised accessor would hand the second spelling the first one's answer.
    Ground check on the real functions, both orders of first use, caches cleared in between."""
    from typelib.py import inspection
    from props.concrete_util import clear_typelib_caches
    pairs = [(typing.Union[int, str], typing.Union[str, int]), (typing.Literal["b", "a"], typing.Literal["a", "b"]),
             (typing.Union[None, int], typing.Optional[int]), (int | str | None, None | str | int),
             (dict[str, typing.Union[int, str]], dict[str, typing.Union[str, int]])]
    accessors = {"args": lambda t: inspection.args(t), "name": lambda t: inspection.name(t), "qualname": lambda t: inspection.qualname(t),
                 "origin": lambda t: inspection.origin(t), "unwrap": lambda t: inspection.unwrap(t)}
    found_known = []
    for acc, f in accessors.items():
        bad = []
        for a, b in pairs:
            for first, second in ((a, b), (b, a)):
                clear_typelib_caches()
                try:
                    cold = f(second)
                    clear_typelib_caches()
                    f(first)
                    warm = f(second)
                except Exception as e:
                    bad.append(f"{acc}({second!r}) raised {type(e).__name__}: {e}")
                    continue
                if repr(cold) != repr(warm) or (acc == "args" and tuple(warm) != tuple(typing.get_args(second))):
                    bad.append(f"{acc}({second!r}) == {warm!r} after {acc}({first!r}); cold answer {cold!r}")
        if acc in known and bad and all(" after " in b for b in bad):
            # listed known finding (memoised accessor keyed by typing's order-insensitive equality): reported by the driver, not here
            found_known.append((acc, bad[0]))
            continue
        chk.add(Ob(f"{INSP}.{acc}", "answers-are-for-the-given-spelling-not-an-equal-one-seen-earlier", "ground", [], z3.BoolVal(not bad), {"bad": bad[:4]}))
    clear_typelib_caches()
    return found_known


def structured_predicates(chk):
    """istypeddict / istypedtuple / isnamedtuple against the statement's reading (a class; a dict / tuple subclass by issubclass -
    at any depth of inheritance -; carrying the marker attribute), for an arbitrary object."""
    from props import c15
    from props.uf_world import uf
    I = c15.total_interp()
    specs = {
        "isnamedtuple": lambda o: z3.And(is_class(o), sub(as_cls(o), cls_const(tuple)), uf("hasattr:_fields", 1, BoolS)(o)),
        "istypedtuple": None,       # truthiness of __annotations__: totality only (C15)
        "istypeddict": None,
    }
    func = f"{INSP}.isnamedtuple"

    def mk(I, path):
        cls_const(tuple)
        obj = path.fresh("obj")
        return [SV(obj)], {}, {"obj": obj}
    for pi, (path, out, obls, writes, cur) in enumerate(I.run_function(func, mk)):
        goal = to_bool_term(out.value) == specs["isnamedtuple"](cur["obj"]) if out.kind == "ret" else z3.BoolVal(False)
        chk.add(Ob(func, "a-class-that-is-a-tuple-subclass-at-any-depth-and-has-_fields", f"p{pi}", path.hyps + class_axioms(), goal, {"outcome": out.kind}))
    # ground: subclasses of named tuples and generic named tuples are named tuples (the runtime's view: issubclass + _fields)
    import collections
    NT = collections.namedtuple("NT", "a b")

    class Sub(NT):
        pass

    class TNT(typing.NamedTuple):
        x: int
    from typelib.py import inspection
    bad = [repr(c) for c in (NT, Sub, TNT) if inspection.isnamedtuple(c) is not True] + [repr(c) for c in (tuple, list, int) if inspection.isnamedtuple(c) is not False]
    chk.add(Ob(func, "named-tuple-classes-their-subclasses-and-typing.NamedTuple-classes-are-recognised", "ground", [], z3.BoolVal(not bad), {"bad": bad}))


def instance_predicate_obligations(chk):
    """ishashable(x) is Python's own answer - hash(x) works, i.e. isinstance(x, collections.abc.Hashable) - for instances *and* for
    class objects (a class is hashable whatever its instances are).  Ground, on the real function."""
    import dataclasses
    from typelib.py import inspection

    @dataclasses.dataclass
    class EqDC:
        a: int = 0

    @dataclasses.dataclass(frozen=True)
    class FrozenDC:
        a: int = 0

    class NoHash:
        __hash__ = None
    objs = [1, "s", b"b", 1.5, None, (), (1, [2]), frozenset(), [], {}, set(), bytearray(b"x"), EqDC(), FrozenDC(), NoHash(), object(),
            int, str, list, dict, set, tuple, EqDC, FrozenDC, NoHash, type, typing.List[int], list[int], int | None, len, lambda: 0]
    bad = []
    for x in objs:
        want = isinstance(x, collections.abc.Hashable)
        try:
            got = inspection.ishashable(x)
        except Exception as e:
            got = f"raised {type(e).__name__}"
        if got is not want:
            bad.append(f"ishashable({x!r}) is {got!r}, Python's own answer is {want}")
    chk.add(Ob(f"{INSP}.ishashable", "answer-is-python's-own-for-instances-and-class-objects", "ground", [], z3.BoolVal(not bad),
               {"bad": bad, "objects": len(objs)}))


def value_predicate_obligations(chk):
    """The predicates about *values*: isbuiltininstance / isstdlibinstance are isinstance against the documented tables, isproperty
    is 'an instance of property or functools.cached_property', issimpleattribute is 'none of class, routine, property, descriptor',
    isabstract is inspect.isabstract or membership in the documented ABC table (symbolic, externals uninterpreted); isdescriptor is
    'has one of the four descriptor-protocol methods' (ground: Python's own hasattr answers over a catalogue)."""
    import functools
    import inspect as _inspect
    from typelib.py import inspection as _i
    I = make_interp()
    UF = {n: z3.Function("U_" + n, Val, BoolS) for n in ("isclass", "isroutine", "isproperty", "isdescriptor", "inspect_isabstract")}
    I.builtin_models[_inspect.isclass] = lambda I, p, a, k: SBool(UF["isclass"](to_val(a[0])))
    I.builtin_models[_inspect.isroutine] = lambda I, p, a, k: SBool(UF["isroutine"](to_val(a[0])))
    I.builtin_models[_inspect.isabstract] = lambda I, p, a, k: SBool(UF["inspect_isabstract"](to_val(a[0])))

    def run(name, spec, clause, stubs=()):
        func = f"{INSP}.{name}"
        for st in stubs:
            I.stubs[f"{INSP}.{st}"] = Stub(f"inspection.{st}", (lambda n: lambda I, p, a, k: SBool(UF[n](to_val(a[0]))))(st), f"{st}(v): its own clause in this check")

        def mk(I, path):
            for c in _i.BUILTIN_TYPES_TUPLE + _i.STDLIB_TYPES_TUPLE + (property, functools.cached_property):
                cls_const(c)
            v = path.fresh("v")
            return [SV(v)], {}, {"v": v}
        for pi, (path, out, obls, writes, cur) in enumerate(I.run_function(func, mk)):
            goal = to_bool_term(out.value) == spec(cur["v"]) if out.kind == "ret" else z3.BoolVal(False)
            chk.add(Ob(func, clause, f"p{pi}", path.hyps + class_axioms(), goal, {"outcome": out.kind, "why": str(out.value)[:160] if out.kind != "ret" else ""}))
        for st in stubs:
            I.stubs.pop(f"{INSP}.{st}", None)
    run("isbuiltininstance", lambda v: z3.Or(*[sub(cls_of(v), cls_const(c)) for c in _i.BUILTIN_TYPES_TUPLE]),
        "isinstance-against-the-documented-builtin-table")
    run("isstdlibinstance", lambda v: z3.Or(*[sub(cls_of(v), cls_const(c)) for c in _i.STDLIB_TYPES_TUPLE]),
        "isinstance-against-the-documented-stdlib-table")
    run("isproperty", lambda v: z3.Or(sub(cls_of(v), cls_const(property)), sub(cls_of(v), cls_const(functools.cached_property))),
        "an-instance-of-property-or-cached_property")
    run("issimpleattribute", lambda v: z3.Not(z3.Or(UF["isclass"](v), UF["isroutine"](v), UF["isproperty"](v), UF["isdescriptor"](v))),
        "neither-a-class-nor-a-routine-nor-a-property-nor-a-descriptor", stubs=("isproperty", "isdescriptor"))
    abcs = I.mods.resolve(INSP, "_ABCS")
    run("isabstract", lambda v: z3.Or(UF["inspect_isabstract"](v), *[v == _safe_val(x) for x in abcs]),
        "inspect.isabstract-or-a-member-of-the-documented-ABC-table")
    chk.trusted.update(I.assumed_used)

    # isdescriptor: ground
    class G:
        def __get__(self, o, t=None): return 1

    class S_:
        def __set__(self, o, v): pass

    class D:
        def __delete__(self, o): pass

    class N:
        def __set_name__(self, o, n): pass

    class Plain:
        x = 1
    objs = [G(), S_(), D(), N(), Plain(), 1, "s", None, property(lambda s: 1), functools.cached_property(lambda s: 1), len, (lambda: 0), int, Plain,
            staticmethod(len), classmethod(len), Plain.__dict__["__dict__"], [], {}]
    bad = []
    for x in objs:
        want = any(hasattr(x, m) for m in ("__get__", "__set__", "__delete__", "__set_name__"))
        try:
            got = _i.isdescriptor(x)
        except Exception as e:
            got = f"raised {type(e).__name__}"
        if got is not want:
            bad.append(f"isdescriptor({x!r}) is {got!r}, hasattr says {want}")
    chk.add(Ob(f"{INSP}.isdescriptor", "true-exactly-for-objects-with-a-descriptor-protocol-method", "ground", [], z3.BoolVal(not bad), {"bad": bad, "objects": len(objs)}))


def signature_helper_obligations(chk):
    """typed_dict_signature(TD): one keyword-only parameter per key, annotated with the key's type, required (no default)
    exactly for the keys in TD.__required_keys__ - whatever the keys are called and however totality was inherited."""
    import inspect as _inspect
    from typelib.py import inspection
    from props.concrete_util import clear_typelib_caches

    class Page(typing.TypedDict):
        items: list
        keys: int
        total: int

    class Patch(Page, total=False):
        note: str

    class Mixed(typing.TypedDict, total=False):
        a: typing.Required[int]
        b: str

    class Plain(typing.TypedDict):
        name: str
        qty: typing.NotRequired[int]
    bad = []
    for td in (Page, Patch, Mixed, Plain):
        clear_typelib_caches()
        try:
            sig = inspection.typed_dict_signature(td)
        except Exception as e:
            bad.append(f"typed_dict_signature({td.__name__}) raised {e!r}")
            continue
        hints = typing.get_type_hints(td)
        if list(sig.parameters) != list(hints):
            bad.append(f"typed_dict_signature({td.__name__}) has parameters {list(sig.parameters)}, keys are {list(hints)}")
            continue
        for k, p in sig.parameters.items():
            required = k in td.__required_keys__
            if p.kind is not _inspect.Parameter.KEYWORD_ONLY:
                bad.append(f"typed_dict_signature({td.__name__}).{k} is not keyword-only")
            if required != (p.default is _inspect.Parameter.empty):
                bad.append(f"typed_dict_signature({td.__name__}): key {k!r} is {'required' if required else 'not required'} but its "
                           f"parameter has default {p.default!r}")
    clear_typelib_caches()
    chk.add(Ob(f"{INSP}.typed_dict_signature", "one-keyword-only-parameter-per-key-required-exactly-for-the-required-keys", "ground", [],
               z3.BoolVal(not bad), {"bad": bad}))
    # tuple_signature: one positional-only parameter per declared member, annotated with the member type (typing.get_args order);
    # a bare or variadic tuple has a single *args parameter annotated with the member type (Any for a bare tuple)
    bad = []
    fixed = [tuple[int, str], tuple[int], typing.Tuple[int, str, float], tuple[int, list[str], None], tuple[typing.Optional[int], int]]
    variadic = [(tuple, typing.Any), (typing.Tuple, typing.Any), (tuple[int, ...], int), (typing.Tuple[str, ...], str), (tuple[list[int], ...], list[int])]
    for t in fixed:
        clear_typelib_caches()
        try:
            sig = inspection.tuple_signature(t)
        except Exception as e:
            bad.append(f"tuple_signature({t}) raised {e!r}")
            continue
        ps = list(sig.parameters.values())
        if [p.annotation for p in ps] != list(typing.get_args(t)) or any(p.kind is not _inspect.Parameter.POSITIONAL_ONLY for p in ps) \
                or len({p.name for p in ps}) != len(ps):
            bad.append(f"tuple_signature({t}) = {sig}")
    for t, member in variadic:
        clear_typelib_caches()
        try:
            sig = inspection.tuple_signature(t)
        except Exception as e:
            bad.append(f"tuple_signature({t}) raised {e!r}")
            continue
        ps = list(sig.parameters.values())
        if len(ps) != 1 or ps[0].kind is not _inspect.Parameter.VAR_POSITIONAL or ps[0].annotation != member:
            bad.append(f"tuple_signature({t}) = {sig}, expected one *args parameter annotated {member}")
    clear_typelib_caches()
    chk.add(Ob(f"{INSP}.tuple_signature", "one-positional-only-parameter-per-member-or-one-variadic-parameter", "ground", [],
               z3.BoolVal(not bad), {"bad": bad, "annotations": len(fixed) + len(variadic)}))


def type_hints_obligations(chk):
    """inspection.get_type_hints(obj): typing.get_type_hints(obj) without the dataclass KW_ONLY sentinel (for a parameterised user
    generic: of the class it was subscripted from); {} where typing raises NameError / TypeError; and, only when that is empty and
    `exhaustive`, the parameters of the signature (unannotated -> Any).  Ground, real function, cold caches; C05 / C09 / C18 take
    this function by contract."""
    import dataclasses
    import inspect as _inspect
    from typelib.py import inspection
    from props.concrete_util import clear_typelib_caches
    from props.c17_fixtures import DC, KW, NT, TD, CV, Box, Init, Unresolvable, fn
    bad = []

    def expect(label, got, want):
        if got != want or list(got) != list(want):
            bad.append(f"{label}: {got!r}, expected {want!r}")
    for obj in (DC, NT, TD, CV, fn):
        clear_typelib_caches()
        expect(f"get_type_hints({obj.__name__})", inspection.get_type_hints(obj), typing.get_type_hints(obj))
        expect(f"get_type_hints({obj.__name__}, exhaustive=False)", inspection.get_type_hints(obj, exhaustive=False), typing.get_type_hints(obj))
    clear_typelib_caches()
    expect("get_type_hints(KW)", inspection.get_type_hints(KW), {k: v for k, v in typing.get_type_hints(KW).items() if v is not dataclasses.KW_ONLY})
    expect("get_type_hints(Box[int])", inspection.get_type_hints(Box[int]), typing.get_type_hints(Box))
    expect("get_type_hints(Init)", inspection.get_type_hints(Init), {"p": int, "q": typing.Any})
    expect("get_type_hints(Init, exhaustive=False)", inspection.get_type_hints(Init, exhaustive=False), {})
    expect("get_type_hints(Unresolvable, exhaustive=False)", inspection.get_type_hints(Unresolvable, exhaustive=False), {})
    expect("get_type_hints(int, exhaustive=False)", inspection.get_type_hints(int, exhaustive=False), {})
    clear_typelib_caches()
    chk.add(Ob(f"{INSP}.get_type_hints", "typing's-own-hints-without-KW_ONLY-else-the-signature's-parameters-when-exhaustive", "ground", [],
               z3.BoolVal(not bad), {"bad": bad}))


def composed_predicates(chk):
    """Predicates defined *from other predicates*: each is executed for an arbitrary object with the predicates it consults
    uninterpreted (their own clauses are elsewhere in this check) and proved to be exactly the documented combination -
    so a dropped disjunct, a swapped connective or a test of the wrong sub-predicate fails a named clause."""
    from props.uf_world import uf
    I = make_interp()
    P = {}

    def pred(name):
        if name not in P:
            P[name] = z3.Function("P_" + name, Val, BoolS)
            I.stubs[f"{INSP}.{name}"] = Stub(f"inspection.{name}", (lambda n: lambda I, p, a, k: SBool(P[n](_argval(I, a[0]))))(name), f"{name}(x): its own clause in this check")
        return P[name]

    def _argval(I, a):
        return cls_val(a.t) if isinstance(a, SCls) else to_val(a)
    origin_as_val = lambda o: cls_val(origin_cls(o))
    rs = z3.Function("resolve_supertype", Val, Val)
    I.stubs[f"{INSP}.resolve_supertype"] = Stub("inspection.resolve_supertype", lambda I, p, a, k: SV(rs(to_val(a[0]))), "resolve_supertype(x): x with NewType layers removed (C11)")
    cases = {
        "isstructuredtype": (("isfixedtupletype", "isnamedtuple", "istypeddict", "isstdlibsubtype", "isuniontype", "isliteral"),
                             lambda o: z3.Or(P["isfixedtupletype"](o), P["isnamedtuple"](o), P["istypeddict"](o),
                                             z3.And(z3.Not(P["isstdlibsubtype"](origin_as_val(o))), z3.Not(P["isuniontype"](o)), z3.Not(P["isliteral"](o)))),
                             "a-fixed-tuple-a-named-tuple-a-TypedDict-or-any-non-stdlib-class-that-is-neither-a-union-nor-a-literal"),
        "issubscriptedcollectiontype": (("iscollectiontype", "issubscriptedgeneric"),
                                        lambda o: z3.And(P["iscollectiontype"](o), P["issubscriptedgeneric"](o)),
                                        "a-collection-type-that-is-subscripted"),
    }
    for name, (subs, spec, clause) in cases.items():
        for s_ in subs:
            pred(s_)
        func = f"{INSP}.{name}"

        def mk(I, path):
            obj = path.fresh("obj")
            return [SV(obj)], {}, {"obj": obj}
        for pi, (path, out, obls, writes, cur) in enumerate(I.run_function(func, mk)):
            goal = to_bool_term(out.value) == spec(cur["obj"]) if out.kind == "ret" else z3.BoolVal(False)
            chk.add(Ob(func, clause, f"p{pi}", path.hyps + class_axioms(), goal, {"outcome": out.kind, "why": str(out.value)[:120] if out.kind != "ret" else ""}))
        for s_ in subs:
            I.stubs.pop(f"{INSP}.{s_}", None)
            P.pop(s_, None)
    # the table predicates: subclass of a documented builtin / stdlib type (after NewType resolution), never raising
    from typelib.py import inspection as _insp
    for name, table_name in (("isbuiltinsubtype", "BUILTIN_TYPES_TUPLE"), ("isstdlibsubtype", "STDLIB_TYPES_TUPLE")):
        func = f"{INSP}.{name}"
        table = getattr(_insp, table_name)

        def mk2(I, path, table=table):
            for b in table:
                cls_const(b)
            obj = path.fresh("obj")
            return [SV(obj)], {}, {"obj": obj}
        for pi, (path, out, obls, writes, cur) in enumerate(I.run_function(func, mk2)):
            o = rs(cur["obj"])
            spec = z3.And(is_class(o), z3.Or(*[sub(as_cls(o), cls_const(b)) for b in table]))
            goal = to_bool_term(out.value) == spec if out.kind == "ret" else z3.BoolVal(False)
            chk.add(Ob(func, "a-class-that-after-NewType-resolution-is-a-subclass-of-a-type-of-the-documented-table-never-raising", f"p{pi}",
                       path.hyps + class_axioms(), goal, {"outcome": out.kind, "table": table_name}))
    # _safe_issubclass: issubclass for classes, False (never TypeError) for anything else
    func = f"{INSP}._safe_issubclass"

    def mk3(I, path):
        obj, base = path.fresh("obj"), path.fresh("base", Cls)
        return [SV(obj), SCls(base)], {}, {"obj": obj, "base": base}
    for pi, (path, out, obls, writes, cur) in enumerate(I.run_function(func, mk3)):
        spec = z3.And(is_class(cur["obj"]), sub(as_cls(cur["obj"]), cur["base"]))
        goal = to_bool_term(out.value) == spec if out.kind == "ret" else z3.BoolVal(False)
        chk.add(Ob(func, "issubclass-for-classes-False-for-everything-else-never-raising", f"p{pi}", path.hyps + class_axioms(), goal, {"outcome": out.kind}))
    chk.trusted.update(I.assumed_used)


def obligations(chk):          # noqa: F811
    # "after NewType and alias resolution": the resolution itself (inspection.unwrap, any interleaving of the wrapper kinds)
    from props import unwrap_contract
    unwrap_contract.obligations(chk)
    composed_predicates(chk)
    value_predicate_obligations(chk)
    type_hints_obligations(chk)
    signature_helper_obligations(chk)
    instance_predicate_obligations(chk)
    class_predicates(chk)
    union_predicates(chk)
    simple_special(chk)
    table_obligations(chk)
    structured_predicates(chk)
    spelling_obligations(chk)
    alias_obligations(chk)


INSTANCE_PREDS = {"ishashable", "isproperty", "isdescriptor", "isbuiltininstance", "isstdlibinstance", "issimpleattribute", "isabstract", "iscallable"}
SPECIAL_FORM_PREDS = {"isoptionaltype", "isuniontype", "isliteral", "isfinal", "isclassvartype", "isunresolvable", "isnonetype", "isforwardref", "isgeneric",
                      "issubscriptedgeneric", "isstructuredtype", "isstdlibtype", "isbuiltintype", "istypealiastype", "should_unwrap"}


def spelling_obligations(chk):
    """Every one-argument is* predicate answers alike for two spellings of one annotation (typing.List[int] vs list[int], X | None vs
    Optional[X], X | Y vs Union[X, Y]); ground check on the real functions with cold caches."""
    import inspect as _inspect
    from typelib.py import inspection
    from props.concrete_util import clear_typelib_caches
    pairs = [(int | None, typing.Optional[int]), (int | str, typing.Union[int, str]), (list[int], typing.List[int]), (dict[str, int], typing.Dict[str, int]),
             (tuple[int, ...], typing.Tuple[int, ...]), (list[int] | None, typing.Optional[typing.List[int]]), (set[int], typing.Set[int]),
             (collections.abc.Mapping[str, int], typing.Mapping[str, int]), (type[int], typing.Type[int])]
    preds = sorted(n for n, f in _inspect.getmembers(inspection, callable) if n.startswith("is") and not n.startswith("isinstance")
                   and getattr(f, "__module__", "") == inspection.__name__)
    bad, n = [], 0
    for name in preds:
        f = getattr(inspection, name)
        try:
            if len(_inspect.signature(f).parameters) != 1:
                continue
        except (TypeError, ValueError):
            continue
        if name in INSTANCE_PREDS:
            continue                    # predicates about values, not annotations
        for a, b in pairs:
            is_union_pair = isinstance(a, types.UnionType)
            if is_union_pair and name not in SPECIAL_FORM_PREDS:
                continue                # class-valued predicates applied to special forms are outside the statement's domain
            out = []
            for t in (a, b):
                clear_typelib_caches()
                try:
                    out.append(("ret", bool(f(t))))
                except Exception as e:
                    out.append(("raise", type(e).__name__))
            n += 1
            if out[0] != out[1]:
                bad.append(f"{name}({a!r}) -> {out[0]} but {name}({b!r}) -> {out[1]}")
    clear_typelib_caches()
    chk.add(Ob(f"{INSP}.is*", "predicates-answer-alike-for-both-spellings-of-an-annotation", "ground", [], z3.BoolVal(not bad), {"pairs": n, "bad": bad[:6]}))


def alias_obligations(chk):
    """isstdlibtype of a TypeAliasType is the answer for what the alias stands for (ground, real function, cold caches)."""
    from typelib.py import inspection, compat
    from props.concrete_util import clear_typelib_caches
    ns = {}
    exec("type IA = int | str\ntype OA = IA | None\ntype LA = list[int]\ntype QA = list[int] | int\ntype PA = QA | None\ntype DA = __import__('datetime').date", ns)
    SA = compat.TypeAliasType("SA", "list[SA]")
    want = {"IA": True, "OA": True, "LA": False, "QA": False, "PA": False, "DA": True}
    bad = []
    for k, w in want.items():
        clear_typelib_caches()
        try:
            got = inspection.isstdlibtype(ns[k])
        except Exception as e:
            got = f"raised {type(e).__name__}"
        if got is not w:
            bad.append(f"isstdlibtype({k} = {ns[k].__value__!r}) is {got!r}, expected {w}")
    clear_typelib_caches()
    if inspection.isstdlibtype(SA) is not False:
        bad.append("isstdlibtype of a string-valued alias is not False")
    clear_typelib_caches()
    chk.add(Ob(f"{INSP}.isstdlibtype", "an-alias-is-answered-by-what-it-stands-for", "ground", [], z3.BoolVal(not bad), {"bad": bad}))
    # a union is a stdlib type exactly when every member other than None is - wherever None is declared
    class Foo:
        pass
    cases = [(typing.Union[None, Foo], False), (typing.Union[Foo, None], False), (typing.Union[None, int], True), (typing.Union[int, None, str], True),
             (typing.Union[int, None, Foo], False), (typing.Union[Foo, None, int], False), (Foo | None, False), (None | Foo, False), (int | None, True),
             (typing.Union[int, str], True), (typing.Union[int, Foo], False)]
    bad2 = []
    for t, w in cases:
        clear_typelib_caches()
        try:
            got = inspection.isstdlibtype(t)
        except Exception as e:
            got = f"raised {type(e).__name__}"
        if got is not w:
            bad2.append(f"isstdlibtype({t!r}) is {got!r}, expected {w}")
    clear_typelib_caches()
    chk.add(Ob(f"{INSP}.isstdlibtype", "a-union-is-stdlib-exactly-when-every-member-other-than-None-is-wherever-None-is-declared", "ground", [],
               z3.BoolVal(not bad2), {"bad": bad2}))
