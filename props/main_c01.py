"""C01 check driver."""
from pyvc.driver import Check
from props import c01, c01_concrete

ASSUMPTIONS = [
    "Induction hypothesis RT(member) (the member routine pair restores every member of v) is assumed in each composite step and "
    "discharged for leaves by other properties' proofs: C04 (temporal text is exact and re-parsed exactly), C13 (scalar casts), C06 "
    "(enum / literal); lifting the steps to all of U is induction on the type / value (M1-M3, DESIGN 3.3: paper argument).",
    "Constructor contract: the bound container / dataclass / NamedTuple / TypedDict constructor applied to exactly the members of v, "
    "in order, rebuilds a value `same` as v (for sets: order-insensitive).",
    "serdes.load leaves a non-text value unchanged (C14); serdes.itervalues / iteritems enumerate an exact list / dict in order, once "
    "(C18); both marshal and unmarshal sides are dispatched to the same routine kind for T (handler tables pair up: replayed by the twin).",
    "Conf(T, v): a fixed tuple has exactly the declared arity; the items of a structured instance are declared fields; a TypedDict "
    "instance carries every required key.",
    "Unions: the first-acceptor rule is C08's contract; the round trip / weaker fixpoint clause for unions is replayed by the twin only (bounded).",
]


def searcher(ob):
    fails, n = c01_concrete.search("quick", 0, stop_at=1)
    if fails:
        return {"found": True, "kind": "c01-case", "case": fails[0], "searched": n}
    return {"found": False, "searched": n, "note": "no pool value fails the round trip under one level of wrapping (bounded)"}


def replay(data):
    case = data.get("case")
    if not case:
        print("replay: no concrete input recorded for", data.get("obligation"), str(data.get("solver"))[:300])
        return 1
    r = c01_concrete.run_recorded(case)
    print("replay", case, "->", r)
    return 1 if r else 0


def main(tier, seed):
    chk = Check("C01", tier, seed)
    chk.assumptions = list(ASSUMPTIONS)
    c01.obligations(chk)
    fails, n = c01_concrete.search(tier, seed, stop_at=3)
    chk.bounded.append({"name": "bounded round-trip replay on the real code: every pool annotation (scalars, temporals, enums, literals, containers in every "
                                "spelling, structured classes, NewType / Final, recursive Node, unions) and adversarial strings, bare and under list / dict / "
                                "Optional / variadic tuple / fixed tuple / dataclass-field wrapping (thorough: two levels)",
                        "evaluations": n, "failures": len(fails),
                        "rule": "unmarshal(T, marshal(v, t=T)) is `same` as v (classes at every position, UTC offsets); for annotations containing a "
                                "multi-member union the weaker fixpoint marshal(unmarshal(T, m), t=T) == m is accepted"})
    for i, f in enumerate(fails):
        chk.violation(f"bounded-replay#{i}", {"found": True, "kind": "c01-case", "case": f}, True)
    chk.resolve_failures(searcher)
    return chk.finish()
