"""C16 — executable reference model and operation-sequence runner (bounded; replay + cross-check)."""
from __future__ import annotations

import itertools
import random
import typing

from typelib.py import compat


class te:       # the alias constructor the library itself documents (typing's on 3.12+)
    TypeAliasType = compat.TypeAliasType


class A: ...
class B: ...
class C: ...


BASES = [A, B, C]
MODULE = __name__


def family():
    fam = []
    for b in BASES:
        n = b.__name__
        fam.append((f"{n}", b))
        fam.append((f"NewType({n})", typing.NewType(f"NT{n}", b)))
        fam.append((f"Alias({n})", te.TypeAliasType(f"AL{n}", b)))
        sa = te.TypeAliasType(f"SA{n}", n)
        fam.append((f"StrAlias({n})", sa))
        fam.append((f"Final[{n}]", typing.Final[b]))
        fam.append((f"Fwd({n})", typing.ForwardRef(n, module=MODULE, is_class=True)))
    return fam


FAMILY = family()
KEYS = [k for _, k in FAMILY]
NAMES = {id(k): n for n, k in FAMILY}


def spec_unwrap(k):
    """Independent restatement: strip NewType / TypeAliasType / Final / ClassVar layers."""
    while True:
        if isinstance(k, te.TypeAliasType) or type(k).__name__ == "TypeAliasType":
            v = k.__value__
            if isinstance(v, str):
                return typing.ForwardRef(v, module=k.__module__, is_class=True)
            k = v
        elif hasattr(k, "__supertype__"):
            k = k.__supertype__
        elif typing.get_origin(k) in (typing.Final, typing.ClassVar):
            k = typing.get_args(k)[0]
        else:
            return k


def spec_fwd(k):
    """The forward reference naming k (a class, alias or NewType with a name and a module)."""
    name = getattr(k, "__qualname__", None) or getattr(k, "__name__", None)
    mod = getattr(k, "__module__", None)
    if name is None:
        return None
    return typing.ForwardRef(name, module=mod, is_class=True)


MISSING = object()


def model_lookup(model: dict, k):
    if k in model:
        return model[k]
    if isinstance(k, typing.ForwardRef):
        return MISSING
    u = spec_unwrap(k)
    if u in model:
        return model[u]
    r = spec_fwd(k)
    if r is not None and r in model:
        return model[r]
    return MISSING


def run_sequence(ops):
    """ops: list of (op, key_index, value). Returns None or a description of the first disagreement."""
    from typelib import ctx
    real = ctx.TypeContext()
    model = {}
    for step, (op, ki, v) in enumerate(ops):
        k = KEYS[ki]
        want = model_lookup(model, k)
        if op == "insert":
            if k in model:
                continue      # only fresh keys are inserted
            real[k] = v
            model[k] = v
        elif op == "getitem":
            try:
                got = real[k]
            except KeyError:
                got = MISSING
            except Exception as e:
                return f"step {step}: ctx[{FAMILY[ki][0]}] raised {e!r}"
            if got is not want:
                return f"step {step}: ctx[{FAMILY[ki][0]}] = {got!r}, reference model {want!r}"
        elif op == "get":
            dflt = ("default", step)
            try:
                got = real.get(k, dflt)
            except Exception as e:
                return f"step {step}: ctx.get({FAMILY[ki][0]}) raised {e!r}"
            exp = dflt if want is MISSING else want
            if got is not exp:
                return f"step {step}: ctx.get({FAMILY[ki][0]}) = {got!r}, reference model {exp!r}"
        elif op == "in":
            if k in model and k not in real:
                return f"step {step}: stored key {FAMILY[ki][0]} not `in` ctx"
    return None


def all_ops():
    out = []
    for ki in range(len(KEYS)):
        out.append(("insert", ki))
        out.append(("getitem", ki))
        out.append(("get", ki))
        out.append(("in", ki))
    return out


def search(seed=0, exhaustive_len=2, random_n=2000, random_len=40, stop_at=1):
    fails, n, distinct = [], 0, set()
    ops = all_ops()
    for L in range(1, exhaustive_len + 1):
        for seq in itertools.product(ops, repeat=L):
            full = [(op, ki, f"v{i}") for i, (op, ki) in enumerate(seq)]
            n += 1
            distinct.add(tuple(seq))
            r = run_sequence(full)
            if r:
                fails.append({"ops": full, "failure": r})
                if stop_at and len(fails) >= stop_at:
                    return fails, n, len(distinct)
    rnd = random.Random(seed)
    for _ in range(random_n):
        L = rnd.randint(3, random_len)
        seq = [rnd.choice(ops) for _ in range(L)]
        full = [(op, ki, f"v{i}") for i, (op, ki) in enumerate(seq)]
        n += 1
        distinct.add(tuple(seq))
        r = run_sequence(full)
        if r:
            fails.append({"ops": full, "failure": r})
            if stop_at and len(fails) >= stop_at:
                break
    return fails, n, len(distinct)


def callee_conformance():
    """The callee contracts assumed by the proof, checked on the closed key family (bounded)."""
    from typelib.py import inspection, refs
    bad = []
    for n, k in FAMILY:
        u = inspection.unwrap(k)
        if inspection.unwrap(u) != u:
            bad.append(f"unwrap not idempotent on {n}")
        if u != spec_unwrap(k):
            bad.append(f"unwrap({n}) = {u!r} differs from spec {spec_unwrap(k)!r}")
        if not isinstance(k, typing.ForwardRef):
            try:
                r = refs.forwardref(k)
                if not isinstance(r, typing.ForwardRef):
                    bad.append(f"forwardref({n}) is not a ForwardRef")
            except Exception as e:
                bad.append(f"forwardref({n}) raised {e!r}")
    return bad, len(FAMILY)
