"""C13 — executable twin: valid values pass through unmarshal unchanged; unmarshal is idempotent."""
from __future__ import annotations

import datetime
import enum
import typing
import warnings

from props import typepool as tp
from props.concrete_util import clear_typelib_caches


class SE(str, enum.Enum):
    ONE = "1"
    NULL = "null"
    A = "a"


EXTRA = [
    ("SE (str-mixin enum)", SE, [SE.ONE, SE.NULL, SE.A]),
    ("list[SE]", list[SE], [[SE.ONE, SE.A]]),
    ("list[str] json-looking", list[str], [["1", "null", "[1]", "ab", "2020-01-01"], ["ab", "cd"]]),
    ("tuple[str,int] 2-char first", tuple[str, int], [("ab", 1)]),
    ("dict[str,str] json-looking", dict[str, str], [{"null": "1", "[1]": "true"}]),
    ("Optional[str] null-looking", typing.Optional[str], ["null", "None", None]),
    ("Union[None,str] null-looking", typing.Union[None, str], ["null", "None", None]),
    ("timedelta large", datetime.timedelta, [datetime.timedelta(days=300000, microseconds=1), datetime.timedelta.max]),
    ("list[tuple[int,int]]", list[tuple[int, int]], [[(1, 2), (3, 4)]]),
    ("Literal of strings that name classes", typing.Literal["int", "str", "bytes", "list", "type"], ["int", "str", "bytes", "list", "type"]),
    ("list[Literal['SE','A']] (member names a class of this module)", list[typing.Literal["SE", "A"]], [["SE", "A"]]),
    ("list[int] empty", list[int], [[]]),
    ("list[list[int]] with empty members", list[list[int]], [[[], [], [2]]]),
    ("dict[str,list[int]] with empty members", dict[str, list[int]], [{}, {"a": [], "b": [1]}]),
    ("set[int] empty", set[int], [set()]),
    ("dict[str,dict[str,int]] with empty members", dict[str, dict[str, int]], [{"a": {}}]),
]


def poison(r, seen=None):
    """What a caller may do with a result it owns: grow every mutable container inside it."""
    import collections
    import dataclasses
    seen = seen if seen is not None else set()
    if id(r) in seen:
        return
    seen.add(id(r))
    if isinstance(r, (list, collections.deque)):
        for x in list(r):
            poison(x, seen)
        r.append(7)
    elif isinstance(r, set):
        r.add(7)
    elif isinstance(r, dict):
        for x in list(r.values()):
            poison(x, seen)
        r["poison"] = 7
    elif isinstance(r, (tuple, frozenset)):
        for x in r:
            poison(x, seen)
    elif dataclasses.is_dataclass(r) and not isinstance(r, type):
        for f in dataclasses.fields(r):
            poison(getattr(r, f.name, None), seen)


def union_free(T):
    r = repr(T)
    if "Literal" in r:
        return True
    return "Union" not in r and " | " not in r or "Optional" in r or "None" in r


def search(stop_at=1):
    import typelib
    from props import c03_concrete
    warnings.simplefilter("ignore")
    clear_typelib_caches()
    fails, n, distinct = [], 0, set()
    for name, T, values in tp.pool() + EXTRA:
        if name == "int|str":
            continue
        for vi, v in enumerate(values):
            n += 1
            distinct.add((name, vi))
            try:
                r = typelib.unmarshal(T, v)
                ok = tp.same(r, v)
                msg = None if ok else f"unmarshal({name}, {v!r}) = {r!r}, expected the value itself"
            except Exception as e:
                msg = f"unmarshal({name}, {v!r}) raised {e!r}"
            if msg:
                fails.append({"kind": "pass-through", "type": name, "value_index": vi, "failure": msg})
                if stop_at and len(fails) >= stop_at:
                    return fails, n, len(distinct)
    # pass-through after the caller has used earlier results: a result belongs to the caller, who may grow it; the next valid
    # value of the same type must still come back unchanged (a routine that hands out an object it keeps would fail here)
    import copy
    for name, T, values in tp.pool() + EXTRA:
        if name == "int|str":
            continue
        for vi, v in enumerate(values):
            try:
                v1 = copy.deepcopy(v)
                poison(typelib.unmarshal(T, v1))
                v2 = copy.deepcopy(v)
                r = typelib.unmarshal(T, v2)
            except Exception:
                continue            # (reported by the first stage)
            n += 1
            distinct.add((name, "history", vi))
            if not tp.same(r, v):
                fails.append({"kind": "pass-through-after-mutating-earlier-results", "type": name, "value_index": vi,
                              "failure": f"unmarshal({name}, {v!r}) = {r!r} after the caller grew the containers of an earlier result for the same value"})
                if stop_at and len(fails) >= stop_at:
                    return fails, n, len(distinct)
    # idempotence over the C03 input pool
    for name, T, values in tp.pool():
        for xi, x in enumerate(c03_concrete.GENERIC_INPUTS):
            try:
                r1 = typelib.unmarshal(T, x)
            except Exception:
                continue
            n += 1
            distinct.add((name, "idem", xi))
            try:
                r2 = typelib.unmarshal(T, r1)
                ok = tp.same(r1, r2) or repr(r1) == repr(r2)
                msg = None if ok else f"unmarshal({name}, unmarshal({name}, {x!r})) = {r2!r} != {r1!r}"
            except Exception as e:
                msg = f"unmarshal({name}, {r1!r}) (a value unmarshal itself returned for {x!r}) raised {e!r}"
            if msg:
                fails.append({"kind": "idempotence", "type": name, "value_index": xi, "failure": msg})
                if stop_at and len(fails) >= stop_at:
                    return fails, n, len(distinct)
    return fails, n, len(distinct)


def run_recorded(case):
    f, _, _ = search(stop_at=None)
    for c in f:
        if (c["kind"], c["type"], c["value_index"]) == (case["kind"], case["type"], case["value_index"]):
            return c["failure"]
    return None


def private_field_witness():
    """Known finding C13-private-dataclass-field: only *public* fields of a structured object are read (C18's documented
    contract), so a valid instance whose private field differs from its default does not pass through unchanged."""
    import dataclasses
    import typelib

    @dataclasses.dataclass
    class P:
        a: int
        _b: int = 0
    with warnings.catch_warnings():
        warnings.simplefilter("ignore")
        r = typelib.unmarshal(P, P(1, 5))
    return None if r == P(1, 5) else f"unmarshal(P, P(a=1, _b=5)) == {r!r} for @dataclass P(a: int, _b: int = 0)"
