"""C04 check driver."""
from pyvc.driver import Check
from props import c04, c04b, c04_concrete

ASSUMPTIONS = [
    "Python ints are mathematical; timedelta fields are normalized (0 <= seconds < 86400, 0 <= microseconds < 10**6, "
    "|days| <= 999999999); -td is the normalized representation of the negated total; divmod by a positive constant is "
    "floor division; f'{n}' / f'{n:06}' print the decimal digits of a non-negative int (zero-padded to six).",
    "The duration writer is proved for datetime.timedelta inputs (pendulum.Duration inputs with years/months are outside U).",
    "Independent reader: ISO 8601 duration grammar ['-']P[nY][nM][nD][T[nH][nM][n[.ffffff]S]] with Y=365d, M=30d.",
    "Value-level parse-back of the standard library printers (str/repr/isoformat of int, float, Decimal, Fraction, UUID, "
    "paths, date, time, datetime) and of pendulum.parse on ISO text is assumed, not proved; it is sampled by the bounded "
    "cross-check (boundary-biased).  Floats: epoch seconds are passed to datetime.fromtimestamp / timedelta(seconds=) "
    "unchanged (machine arithmetic inside the standard library is not modelled).",
    "External calls in the routing obligations are uninterpreted functions of their arguments; datetime.timedelta."
    "__floordiv__(td, timedelta(microseconds=1)) is the exact microsecond count.",
    "unixtime(datetime.time) combines the time with today's date (documented): it is not a function of its input and is "
    "excluded from the numeric-convention clauses.",
]
KF_ZERO = "C04-zero-duration"


WITNESSES = {"C04-decode-before-cast": c04_concrete.decode_before_cast_witness}


def searcher(ob):
    fails, n, d = c04_concrete.search(stop_at=None)
    fails = [f for f in fails if not (f["kind"] == "iso-wellformed" and f["value"] == "datetime.timedelta(0)")]
    if fails:
        return {"found": True, "kind": "c04-case", "case": fails[0], "searched": n}
    return {"found": False, "searched": n, "engine": ob.meta.get("engine") or ob.meta.get("why"),
            "note": "scalar boundary pool: text and numeric wire forms round trip (bounded)"}


def replay(data):
    case = data.get("case")
    if not case:
        print("replay: no concrete input recorded for", data.get("obligation"), data.get("solver"))
        return 1
    r = c04_concrete.run_recorded(case)
    print("replay", case["kind"], case["type"], case["value"], "->", r)
    return 1 if r else 0


def main(tier, seed):
    chk = Check("C04", tier, seed)
    chk.assumptions = list(ASSUMPTIONS)
    c04.obligations(chk)
    c04b.obligations(chk)
    # known finding: witness replay on the real code
    fails, n, d = c04_concrete.search(stop_at=None)
    known = [f for f in fails if f["kind"] == "iso-wellformed" and f["value"] == "datetime.timedelta(0)"]
    other = [f for f in fails if f not in known]
    kf = [k for k in Check.known_findings("C04") if k["id"] == KF_ZERO]
    if known and kf:
        chk.kf_lines.append(f"KNOWN-FINDING: property=C04 {kf[0]['print']}")
    elif known and not kf:
        other = known + other
    chk.bounded.append({"name": "bounded cross-check: canonical text / numeric wire forms over the scalar boundary pool (real code)",
                        "evaluations": n, "distinct_nontrivial": d, "failures": len(other),
                        "rule": "ints, floats, Decimals, Fractions, UUIDs, paths (incl. numeric-looking), enums by value, dates, datetimes/times at 9 offsets incl. fold, 14 timedeltas (weeks, 59.999999 s, negatives, extremes) x 4 text carriers; epoch numbers; temporal->number/text"})
    if tier == "thorough" or other:
        for f in other[:3]:
            chk.violation("bounded-cross-check :: " + f["kind"], {"found": True, "kind": "c04-case", "case": f}, True)
    chk.known_witness("C04-decode-before-cast", c04_concrete.decode_before_cast_witness,
                      "canonical text that is itself a quoted literal (a path named '\"a\"') or reads as another enum member's value")
    chk.resolve_failures(searcher)
    return chk.finish()
