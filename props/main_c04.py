"""C04 check driver."""
from pyvc.driver import Check
from props import c04


def main(tier, seed):
    chk = Check("C04", tier, seed)
    c04.obligations(chk)
    chk.resolve_failures(None)
    return chk.finish()
