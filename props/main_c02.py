"""C02 check driver."""
from pyvc.driver import Check
from props import c02, c02_concrete

ASSUMPTIONS = [
    "Encoders, decoders and routines are arbitrary callables (uninterpreted applications); the entry points add no "
    "failure of their own (only a callee may raise).",
    "Round trip: decode(encode(v)) = U(dec(enc(M(v)))) = U(M(v)) needs dec(enc(w)) == w for Wire values w with str keys, "
    "64-bit ints and valid Unicode (assumed contract of the JSON backend, or the precondition on a user pair), Wire(M(v)) "
    "from C06 and U(M(v)) = v from C01; JSON validity of the default encoder's output is its own contract.",
    "marshaller(T) / unmarshaller(T) are functions of T (memoised factories; C12) and return routine objects.",
    "inspection.isbytestype(t) <=> t is bytes-like (C17).",
]


def searcher(ob):
    fails, n, d = c02_concrete.search(stop_at=1)
    if fails:
        return {"found": True, "kind": "c02-case", "case": fails[0], "searched": n}
    return {"found": False, "searched": n, "note": "type pool x 3 coder configurations: round trip, JSON validity and entry-point agreement hold"}


def replay(data):
    case = data.get("case")
    if not case:
        print("replay: no concrete input recorded for", data.get("obligation"), data.get("solver"))
        return 1
    r = c02_concrete.run_recorded(case)
    print("replay", case["type"], case["value"], case["config"], "->", r)
    return 1 if r else 0


def main(tier, seed):
    chk = Check("C02", tier, seed)
    chk.assumptions = list(ASSUMPTIONS)
    c02.obligations(chk)
    if tier in ("quick", "thorough"):      # the replay on the real code takes < 1 s: run it in both tiers (never counted as proved)
        fails, n, d = c02_concrete.search(stop_at=3)
        chk.bounded.append({"name": "bounded cross-check: type pool x {default, stdlib json, tagging codec} on the real entry points",
                            "evaluations": n, "distinct_nontrivial": d, "failures": len(fails),
                            "rule": "every pool (type, value) with str-keyed mappings and 64-bit ints x 3 configurations; bytes/bytearray/memoryview verbatim"})
        for f in fails:
            chk.violation("bounded-cross-check :: " + f["type"], {"found": True, "kind": "c02-case", "case": f}, True)
    chk.resolve_failures(searcher)
    return chk.finish()
