"""C15 check driver."""
from pyvc.driver import Check
from props import c15, c15_concrete

ASSUMPTIONS = [
    "Decomposition (paper argument): construction = static_order (C09: terminates-bounded, complete, acyclic) + the factory loop "
    "(proved here and in C11: every node bound under its type and unwrapped type, typing.Any pre-bound) + the dispatch (every "
    "predicate total: proved here) + each routine constructor (C05: looks up exactly args(t, evaluate=True) / the field hints; "
    "missing field types fall back to a warned no-op) + TypeContext's three-step lookup (C16) finding a plain predecessor under the "
    "member type or a cut predecessor under refs.forwardref(member) (C09 spelling clause, C11 flag-independence clause).",
    "External functions are total on every object: typing.get_origin / get_args, inspect.isclass / isroutine / getmro, str(), "
    "hasattr / getattr with default (documented behaviour; modelled as uninterpreted total functions).",
    "typing's arity facts are assumed, not proved: a subscripted mapping generic has two arguments, a subscripted collection at least "
    "one (tuple[()] excepted, which the fixed-tuple clause routes away); the twin replays every constructor of the grammar.",
    "inspection.origin is total on the annotation grammar (C17 catalogue); refs.evaluate of a member that is a type is that type.",
    "Repeatability (same routine classes and behaviour on a second build and after clearing every cache) is C12's obligation G/K "
    "for the memoised factories; here it is replayed by the twin on every grammar case (bounded).",
    "Unhashable annotations (typing rejects or cannot hash them) are outside the statement; the memoised callees require hashable arguments.",
]


def searcher(ob):
    fails, n = c15_concrete.search("quick", 0, stop_at=1)
    if fails:
        return {"found": True, "kind": "c15-case", "case": fails[0], "searched": n}
    return {"found": False, "searched": n, "note": "no annotation of the grammar (exhaustive depth 1, one-partner depth 2, sampled deeper) fails to construct or misbehaves (bounded)"}


def replay(data):
    case = data.get("case")
    if not case:
        print("replay: no concrete input recorded for", data.get("obligation"), str(data.get("solver"))[:300])
        return 1
    r = c15_concrete.run_recorded(case)
    print("replay", case, "->", r)
    return 1 if r else 0


def main(tier, seed):
    chk = Check("C15", tier, seed)
    chk.assumptions = list(ASSUMPTIONS)
    c15.obligations(chk)
    fails, n = c15_concrete.search(tier, seed, stop_at=3)
    chk.bounded.append({"name": "bounded grammar sweep on the real code: 43 leaves (scalars, Any, object, bare / typing-spelled generics, TypeVars free / bound / "
                                "constrained, Callable forms, type[X], user Generic classes, classes without hints, tuple[()]) x 13 constructors (incl. repeated variadic "
                                "tuples shallow-first and deep-first, two variadic tuples, dataclass fields in both orders), depth 2 exhaustive for one partner "
                                "(thorough: 5 partners, sampled depth 3)",
                        "evaluations": n, "failures": len(fails),
                        "rule": "marshaller / unmarshaller / codec construct within 10 s without exception on first build, second build and after clearing "
                                "all caches, with the same routine class; sample values convert member-wise with unresolved positions passed through by identity"})
    for i, f in enumerate(fails):
        chk.violation(f"bounded-sweep#{i}", {"found": True, "kind": "c15-case", "case": f}, True)
    chk.resolve_failures(searcher)
    return chk.finish()
