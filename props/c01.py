"""C01 — unmarshal(T, marshal(v, t=T)) restores v: the composite pair steps, on the real code.

For every composite kind the *real* marshaller __call__ is executed symbolically on an arbitrary conforming value v and its
result is fed to the *real* unmarshaller __call__ of the same kind (one symbolic run, both ASTs), with the member routine
pairs uninterpreted and assumed to round-trip on the members of v (the induction hypothesis RT(member); M3).  Proved:
the unmarshaller applies the constructor the dispatch bound (origin / the class itself) to exactly the members of v, in
order, nothing dropped, duplicated or raised - so the result is `same` as v by the constructor contract (a container /
dataclass constructor applied to the members of v rebuilds v).  Links taken from other properties' contracts: serdes.load
leaves a non-text value unchanged (C14), serdes.itervalues / iteritems enumerate an exact list / dict in order, once (C18).
Leaf pairs are C04 (temporal), C13 (scalar cast), C06 (enum / literal): cited, and replayed by the twin.
"""
from __future__ import annotations

import z3

from pyvc.core import (SV, SInt, SBool, SSeq, SDict, Obj, Val, VNone, BoolS, IntS, to_val, to_int, to_bool_term, PyRaise, Unsupported,
                       run, run_raises, Stub)
from pyvc.expr import seq_of
from pyvc.driver import Ob, cover_hyps
from pyvc.ground import Q
from pyvc.env import _MISSING
from props import routine_world as rw
from props import routines as R

CLAUSES = ["the-bound-constructor-is-applied", "to-exactly-the-members-of-v-in-order", "and-nothing-raises"]
PAIRS = [("iterable", "SubscriptedIterableMarshaller", "SubscriptedIterableUnmarshaller"),
         ("mapping", "SubscriptedMappingMarshaller", "SubscriptedMappingUnmarshaller"),
         ("fixedtuple", "FixedTupleMarshaller", "FixedTupleUnmarshaller"),
         ("structured", "StructuredTypeMarshaller", "StructuredTypeUnmarshaller")]


def pair_interp():
    """routine world + serdes contracts on the exact containers a marshaller returns"""
    I = R.make_interp()
    base_load = I.stubs["typelib.serdes.load"]
    base_vals = I.stubs["typelib.serdes.itervalues"]
    base_items = I.stubs["typelib.serdes.iteritems"]

    def exact(x):
        return isinstance(x, (SSeq, list, tuple, rw.CompDict, dict))

    def load(I, path, a, k):
        return a[0] if exact(a[0]) else base_load.fn(I, path, a, k)      # C14: a non-text value is returned unchanged

    def itervalues(I, path, a, k):
        x = a[0]
        if isinstance(x, (SSeq, list, tuple)):                            # C18: a sequence -> its elements, in order, once
            return seq_of(x)
        if isinstance(x, rw.CompDict):                                    # C18: a mapping -> its values
            return SSeq(x.n, lambda i, x=x: x.val(i), "gen")
        return base_vals.fn(I, path, a, k)

    def iteritems(I, path, a, k):
        x = a[0]
        if isinstance(x, rw.CompDict):                                    # C18: a mapping -> its items
            probe = path.fresh("probe", IntS)
            if not z3.is_true(z3.simplify(x.keep(SInt(probe)))):
                # a filtered comprehension: enumerating it index-wise is only right if the filter keeps every item - side obligation
                n = x.n if not isinstance(x.n, int) else z3.IntVal(x.n)
                I.obligations.append(("the-marshalled-dict-keeps-every-item-of-v", list(path.hyps) + [probe >= 0, probe < n], x.keep(SInt(probe))))
            return SSeq(x.n, lambda i, x=x: (x.key(i), x.val(i)), "gen")
        if isinstance(x, (SSeq, list, tuple)):                            # C18: a sequence that is not pairs -> (index, element)
            s = seq_of(x)
            return SSeq(s.length, lambda i, s=s: (SInt(to_int(i)) if not isinstance(i, int) else i, s.at(i)), "gen")
        return base_items.fn(I, path, a, k)
    I.stubs["typelib.serdes.load"] = Stub("serdes.load", load, base_load.assumed)
    I.stubs["typelib.serdes.itervalues"] = Stub("serdes.itervalues", itervalues, base_vals.assumed)
    I.stubs["typelib.serdes.iteritems"] = Stub("serdes.iteritems", iteritems, base_items.assumed)
    return I


def rt_hyp(m, u, name):
    """induction hypothesis RT(member): the member pair restores every member value (instantiated at the members of v)"""
    return Q([Val], lambda x: z3.And(z3.Not(run_raises(m, x)), z3.Not(run_raises(u, run(m, x))), run(u, run(m, x)) == x),
             trigger=run, pick=[1], name=name)


def _bound_call(I, obj):
    m = I.find_method(obj.cls, "__call__")
    return m.bind(obj)


def pair_obligations(chk):
    for kind, mcls, ucls in PAIRS:
        _pair(chk, kind, mcls, ucls)


def _pair(chk, kind, mcls, ucls):
    I = pair_interp()
    func = f"{R.UN}.{ucls}.__call__"
    label = f"pair({mcls} ; {ucls})"
    box = {}

    def mk(I, path):
        for a in R.routine_axioms():
            path.assume(a)
        v = path.fresh("v")
        origin = rw.ctor(path.fresh("self_origin"))
        tcls = rw.ctor(path.fresh("self_t"))
        mf = {"t": tcls, "origin": origin, "context": rw.Ctx(path.fresh("ctx_m")), "var": None}
        uf = {"t": tcls, "origin": origin, "context": rw.Ctx(path.fresh("ctx_u")), "var": None}
        cur = {"v": v, "origin": origin, "tcls": tcls}
        path.assume(rw.vals_n(v) >= 0)
        path.assume(rw.items_n(v) >= 0)
        if kind == "iterable":
            m, u = path.fresh("member_marshaller"), path.fresh("member_unmarshaller")
            mf["values"], uf["values"] = SV(m), SV(u)
            path.assume(Q([IntS], lambda i: z3.Implies(z3.And(i >= 0, i < rw.vals_n(v)), _rt(m, u, rw.val_at(v, i))), name="RT(member) on the members of v"))
        elif kind == "mapping":
            mk_, uk, mv, uv = (path.fresh(n) for n in ("key_marshaller", "key_unmarshaller", "value_marshaller", "value_unmarshaller"))
            mf["keys"], mf["values"], uf["keys"], uf["values"] = SV(mk_), SV(mv), SV(uk), SV(uv)
            path.assume(Q([IntS], lambda i: z3.Implies(z3.And(i >= 0, i < rw.items_n(v)),
                                                       z3.And(_rt(mk_, uk, rw.item_k(v, i)), _rt(mv, uv, rw.item_v(v, i)))), name="RT(key), RT(value) on the items of v"))
        elif kind == "fixedtuple":
            n = path.fresh("n_members", IntS)
            path.assume(n >= 0)
            fm, fu = z3.Function("member_marshaller_at", IntS, Val), z3.Function("member_unmarshaller_at", IntS, Val)
            mf["ordered_routines"] = SSeq(n, lambda j: SV(fm(to_int(j))), "list")
            uf["ordered_routines"] = SSeq(n, lambda j: SV(fu(to_int(j))), "list")
            mf["stack"] = uf["stack"] = SV(path.fresh("stack"))
            path.assume(rw.vals_n(v) == n)                     # Conf(T, v): a tuple of exactly the declared arity
            path.assume(Q([IntS], lambda i: z3.Implies(z3.And(i >= 0, i < n), _rt(fm(i), fu(i), rw.val_at(v, i))), name="RT(member i) on member i of v"))
            cur["n"] = n
        elif kind == "structured":
            fhas = z3.Function("is_field", Val, BoolS)
            gm, gu = z3.Function("field_marshaller", Val, Val), z3.Function("field_unmarshaller", Val, Val)
            mf["fields_by_var"] = SDict(lambda k: fhas(k), lambda k: SV(gm(k)))
            uf["fields_by_var"] = SDict(lambda k: fhas(k), lambda k: SV(gu(k)))
            # Conf(T, v): the items of an instance are exactly its (public) fields
            path.assume(Q([IntS], lambda i: z3.Implies(z3.And(i >= 0, i < rw.items_n(v)),
                                                       z3.And(fhas(rw.item_k(v, i)), _rt(gm(rw.item_k(v, i)), gu(rw.item_k(v, i)), rw.item_v(v, i)))),
                          name="every item of v is a declared field, with RT(field type) on its value"))
            cur["fhas"] = fhas
            # Conf(T, v): an instance of a TypedDict class carries every required key
            tt = tcls.t
            path.assume(Q([IntS], lambda j: z3.Implies(z3.And(j >= 0, j < rw.required_n(tt)),
                                                       z3.And(R.required_witness(tt, j) >= 0, R.required_witness(tt, j) < rw.items_n(v),
                                                              rw.item_k(v, R.required_witness(tt, j)) == rw.required_key(tt, j))),
                          name="v carries every required key of T"))
        mself = rw.routine_self(I, R.MA, mcls, mf)
        uself = rw.routine_self(I, R.UN, ucls, uf)
        try:
            wire = I.call_value(_bound_call(I, mself), [SV(v)], {}, path)
            cur["wire"] = wire
            cur["m_raised"] = None
        except PyRaise as e:
            cur["m_raised"] = e
            wire = SV(path.fresh("no_wire"))
        return [uself, wire], {}, cur
    results = I.run_function(func, mk)
    for pi, res in enumerate(results):
        _pair_one(chk, label, kind, pi, res)
    if results:
        chk.add(Ob(label, "cover", "pre", cover_hyps(results), z3.BoolVal(True), expect="sat"))
    chk.trusted.update(I.assumed_used)


def _rt(m, u, x):
    return z3.And(z3.Not(run_raises(m, x)), z3.Not(run_raises(u, run(m, x))), run(u, run(m, x)) == x)


def _pair_one(chk, label, kind, pi, res):
    path, out, obls, writes, cur = res
    pid, hy, v = f"p{pi}", path.hyps, cur["v"]
    for nm, pc, goal in obls:
        chk.add(Ob(label, nm, pid, pc, goal))

    def fail(why):
        for nm in CLAUSES:
            chk.add(Ob(label, nm, pid, hy, z3.BoolVal(False), why))
    if out.kind == "end":
        return                      # a loop-contract path (its obligations were added above)
    if cur.get("m_raised") is not None:
        return fail({"note": "the marshaller raised", "exc": str(cur["m_raised"].exc_cls)})
    if out.kind != "ret":
        return fail({"outcome": out.kind, "why": str(out.value if out.kind != "raise" else out.exc.exc_cls)[:200]})
    r = out.value
    if not isinstance(r, rw.Built):
        return fail({"note": "result is not a constructor application", "got": repr(r)[:120]})
    want = cur["tcls"] if kind == "structured" else cur["origin"]
    chk.add(Ob(label, CLAUSES[0], pid, hy, z3.BoolVal(r.ctor is want)))
    i = path.fresh("i", IntS)
    if kind in ("iterable", "fixedtuple"):
        s = r.source
        n = s.length if not isinstance(s.length, int) else z3.IntVal(s.length)
        chk.add(Ob(label, CLAUSES[1], pid, hy + [i >= 0, i < rw.vals_n(v)], z3.And(n == rw.vals_n(v), to_val(s.at(SInt(i))) == rw.val_at(v, i))))
        raises = getattr(s, "saved_raises", None) or s.elem_raises
        chk.add(Ob(label, CLAUSES[2], pid, hy + [i >= 0, i < rw.vals_n(v)], z3.Not(raises(SInt(i))) if raises else z3.BoolVal(True)))
    elif kind == "mapping":
        body = r.source
        if isinstance(body, rw.CompDict):
            n, key_i, val_i, keep, rz = body.n, to_val(body.key(SInt(i))), to_val(body.val(SInt(i))), body.keep(SInt(i)), body.raises(SInt(i))
        else:
            s = seq_of(body)
            pair = s.at(SInt(i))
            raises = getattr(s, "saved_raises", None) or s.elem_raises
            n, key_i, val_i, keep, rz = s.length, to_val(pair[0]), to_val(pair[1]), z3.BoolVal(True), (raises(SInt(i)) if raises else z3.BoolVal(False))
        n = n if not isinstance(n, int) else z3.IntVal(n)
        chk.add(Ob(label, CLAUSES[1], pid, hy + [i >= 0, i < rw.items_n(v)],
                   z3.And(n == rw.items_n(v), keep, key_i == rw.item_k(v, i), val_i == rw.item_v(v, i))))
        chk.add(Ob(label, CLAUSES[2], pid, hy + [i >= 0, i < rw.items_n(v)], z3.Not(rz)))
    elif kind == "structured":
        body = r.kwargs
        if not isinstance(body, rw.CompDict):
            return fail({"note": "kwargs are not a field comprehension"})
        n = body.n if not isinstance(body.n, int) else z3.IntVal(body.n)
        chk.add(Ob(label, CLAUSES[1], pid, hy + [i >= 0, i < rw.items_n(v)],
                   z3.And(n == rw.items_n(v), body.keep(SInt(i)), to_val(body.key(SInt(i))) == rw.item_k(v, i),
                          to_val(body.val(SInt(i))) == rw.item_v(v, i))))
        chk.add(Ob(label, CLAUSES[2], pid, hy + [i >= 0, i < rw.items_n(v)], z3.Not(body.raises(SInt(i)))))


def obligations(chk):
    pair_obligations(chk)


# ----------------------------------------------------------------------------- the two dispatch tables pair up
# order facts the first-match dispatch relies on (each from a subsumption between the classes the predicates accept):
PRECEDES = [
    ("isforwardref", "*"), ("isunresolvable", "*rest"), ("isnonetype", "*rest"),
    ("isliteral", "isuniontype"),           # Literal is answered before unions (isoptionaltype also accepts Literal[..., None])
    ("isuniontype", "isenumtype"),
    # an Enum with a data-type mixin (str, int, ...) also satisfies the scalar predicates: by value, not by text
    ("isenumtype", "isstringtype"), ("isenumtype", "isbytestype"), ("isenumtype", "isnumbertype"), ("isenumtype", "isintegertype"),
    ("isenumtype", "isfloattype"), ("isenumtype", "isdecimaltype"), ("isenumtype", "isfractiontype"),
    ("isdatetimetype", "isdatetype"),       # datetime is a subclass of date
    ("istypeddict", "ismappingtype"), ("istypedtuple", "isfixedtupletype"), ("isnamedtuple", "isfixedtupletype"),
    ("istypedtuple", "isiterabletype"), ("isnamedtuple", "isiterabletype"),
    ("isfixedtupletype", "isiterabletype"), ("ismappingtype", "isiterabletype"), ("isiteratortype", "isiterabletype"),
    ("isstringtype", "isiterabletype"), ("isbytestype", "isiterabletype"),
]


def table_obligations(chk):
    """Both `_HANDLERS` tables (read from the source) answer the overlapping predicates in the order the subsumptions demand,
    so a type is routed to the same kind of routine in both directions."""
    import ast
    from pyvc.interp import Interp
    from pyvc.builtins_model import install
    I = install(Interp())
    orders = {}
    for mod in (R.UN.replace(".routines", ".api"), R.MA.replace(".routines", ".api")):
        node = None
        for st in I.src.toplevel(mod):
            tg = st.targets[0] if isinstance(st, ast.Assign) else getattr(st, "target", None)
            if isinstance(st, (ast.Assign, ast.AnnAssign)) and isinstance(tg, ast.Name) and tg.id == "_HANDLERS":
                node = st.value
        order = []
        for k in (node.keys if isinstance(node, ast.Dict) else []):
            names = [n.attr for n in ast.walk(k) if isinstance(n, ast.Attribute) and isinstance(n.value, ast.Name) and n.value.id == "inspection"]
            # a lambda `issubscriptedgeneric(t) and ismappingtype(t)` counts as its discriminating predicate
            names = [n for n in names if n != "issubscriptedgeneric"] or names
            order.append(names[0] if names else ast.unparse(k))
        orders[mod] = order
        pos = {n: i for i, n in reversed(list(enumerate(order)))}
        bad = []
        for a, b in PRECEDES:
            if a not in pos:
                continue
            if b == "*":
                if pos[a] != 0:
                    bad.append(f"{a} is not the first entry")
            elif b == "*rest":
                later_special = [x for x in ("isliteral", "isuniontype", "isenumtype") if x in pos and pos[x] < pos[a]]
                if later_special:
                    bad.append(f"{a} comes after {later_special}")
            elif b in pos and not pos[a] < pos[b]:
                bad.append(f"{a} must be answered before {b}")
        chk.add(Ob(f"{mod}._HANDLERS", "overlapping-predicates-are-answered-in-subsumption-order", "ast", [], z3.BoolVal(not bad), {"violations": bad, "order": order}))
    # (no clause demands the same relative order of *non-overlapping* predicates in the two tables: swapping e.g. the uuid and
    #  pattern entries is harmless and must stay green)


def obligations(chk):          # noqa: F811  (extends the pair steps with the dispatch-table pairing)
    pair_obligations(chk)
    table_obligations(chk)
