"""C03 check driver."""
from pyvc.driver import Check
from props import c03


def main(tier, seed):
    chk = Check("C03", tier, seed)
    c03.obligations(chk)
    chk.resolve_failures(None)
    return chk.finish()
