"""C03 check driver."""
from pyvc.driver import Check
from props import c03, c03_concrete

ASSUMPTIONS = [
    "Induction step: member routines are assumed Conf-sound; lifting to every T in U and every depth is structural "
    "induction on T / induction on the size of the value (meta-lemmas M2, M3: paper argument).",
    "Calling a class returns an instance of exactly that class (no __new__ overrides in U); datetime.fromtimestamp "
    "returns a datetime.datetime, x.replace(...) keeps x's class, x.time()/x.date() return datetime.time/date, "
    "re.compile returns a re.Pattern, str()/int()/float() return instances of those classes.",
    "Every other call into the standard library / pendulum / serdes.dateparse returns an arbitrary value or raises "
    "(havoc): sound for a property that allows raising.",
    "Builtin container constructors called on an iterable return an instance of that class holding exactly the "
    "produced elements; inspection.origin(t) is a concrete class of t's kind (C17 contract); issubclass facts for the "
    "classes named in the code are read from the running interpreter.",
    "The dispatch (_HANDLERS) gives each routine class a target of the stated base class (C15/C17).",
    "Union results are member-routine results (C08's first-acceptor clause).",
]


def searcher(ob):
    fails, n, d = c03_concrete.search(stop_at=1)
    if fails:
        return {"found": True, "kind": "c03-input", "case": fails[0], "searched": n}
    return {"found": False, "searched": n, "engine": ob.meta.get("engine"),
            "note": "type-pool x (generic + corrupted wire) inputs: every returned value conforms"}


def replay(data):
    case = data.get("case")
    if not case:
        print("replay: no concrete input recorded for", data.get("obligation"), data.get("solver"))
        return 1
    r = c03_concrete.run_recorded(case)
    print("replay", case["type"], case["input"], "->", r)
    return 1 if r else 0


def main(tier, seed):
    chk = Check("C03", tier, seed)
    chk.assumptions = list(ASSUMPTIONS)
    c03.obligations(chk)
    if tier in ("quick", "thorough"):      # the replay on the real code takes < 1 s: run it in both tiers (never counted as proved)
        fails, n, d = c03_concrete.search(stop_at=3)
        chk.bounded.append({"name": "bounded cross-check: type pool x (generic inputs + corrupted wire forms) on the real unmarshal",
                            "evaluations": n, "distinct_nontrivial": d, "failures": len(fails),
                            "rule": "every pool type x 33 generic inputs + wire forms of valid values with a field dropped/renamed/retyped, element removed/added, nesting changed"})
        for f in fails:
            chk.violation("bounded-cross-check :: " + f["type"], {"found": True, "kind": "c03-input", "case": f}, True)
    chk.known_witness("C03-user-generic-type-argument", c03_concrete.user_generic_witness,
                      "a parameterised user generic whose TypeVar field receives a value of another class")
    chk.resolve_failures(searcher)
    return chk.finish()
