"""C06 check driver."""
from pyvc.driver import Check
from props import c06, c06_concrete

ASSUMPTIONS = [
    "str(x) returns an exact str; calling a class returns an instance of exactly that class (int(x), float(x), bool(x)); "
    "comprehension displays build new exact list / dict objects (language reference).",
    "Wire-ness composes: a composite's members are member-routine results, which are Wire by the induction hypothesis "
    "(meta-lemma M2, paper); Enum members carry primitive values and Literal declares primitives (definition of U).",
    "serdes.isoformat returns an exact str (its content is C04's subject); iteritems/itervalues per C18; keys of a "
    "structured marshal are the field names yielded by iteritems (exact str).",
    "'Same on every call': the routine holds only construction-time state (no attribute writes in __call__: checked as "
    "a frame clause) and marshaller(T) is memoised (C12).",
    "Dispatch sends int/float/bool targets to CastMarshaller with origin in {int, float, bool} (C17 / _HANDLERS).",
]


def searcher(ob):
    fails, n, d = c06_concrete.search(stop_at=1)
    if fails:
        return {"found": True, "kind": "c06-value", "case": fails[0], "searched": n}
    return {"found": False, "searched": n, "engine": ob.meta.get("engine"),
            "note": "type-pool + subclass-instance values: every output is fresh plain JSON data"}


def replay(data):
    case = data.get("case")
    if not case:
        print("replay: no concrete input recorded for", data.get("obligation"), data.get("solver"))
        return 1
    r = c06_concrete.run_recorded(case)
    print("replay", case["case"], case["value"], "->", r)
    return 1 if r else 0


def main(tier, seed):
    chk = Check("C06", tier, seed)
    chk.assumptions = list(ASSUMPTIONS)
    c06.obligations(chk)
    if tier in ("quick", "thorough"):      # the replay on the real code takes < 1 s: run it in both tiers (never counted as proved)
        fails, n, d = c06_concrete.search(stop_at=3)
        chk.bounded.append({"name": "bounded cross-check: marshal over the type pool, subclass instances and Literal non-members",
                            "evaluations": n, "distinct_nontrivial": d, "failures": len(fails),
                            "rule": "every pool (type, value) without bytes-like members + IntEnum/str-subclass/OrderedDict/deque inputs + non-members"})
        for f in fails:
            chk.violation("bounded-cross-check :: " + f["case"], {"found": True, "kind": "c06-value", "case": f}, True)
    chk.resolve_failures(searcher)
    return chk.finish()
