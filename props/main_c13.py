"""C13 check driver."""
from pyvc.driver import Check
from props import c13, c13_concrete

ASSUMPTIONS = [
    "Callee contracts proved in C14: serdes.decode is the identity on values that are not bytes-like; serdes.load is the "
    "identity on values that are not text-like.",
    "Builtin layouts do not mix (a subclass of one builtin family has no unrelated builtin ancestor); re.compile(p) returns "
    "p for an already compiled pattern; None is the only instance of NoneType.",
    "Declared Literal values are distinct by (class, value) - typing de-duplicates them that way; two may be == when their classes "
    "differ (Literal[True, 1]). (An earlier version assumed distinctness under == alone; see DESIGN 11.5.)",
    "Composite step: C05's member-wise clause + this property for the members (induction hypothesis) + builtin "
    "constructors rebuilding an equal container from the value's own elements give `same`; lifting over U and depth is "
    "meta-lemma M2/M3 (paper). Idempotence is the instance v := unmarshal(T, x) with C03's conformance.",
]


WITNESSES = {"C13-private-dataclass-field": c13_concrete.private_field_witness}


def searcher(ob):
    fails, n, d = c13_concrete.search(stop_at=1)
    if fails:
        return {"found": True, "kind": "c13-case", "case": fails[0], "searched": n}
    return {"found": False, "searched": n, "engine": ob.meta.get("why"),
            "note": "type pool + adversarial text values: every valid value passes through; idempotent over the C03 inputs"}


def replay(data):
    case = data.get("case")
    if not case:
        print("replay: no concrete input recorded for", data.get("obligation"), data.get("solver"))
        return 1
    r = c13_concrete.run_recorded(case)
    print("replay", case["kind"], case["type"], case["value_index"], "->", r)
    return 1 if r else 0


def main(tier, seed):
    chk = Check("C13", tier, seed)
    chk.assumptions = list(ASSUMPTIONS)
    c13.obligations(chk)
    if tier in ("quick", "thorough"):      # the replay on the real code takes < 1 s: run it in both tiers (never counted as proved)
        fails, n, d = c13_concrete.search(stop_at=3)
        chk.bounded.append({"name": "bounded cross-check: pass-through over the type pool (+ adversarial text values) and idempotence over the C03 input pool",
                            "evaluations": n, "distinct_nontrivial": d, "failures": len(fails),
                            "rule": "every pool (type, value) + str-mixin enums, JSON-looking strings, 2-char strings, null-looking Optional values, extreme timedeltas; idempotence for every accepted generic input"})
        for f in fails:
            chk.violation("bounded-cross-check :: " + f["type"], {"found": True, "kind": "c13-case", "case": f}, True)
    chk.known_witness("C13-private-dataclass-field", c13_concrete.private_field_witness, "a dataclass instance whose private field differs from its default")
    chk.resolve_failures(searcher)
    return chk.finish()
