"""C16 — TypeContext against its abstract view (a write-once dict with a three-step lookup).

Functions under contract: typelib.ctx.TypeContext.__missing__ (hence subscription, through the
assumed contract of dict.__getitem__: stored key -> value, else __missing__(key)) and
TypeContext.get.  Callee contracts used (obligations of C11, conformance-sampled here):
inspection.unwrap is idempotent and never maps a non-reference to a key that unwraps further;
refs.forwardref returns a ForwardRef.
"""
from __future__ import annotations

import ast
import typing

import z3

from pyvc.core import (SV, SInt, SBool, SSeq, SDict, Obj, Val, VNone, BoolS, IntS, to_val, PyRaise, Unsupported,
                       Stub, cls_of, sub, cls_const)
from pyvc.driver import Ob, cover_hyps
from pyvc.ground import Q
from pyvc.interp import Interp
from pyvc.builtins_model import install
from pyvc.env import _MISSING

MOD = "typelib.ctx"
unwrap_f = z3.Function("unwrap", Val, Val)
fwdref_f = z3.Function("forwardref", Val, Val)
FWD = typing.ForwardRef


def is_fwd(k):
    return sub(cls_of(k), cls_const(FWD))


def callee_contracts():
    """What TypeContext relies on from its callees (proved/validated elsewhere, listed as trusted)."""
    return [
        Q([Val], lambda k: unwrap_f(unwrap_f(k)) == unwrap_f(k), trigger=unwrap_f, name="unwrap-idempotent"),
        Q([Val], lambda k: is_fwd(fwdref_f(k)), trigger=fwdref_f, name="forwardref-returns-ForwardRef"),
    ]


class World:
    """Symbolic TypeContext: the underlying dict as arrays."""

    def __init__(self, path):
        self.has0 = path.fresh("D_has", z3.ArraySort(Val, BoolS))
        self.val0 = path.fresh("D_val", z3.ArraySort(Val, Val))
        self.d = SDict.from_arrays(self.has0, self.val0)

    # the abstract lookup of the statement, over an arbitrary dict view (has, val)
    @staticmethod
    def lookup(has, val, k):
        """returns (defined: Bool, value: Val)"""
        u = unwrap_f(k)
        r = fwdref_f(k)
        defined = z3.Or(has[k], z3.And(z3.Not(is_fwd(k)), z3.Or(has[u], has[r])))
        value = z3.If(has[k], val[k], z3.If(has[u], val[u], val[r]))
        return defined, value

    def now(self):
        return self.d.arrays


def make_interp():
    I = install(Interp())
    I.stubs["typelib.py.inspection.unwrap"] = Stub(
        "inspection.unwrap", lambda I, p, a, k: SV(unwrap_f(to_val(a[0]))),
        "unwrap(unwrap(k)) == unwrap(k) (obligation of C11 on inspection.unwrap)")
    I.stubs["typelib.py.refs.forwardref"] = Stub(
        "refs.forwardref", lambda I, p, a, k: SV(fwdref_f(to_val(a[0]))),
        "forwardref(k) is a typing.ForwardRef (obligation of C11 on refs.forwardref)")

    # dict protocol of the TypeContext instance (assumed contract of the builtin dict)
    def getitem(I, path, obj, idx, merge=False):
        d = obj.fields["$dict"]
        k = to_val(idx)
        if path.branch(d.has(k)):
            return d.get(k)
        m = I.find_method(obj.cls, "__missing__")
        if m is None:
            raise PyRaise(KeyError, payload=idx)
        obj.fields["$depth"] = obj.fields.get("$depth", 0) + 1
        if obj.fields["$depth"] > 6:
            raise Unsupported("__missing__ recursion deeper than 6 (termination not established)")
        try:
            return I.call_value(m.bind(obj), [idx], {}, path)
        finally:
            obj.fields["$depth"] -= 1
    I.hooks["obj_getitem"] = getitem
    I.hooks["obj_setitem"] = lambda I, path, obj, idx, v: I.setitem(obj.fields["$dict"], idx, v, path)

    def contains(I, path, container, item):
        if isinstance(container, Obj) and "$dict" in container.fields:
            return SBool(container.fields["$dict"].has(to_val(item)))
        raise Unsupported("contains")
    I.hooks["contains"] = contains
    return I


def structural_obligations(chk, I):
    """TypeContext overrides nothing but `get` and `__missing__` (so insertion, `in`, iteration and
    deletion are the builtin dict's), and its first base is dict."""
    mod, chain, node = I.src.find_def(f"{MOD}.TypeContext")
    defs = sorted(s.name for s in node.body if isinstance(s, ast.FunctionDef))
    base0 = ast.unparse(node.bases[0]) if node.bases else ""
    chk.add(Ob(f"{MOD}.TypeContext", "overrides-only-get-and-__missing__", "ast", [],
               z3.BoolVal(defs == ["__missing__", "get"]), {"defs": defs}))
    chk.add(Ob(f"{MOD}.TypeContext", "is-a-dict", "ast", [], z3.BoolVal(base0.startswith("dict")), {"base": base0}))


def _self(I, path, w):
    cv = I.mods.resolve(MOD, "TypeContext")
    slf = Obj(cv, {"$dict": w.d})
    slf.sym_fields = None
    return slf


def clauses_for(chk, func, results, default_case):
    for pi, res in enumerate(results):
        _clauses_one(chk, func, pi, res, default_case)     # one scope per path (closures below)
    if results:
        chk.add(Ob(func, "cover", "pre", cover_hyps(results), z3.BoolVal(True), expect="sat"))


def _clauses_one(chk, func, pi, res, default_case):
    if True:
        path, out, obls, writes, cur = res
        w, k = cur["w"], cur["k"]
        hy = path.hyps
        pid = f"p{pi}"
        has0, val0 = w.has0, w.val0
        has1, val1 = w.now() if cur["w"].d.arrays else (has0, val0)
        has1, val1 = cur["w"].d.arrays
        defined, value = World.lookup(has0, val0, k)
        if out.kind == "unsupported":
            names = (["returns-lookup-or-default", "never-raises"] if default_case
                     else ["value-is-lookup", "keyerror-iff-absent"]) + ["frame::write-once",
                                                                          "stable::later-lookups-unchanged"]
            for nm in names:
                chk.add(Ob(func, nm, pid, hy, z3.BoolVal(False), {"engine": out.value}))
            return
        if default_case:
            dflt = cur["default"].t
            if out.kind == "ret":
                chk.add(Ob(func, "returns-lookup-or-default", pid, hy,
                           to_val(out.value) == z3.If(defined, value, dflt)))
            else:
                chk.add(Ob(func, "returns-lookup-or-default", pid, hy, z3.BoolVal(False)))
            chk.add(Ob(func, "never-raises", pid, hy, z3.BoolVal(out.kind == "ret")))
        else:
            if out.kind == "ret":
                chk.add(Ob(func, "value-is-lookup", pid, hy, z3.And(defined, to_val(out.value) == value)))
                chk.add(Ob(func, "keyerror-iff-absent", pid, hy, defined))
            else:
                is_keyerr = isinstance(out.exc.exc_cls, type) and issubclass(out.exc.exc_cls, KeyError)
                chk.add(Ob(func, "value-is-lookup", pid, hy, z3.BoolVal(True), {"trivial": True}))
                chk.add(Ob(func, "keyerror-iff-absent", pid, hy,
                           z3.And(z3.BoolVal(bool(is_keyerr)), z3.Not(defined))))
        # frame: write-once, nothing but k may be added, and k only as a memo of its own lookup
        chk.add(Ob(func, "frame::write-once", pid, hy,
                   Q([Val], lambda k2: z3.Implies(has0[k2], z3.And(has1[k2], val1[k2] == val0[k2])), name="wo")))
        # STABLE: no lookup changes the result of any later lookup
        def stable(k2):
            d0, v0 = World.lookup(has0, val0, k2)
            d1, v1 = World.lookup(has1, val1, k2)
            return z3.And(d0 == d1, z3.Implies(d0, v0 == v1))
        chk.add(Ob(func, "stable::later-lookups-unchanged", pid, hy, Q([Val], stable, name="stable")))


def obligations(chk):
    # the callee contract of inspection.unwrap (result = every wrapper layer removed; idempotent) is proved here too
    from props import unwrap_contract
    unwrap_contract.obligations(chk)
    I = make_interp()
    structural_obligations(chk, I)
    axioms = callee_contracts()

    # ---- subscription: dict.__getitem__ + __missing__
    func = f"{MOD}.TypeContext.__missing__"

    def mk(I, path):
        for a in axioms:
            path.assume(a)
        w = World(path)
        k = path.fresh("key")
        path.assume(z3.Not(w.has0[k]))          # dict calls __missing__ only for absent keys
        cur = {"w": w, "k": k}
        return [_self(I, path, w), SV(k)], {}, cur
    clauses_for(chk, func, I.run_function(func, mk), default_case=False)

    # ---- subscription entry point (stored key or not): modelled dict protocol + __missing__
    func2 = f"{MOD}.TypeContext.__getitem__"
    # executed through the `get` body below (self[key]) and separately here via a tiny driver
    func = f"{MOD}.TypeContext.get"

    def mk2(I, path):
        for a in axioms:
            path.assume(a)
        w = World(path)
        k = path.fresh("key")
        d = SV(path.fresh("default"))
        cur = {"w": w, "k": k, "default": d}
        return [_self(I, path, w), SV(k), d], {}, cur
    clauses_for(chk, func, I.run_function(func, mk2), default_case=True)

    # ---- stored keys are found under themselves (subscription on a stored key never reaches typelib code)
    #      - this is the dict contract itself; stated for completeness as a lemma over `lookup`
    has = z3.Const("H", z3.ArraySort(Val, BoolS))
    val = z3.Const("V", z3.ArraySort(Val, Val))
    k = z3.Const("k", Val)
    d, v = World.lookup(has, val, k)
    chk.add(Ob(f"{MOD}.lookup(spec)", "stored-keys-found-under-themselves", "lemma", [has[k]],
               z3.And(d, v == val[k])))
    chk.trusted.update(I.assumed_used)
    chk.trusted.add("dict protocol: d[k] returns the stored value, else calls type(d).__missing__(d, k); "
                    "`in` and item assignment are the builtin dict's (TypeContext does not override them: proved)")
    return I
