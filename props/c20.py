"""C20 — annotation rewriting (py/future.py) preserves meaning: the TransformAnnotation visitors against a spec.

Syntax trees are opaque terms with accessor functions (left/right/op, value/slice/ctx, elts, id); a node the code
constructs is a term with known class and fields.  Recursion is by contract: `self.visit(x)` on a sub-tree of the
input is the uninterpreted V(x) carrying the induction hypotheses
    clean(V(x))                 (no PEP 604 union outside constants)
    plain(x) => V(x) == x       (a tree with none of the constructs is returned as is)
    V(V(x)) == V(x)             (fixpoint)
and `self.visit` on a node the code has just built dispatches to the real visit_* method (inlined), as
ast.NodeVisitor.visit does.  Proved for every visitor, for trees of any size (the left spine of a |-chain by a loop
invariant):  the result is the node the statement prescribes (typing.Union[...] over exactly the operands of the maximal
|-chain, each visited; the documented typing name for a builtin generic name; same node kind with visited children
otherwise), it is clean, it is the input when the input is plain, and visiting it again changes nothing.
"""
from __future__ import annotations

import ast

import z3

from pyvc.core import (SV, SBool, SInt, SSeq, Obj, Val, VNone, BoolS, IntS, to_val, to_int, to_bool_term, cls_of, sub, cls_const,
                       class_axioms, Stub, PyRaise, Unsupported, VStr, str_id)
from pyvc.driver import Ob, cover_hyps
from pyvc.ground import Q
from pyvc.env import _MISSING
from pyvc.expr import BoundMethod
from pyvc.interp import Interp
from pyvc.builtins_model import install
from pyvc.stmt import LoopSpec

MOD = "typelib.py.future"
lft, rgt, opf = (z3.Function(n, Val, Val) for n in ("binop_left", "binop_right", "binop_op"))
valf, slicef, ctxf, idf = (z3.Function(n, Val, Val) for n in ("node_value", "node_slice", "node_ctx", "name_id"))
nelts = z3.Function("n_elts", Val, IntS)
eltf = z3.Function("elt", Val, IntS, Val)
V = z3.Function("visit", Val, Val)                    # self.visit(x) on a sub-tree of the input (recursion by contract)
G = z3.Function("generic_visit", Val, Val)            # ast.NodeTransformer.generic_visit(node): same node, children visited (stdlib)
anc = z3.Function("left_spine", Val, IntS, Val)       # anc(n, 0) = n, anc(n, j+1) = anc(n, j).left
clean = z3.Function("clean", Val, BoolS)              # no PEP 604 union (BinOp with BitOr) outside constants
plain = z3.Function("plain", Val, BoolS)              # none of the constructs: no BitOr BinOp, no builtin generic name
mkName = z3.Function("mk_Name", Val, Val, Val)        # ast.Name(id, ctx)
mkSub = z3.Function("mk_Subscript", Val, Val, Val, Val)   # ast.Subscript(value, slice, ctx)
LOAD = z3.Const("ast_Load", Val)


def S(text):
    return VStr(z3.IntVal(str_id(text)))


def C(cls):
    return cls_const(cls)


def is_a(x, cls):
    return sub(cls_of(x), C(cls))


def is_union_op(n):
    return z3.And(is_a(n, ast.BinOp), is_a(opf(n), ast.BitOr))


def world_axioms(generics):
    ax = [
        Q([Val], lambda n: anc(n, 0) == n, trigger=anc, name="spine-0"),
        Q([Val, IntS], lambda n, j: z3.Implies(j >= 0, anc(n, j + 1) == lft(anc(n, j))), trigger=anc, name="spine-step"),
        Q([Val, Val], lambda i, c: z3.And(cls_of(mkName(i, c)) == C(ast.Name), idf(mkName(i, c)) == i, ctxf(mkName(i, c)) == c), trigger=mkName, name="Name-fields"),
        Q([Val, Val, Val], lambda v, s, c: z3.And(cls_of(mkSub(v, s, c)) == C(ast.Subscript), valf(mkSub(v, s, c)) == v,
                                                  slicef(mkSub(v, s, c)) == s, ctxf(mkSub(v, s, c)) == c), trigger=mkSub, name="Subscript-fields"),
        Q([Val], lambda n: nelts(n) >= 0, trigger=nelts, name="elts-nonneg"),
        # induction hypotheses on sub-trees of the input
        Q([Val], lambda x: clean(V(x)), trigger=V, name="IH-clean"),
        Q([Val], lambda x: z3.Implies(plain(x), V(x) == x), trigger=V, name="IH-plain-identity"),
        Q([Val], lambda x: V(V(x)) == V(x), trigger=V, name="IH-fixpoint"),
        # `clean` and `plain` by node kind (definitions of the statement's notions)
        Q([Val], lambda n: z3.Implies(is_a(n, ast.Name), z3.And(clean(n), plain(n) == z3.Not(z3.Or(*[idf(n) == S(g) for g in generics])))),
          trigger=idf, name="Name-clean-plain"),
        Q([Val], lambda n: z3.Implies(is_a(n, ast.Subscript), z3.And(clean(n) == z3.And(clean(valf(n)), clean(slicef(n))),
                                                                    plain(n) == z3.And(plain(valf(n)), plain(slicef(n))))), trigger=valf, name="Subscript-clean-plain"),
        Q([Val], lambda n: z3.Implies(is_a(n, ast.BinOp), z3.And(clean(n) == z3.And(z3.Not(is_a(opf(n), ast.BitOr)), clean(lft(n)), clean(rgt(n))),
                                                                 plain(n) == z3.And(z3.Not(is_a(opf(n), ast.BitOr)), plain(lft(n)), plain(rgt(n))))), trigger=opf, name="BinOp-clean-plain"),
        Q([Val, IntS], lambda n, i: z3.Implies(z3.And(is_a(n, ast.Tuple), i >= 0, i < nelts(n)),
                                               z3.And(z3.Implies(clean(n), clean(eltf(n, i))), z3.Implies(plain(n), plain(eltf(n, i))))), trigger=eltf, name="Tuple-elim"),
        # generic_visit (stdlib): the same node with every child replaced by its visit: clean / plain / fixpoint lift from the children
        Q([Val], lambda n: z3.And(z3.Implies(z3.Not(is_union_op(n)), clean(G(n))), z3.Implies(plain(n), G(n) == n),
                                  cls_of(G(n)) == cls_of(n)), trigger=G, name="generic_visit-contract"),
        z3.And(cls_of(LOAD) == C(ast.Load)),
    ]
    return ax


def intpool(t):
    """instantiation candidates for index-quantified schemas: integer constants and one-step offsets of them (no nesting)"""
    if t.sort() != IntS:
        return False
    if t.num_args() == 0:
        return True
    return t.decl().kind() in (z3.Z3_OP_ADD, z3.Z3_OP_SUB) and all(c.num_args() == 0 for c in t.children())


class Deque:
    host_symbolic = True

    def __init__(self, seq):
        self.seq = seq


class TupleNode:
    """an ast.Tuple the code constructs: known elements"""

    def __init__(self, term, elts, ctx):
        self.term, self.elts, self.ctx = term, elts, ctx


def make_interp(st):
    """st: per-run dict (kinds of constructed nodes, generics table)"""
    import collections
    I = install(Interp())
    generics = I.mods.resolve(MOD, "_GENERICS")
    st["generics"] = dict(generics)
    for a, f in (("left", lft), ("right", rgt), ("op", opf), ("value", valf), ("slice", slicef), ("ctx", ctxf), ("id", idf)):
        I.sv_attr[a] = (lambda f: lambda I, path, obj: SV(f(obj.t)))(f)
    I.sv_attr["elts"] = lambda I, path, obj: SSeq(nelts(obj.t), lambda i, t=obj.t: SV(eltf(t, to_int(i))), "list")

    def mk_name(I, path, a, k):
        i = k.get("id", a[0] if a else None)
        t = mkName(S(i) if isinstance(i, str) else to_val(i), to_val(k.get("ctx", a[1] if len(a) > 1 else SV(LOAD))))
        st["kinds"][t.get_id()] = ("Name", None)
        return SV(t)

    def mk_sub(I, path, a, k):
        v, s, c = k.get("value"), k.get("slice"), k.get("ctx")
        t = mkSub(to_val(v), to_val(s), to_val(c))
        st["kinds"][t.get_id()] = ("Subscript", None)
        return SV(t)

    def mk_tuple(I, path, a, k):
        elts, c = k.get("elts"), k.get("ctx")
        s = I.iter_seq(elts, path)
        t = path.fresh("built_tuple")
        n = s.length if not isinstance(s.length, int) else z3.IntVal(s.length)
        path.assume(z3.And(cls_of(t) == C(ast.Tuple), nelts(t) == n, ctxf(t) == to_val(c)))
        path.assume(Q([IntS], lambda i, t=t, s=s, n=n: z3.Implies(z3.And(i >= 0, i < n), eltf(t, i) == to_val(s.at(SInt(i)))), name="built-tuple-elements", pool=intpool))
        st["kinds"][t.get_id()] = ("Tuple", TupleNode(t, s, c))
        return SV(t)
    I.builtin_models[ast.Name] = mk_name
    I.builtin_models[ast.Subscript] = mk_sub
    I.builtin_models[ast.Tuple] = mk_tuple
    I.builtin_models[ast.Index] = lambda I, path, a, k: k.get("value", a[0] if a else None)      # identity since 3.9
    I.builtin_models[ast.Load] = lambda I, path, a, k: SV(LOAD)
    I.builtin_models[ast.copy_location] = lambda I, path, a, k: a[0]            # line / column attributes are not part of the tree's meaning
    I.builtin_models[ast.fix_missing_locations] = lambda I, path, a, k: a[0]
    I.builtin_models[collections.deque] = lambda I, path, a, k: Deque(I.iter_seq(a[0], path) if a else SSeq(0, lambda i: None, "list"))

    def concrete_dict_symkey(I, path, d, idx):
        key = to_val(idx)
        for k, v in d.items():                       # a small concrete table: one path per key
            if path.branch(key == to_val(k)):
                return v
        raise PyRaise(KeyError)
    I.hooks["concrete_dict_symkey"] = concrete_dict_symkey
    prev_m = I.hooks.get("method")

    def method(I, path, recv, name, args, kw):
        if isinstance(recv, Deque) and name == "appendleft":
            old, x = recv.seq, args[0]
            n = old.length
            recv.seq = SSeq(n + 1, lambda i, old=old, x=x: _prepend_at(old, x, i), "list")
            return None
        if isinstance(recv, Obj) and name == "visit":
            x = args[0]
            k = st["kinds"].get(to_val(x).get_id()) if isinstance(x, SV) else None
            if k is not None:            # a node the code built: ast.NodeVisitor.visit dispatches on its class to the real method
                m = I.find_method(recv.cls, "visit_" + k[0])
                st["depth"] = st.get("depth", 0) + 1
                if st["depth"] > 8:
                    raise Unsupported("visit recursion on constructed nodes deeper than 8")
                try:
                    return I.call_value(m.bind(recv), [x], {}, path)
                finally:
                    st["depth"] -= 1
            return SV(V(to_val(x)))
        if isinstance(recv, Obj) and name == "generic_visit":
            return SV(G(to_val(args[0])))
        return prev_m(I, path, recv, name, args, kw) if prev_m else _MISSING
    I.hooks["method"] = method
    orig_getattr = I.getattr

    def getattr_(obj, attr, path, env=None):
        if isinstance(obj, Obj) and attr in ("visit", "generic_visit"):
            return BoundMethod(obj, attr)
        if isinstance(obj, Deque):
            return BoundMethod(obj, attr)
        return orig_getattr(obj, attr, path, env)
    I.getattr = getattr_
    prev_iter = I.hooks.get("iter")
    I.hooks["iter"] = lambda I, path, v: v.seq if isinstance(v, Deque) else (prev_iter(I, path, v) if prev_iter else _MISSING)
    return I


def _prepend_at(old, x, i):
    if isinstance(i, int):
        return x if i == 0 else old.at(i - 1)
    it = to_int(i)
    return SV(z3.If(it == 0, to_val(x), to_val(old.at(SInt(it - 1)))))


def self_obj(I, path, st):
    cv = I.mods.resolve(MOD, "TransformAnnotation")
    u = path.fresh("union_name")
    st["union"] = u
    o = Obj(cv, {"union": SV(u)})
    o.sym_fields = None
    return o


# ----------------------------------------------------------------------------- structural comparison of a built node with a tree
def tree_eq(st, a, b):
    """`a` (built by the code) is the same syntax tree as the term `b`: same class and the same fields, recursively"""
    k = st["kinds"].get(a.get_id())
    if k is None:
        return a == b
    kind, info = k
    if kind == "Name":
        return z3.And(is_a(b, ast.Name), cls_of(b) == C(ast.Name), idf(a) == idf(b))
    if kind == "Subscript":
        return z3.And(cls_of(b) == C(ast.Subscript), tree_eq(st, _arg(a, 0), valf(b)), tree_eq(st, _arg(a, 1), slicef(b)))
    if kind == "Tuple":
        n = info.elts.length if not isinstance(info.elts.length, int) else z3.IntVal(info.elts.length)
        return z3.And(cls_of(b) == C(ast.Tuple), nelts(b) == n)      # elements compared pointwise by the caller (needs an index)
    raise Unsupported(kind)


def _arg(t, i):
    return t.arg(i)


def tuple_info(st, t):
    k = st["kinds"].get(t.get_id())
    return k[1] if k and k[0] == "Tuple" else None


# ----------------------------------------------------------------------------- obligations
def obligations(chk):
    name_obligations(chk)
    subscript_obligations(chk)
    tuple_obligations(chk)
    binop_obligations(chk)
    entry_obligations(chk)


def _run(func, mk_node, st, loop=None):
    I = make_interp(st)
    if loop:
        loop(I)

    def mk(I, path):
        st["kinds"] = {}
        st["depth"] = 0
        for a in world_axioms(st["generics"]) + class_axioms():
            path.assume(a)
        slf = self_obj(I, path, st)
        n = path.fresh("node")
        mk_node(path, n)
        cur = {"node": n, "kinds": st["kinds"], "union": st["union"]}
        st["cur"] = cur
        return [slf, SV(n)], {}, cur
    res = I.run_function(func, mk)
    return I, res


def _fail(chk, func, names, pid, hy, why):
    for nm in names:
        chk.add(Ob(func, nm, pid, hy, z3.BoolVal(False), why))


NAME_CLAUSES = ["a-builtin-generic-name-becomes-its-documented-typing-name-and-any-other-name-is-returned-as-is", "result-is-clean", "fixpoint"]


def name_obligations(chk):
    st = {}
    func = f"{MOD}.TransformAnnotation.visit_Name"
    I, res = _run(func, lambda path, n: path.assume(cls_of(n) == C(ast.Name)), st)
    gen = st["generics"]
    documented = {"dict": "typing.Dict", "list": "typing.List", "set": "typing.Set", "tuple": "typing.Tuple", "Pattern": "typing.Pattern"}
    chk.add(Ob(f"{MOD}._GENERICS", "the-table-is-the-documented-builtin-to-typing-map", "ground", [], z3.BoolVal(gen == documented), {"table": gen}))
    for pi, (path, out, obls, writes, cur) in enumerate(res):
        pid, hy, n = f"p{pi}", path.hyps, cur["node"]
        if out.kind != "ret":
            _fail(chk, func, NAME_CLAUSES, pid, hy, {"outcome": out.kind, "why": str(out.value)[:200]})
            continue
        r = to_val(out.value)
        spec = z3.BoolVal(True)
        for g, tname in documented.items():
            spec = z3.And(spec, z3.Implies(idf(n) == S(g), z3.And(cls_of(r) == C(ast.Name), idf(r) == S(tname))))
        spec = z3.And(spec, z3.Implies(z3.Not(z3.Or(*[idf(n) == S(g) for g in documented])), r == n))
        chk.add(Ob(func, NAME_CLAUSES[0], pid, hy, spec))
        chk.add(Ob(func, NAME_CLAUSES[1], pid, hy, clean(r)))
        # fixpoint: a typing.* name is not itself in the table
        chk.add(Ob(func, NAME_CLAUSES[2], pid, hy, z3.And(*[z3.Implies(idf(n) == S(g), z3.Not(z3.Or(*[S(t) == S(g2) for g2 in documented])))
                                                           for g, t in documented.items()])))
    chk.add(Ob(func, "cover", "pre", cover_hyps(res), z3.BoolVal(True), expect="sat"))


SUB_CLAUSES = ["same-node-kind-with-value-and-slice-visited", "result-is-clean", "a-plain-subscript-is-the-same-tree", "fixpoint"]


def subscript_obligations(chk):
    st = {}
    func = f"{MOD}.TransformAnnotation.visit_Subscript"
    I, res = _run(func, lambda path, n: path.assume(cls_of(n) == C(ast.Subscript)), st)
    for pi, (path, out, obls, writes, cur) in enumerate(res):
        pid, hy, n = f"p{pi}", path.hyps, cur["node"]
        if out.kind != "ret" or cur["kinds"].get(to_val(out.value).get_id(), (None,))[0] != "Subscript":
            _fail(chk, func, SUB_CLAUSES, pid, hy, {"outcome": out.kind, "why": str(out.value)[:200]})
            continue
        r = to_val(out.value)
        chk.add(Ob(func, SUB_CLAUSES[0], pid, hy, z3.And(valf(r) == V(valf(n)), slicef(r) == V(slicef(n)), ctxf(r) == ctxf(n))))
        chk.add(Ob(func, SUB_CLAUSES[1], pid, hy, clean(r)))
        chk.add(Ob(func, SUB_CLAUSES[2], pid, hy + [plain(n)], z3.And(valf(r) == valf(n), slicef(r) == slicef(n), ctxf(r) == ctxf(n))))
        # fixpoint: visiting the result visits V(value), V(slice) again, which changes nothing (IH)
        chk.add(Ob(func, SUB_CLAUSES[3], pid, hy, z3.And(V(valf(r)) == valf(r), V(slicef(r)) == slicef(r))))
    chk.add(Ob(func, "cover", "pre", cover_hyps(res), z3.BoolVal(True), expect="sat"))


TUP_CLAUSES = ["same-node-kind-with-every-element-visited-in-order", "result-is-clean", "a-plain-tuple-is-the-same-tree", "fixpoint"]


def tuple_obligations(chk):
    st = {}
    func = f"{MOD}.TransformAnnotation.visit_Tuple"
    I, res = _run(func, lambda path, n: path.assume(cls_of(n) == C(ast.Tuple)), st)
    for pi, (path, out, obls, writes, cur) in enumerate(res):
        pid, hy, n = f"p{pi}", path.hyps, cur["node"]
        info = cur["kinds"].get(to_val(out.value).get_id(), (None, None))[1] if out.kind == "ret" else None
        if not isinstance(info, TupleNode):
            _fail(chk, func, TUP_CLAUSES, pid, hy, {"outcome": out.kind, "why": str(out.value)[:200]})
            continue
        r = to_val(out.value)
        i = path.fresh("i", IntS)
        inr = [i >= 0, i < nelts(n)]
        chk.add(Ob(func, TUP_CLAUSES[0], pid, hy + inr, z3.And(nelts(r) == nelts(n), eltf(r, i) == V(eltf(n, i)), ctxf(r) == ctxf(n))))
        chk.add(Ob(func, TUP_CLAUSES[1], pid, hy + inr, clean(eltf(r, i))))            # clean(Tuple) <=> every element clean
        chk.add(Ob(func, TUP_CLAUSES[2], pid, hy + inr + [plain(n)], z3.And(nelts(r) == nelts(n), eltf(r, i) == eltf(n, i))))
        chk.add(Ob(func, TUP_CLAUSES[3], pid, hy + inr, V(eltf(r, i)) == eltf(r, i)))
    chk.add(Ob(func, "cover", "pre", cover_hyps(res), z3.BoolVal(True), expect="sat"))


BIN_CLAUSES = ["a-|-chain-becomes-Union[...]-over-exactly-the-operands-of-the-maximal-chain-each-visited",
               "only-|-operators-are-flattened", "any-other-operator-keeps-its-kind-with-both-operands-visited",
               "result-is-clean", "fixpoint"]


def binop_obligations(chk):
    st = {}
    func = f"{MOD}.TransformAnnotation.visit_BinOp"

    def loop(I):
        def havoc(I, path, env, k):
            kk = path.fresh("k", IntS)
            a = z3.Function(f"spine_arg!{kk}", IntS, Val)
            env.set(env.find(lambda v: isinstance(v, Deque), "operand deque"), Deque(SSeq(kk, lambda i, a=a: SV(a(to_int(i))), "list")))
            st["left_name"] = env.find(lambda v: isinstance(v, SV) and v.t.decl().name() == "binop_left", "left-spine cursor")
            env.set(st["left_name"], SV(path.fresh("left")))
            st["k"] = kk

        def inv(I, path, env, k):
            node = to_val(env.lookup(env.find(lambda v: isinstance(v, SV) and z3.is_const(v.t) and v.t.decl().name().startswith("node"), "visited node (parameter)")))
            args = env.lookup(env.find(lambda v: isinstance(v, Deque), "operand deque")).seq
            left = to_val(env.lookup(st.get("left_name") or env.find(lambda v: isinstance(v, SV) and v.t.decl().name() == "binop_left", "left-spine cursor")))
            kk = args.length if not isinstance(args.length, int) else z3.IntVal(args.length)
            st["k_now"] = kk
            return [kk >= 1, left == anc(node, kk),
                    Q([IntS], lambda j, args=args, kk=kk, node=node: z3.Implies(z3.And(j >= 0, j < kk), to_val(args.at(SInt(j))) == rgt(anc(node, kk - 1 - j))),
                      name="args-are-the-right-operands-down-the-spine", pool=intpool),
                    Q([IntS], lambda i2, node=node, kk=kk: z3.Implies(z3.And(i2 >= 0, i2 < kk), is_union_op(anc(node, i2))), name="every-flattened-node-is-a-|", pool=intpool)]
        I.loop_specs[(func, 0)] = LoopSpec("spine", havoc, inv)
    I, res = _run(func, lambda path, n: path.assume(cls_of(n) == C(ast.BinOp)), st, loop)
    for pi, (path, out, obls, writes, cur) in enumerate(res):
        pid, hy, n = f"p{pi}", path.hyps, cur["node"]
        for nm, pc, goal in obls:
            chk.add(Ob(func, nm, pid, pc, goal, {"split": True}))
        if out.kind == "end":
            continue
        if out.kind != "ret":
            _fail(chk, func, BIN_CLAUSES, pid, hy, {"outcome": out.kind, "why": str(out.value)[:200]})
            continue
        r = to_val(out.value)
        union_case = is_a(opf(n), ast.BitOr)
        kinds = cur["kinds"]
        if kinds.get(r.get_id(), (None,))[0] == "Subscript":
            # the Union[...] construction
            value, sl = r.arg(0), r.arg(1)
            info = kinds.get(sl.get_id(), (None, None))[1]
            if not isinstance(info, TupleNode) or kinds.get(value.get_id(), (None,))[0] != "Name":
                _fail(chk, func, BIN_CLAUSES, pid, hy, {"note": "not Name[Tuple]"})
                continue
            k = st.get("k_now")
            elts = info.elts
            n_e = elts.length if not isinstance(elts.length, int) else z3.IntVal(elts.length)
            j = path.fresh("j", IntS)
            K = n_e - 1                                   # number of | operators flattened
            chk.add(Ob(func, BIN_CLAUSES[0], pid, hy + [j >= 0, j < K],
                       z3.And(idf(value) == cur["union"], K >= 1, to_val(elts.at(SInt(0))) == V(anc(n, K)),
                              to_val(elts.at(SInt(j + 1))) == V(rgt(anc(n, K - 1 - j))),
                              z3.Not(is_union_op(anc(n, K))))))            # maximal: the innermost left operand is not itself a |
            chk.add(Ob(func, BIN_CLAUSES[1], pid, hy + [j >= 0, j < K], z3.And(union_case, is_union_op(anc(n, j)))))
            chk.add(Ob(func, BIN_CLAUSES[2], pid, hy, z3.BoolVal(True), {"trivial": True}))
            chk.add(Ob(func, BIN_CLAUSES[3], pid, hy + [j >= 0, j < n_e], clean(to_val(elts.at(SInt(j))))))
            chk.add(Ob(func, BIN_CLAUSES[4], pid, hy + [j >= 0, j < n_e], V(to_val(elts.at(SInt(j)))) == to_val(elts.at(SInt(j)))))
        else:
            # not a union: must be the generic treatment (same operator, both operands visited)
            chk.add(Ob(func, BIN_CLAUSES[0], pid, hy, z3.Not(union_case)))
            chk.add(Ob(func, BIN_CLAUSES[1], pid, hy, z3.BoolVal(True), {"trivial": True}))
            chk.add(Ob(func, BIN_CLAUSES[2], pid, hy, r == G(n)))
            chk.add(Ob(func, BIN_CLAUSES[3], pid, hy, clean(r)))
            chk.add(Ob(func, BIN_CLAUSES[4], pid, hy, z3.BoolVal(True), {"note": "generic_visit contract (stdlib)"}))
    chk.add(Ob(func, "cover", "pre", cover_hyps(res), z3.BoolVal(True), expect="sat"))


def entry_obligations(chk):
    """future.transform: parse (eval mode), visit the Expression's children with a TransformAnnotation(union=union), unparse, strip."""
    import inspect
    I = install(Interp())
    mod, chain, node = I.src.find_def(f"{MOD}.transform")
    src = ast.unparse(node)
    calls = [ast.unparse(c.func) for c in ast.walk(node) if isinstance(c, ast.Call)]
    want = ["ast.parse", "TransformAnnotation(union=union).generic_visit", "TransformAnnotation", "ast.unparse(transformed).strip", "ast.unparse"]
    ok = all(any(w == c for c in calls) for w in want) and "mode='eval'" in src
    chk.add(Ob(f"{MOD}.transform", "parses-visits-with-the-given-union-name-and-unparses", "ast", [], z3.BoolVal(bool(ok)), {"calls": calls}))
