"""C18 — executable twin: iteritems / itervalues against the case table of the statement."""
from __future__ import annotations

import collections
import dataclasses
import types
import typing


class NT(typing.NamedTuple):
    a: tuple
    b: int


class NT1(typing.NamedTuple):
    s: str
    n: int


class NTSub(NT):
    """a subclass of a typing.NamedTuple class (tuple is not among its direct bases)"""


class NTColl(collections.namedtuple("NTColl", "x y")):
    """the classic recipe: subclass of a collections.namedtuple"""
    __slots__ = ()


class SlotBase:
    __slots__ = ("ident",)
    ident: int

    def __init__(self):
        self.ident = 1


class SlotChild(SlotBase):
    """a slotted leaf on a slotted, annotated base: the inherited public field is part of the object"""
    __slots__ = ("name",)
    name: str

    def __init__(self):
        super().__init__()
        self.name = "n"


class SlotA:
    __slots__ = ("a",)

    def __init__(self):
        self.a = 1


class SlotB(SlotA):
    """slots-only hierarchy: the inherited slot is part of the object"""
    __slots__ = ("b", "_hidden")

    def __init__(self):
        super().__init__()
        self.b, self._hidden = 2, 3


class StrSlot:
    """a single slot spelled as a string (legal Python)"""
    __slots__ = "value"

    def __init__(self):
        self.value = 5


class PlainCV:
    """a plain annotated class with a class variable: not a field of its instances"""
    kind: typing.ClassVar[str] = "k"
    y: int

    def __init__(self):
        self.y = 2


class SlotBase:
    __slots__ = ("a",)

    def __init__(self):
        self.a = 1


class SlotRedeclared(SlotBase):
    """a subclass that declares a slot of its base again (legal, if wasteful): still one field"""
    __slots__ = ("a", "b")

    def __init__(self):
        super().__init__()
        self.b = 2


class BareCV:
    """class constants annotated with the bare, unsubscripted ClassVar form (legal Python), next to an instance field"""
    kind: typing.ClassVar = "k"
    y: int

    def __init__(self):
        self.y = 2


class OnlyBareCV:
    """every annotation is a bare ClassVar: the instance's own attributes are its fields"""
    kind: typing.ClassVar = "k"

    def __init__(self):
        self.x = "x"


class VarsCtor:
    """a vars-only class whose constructor parameter is not the attribute it sets"""

    def __init__(self, x=1):
        self.y = x


@dataclasses.dataclass
class DC:
    a: int
    _hidden: int = 0
    b: str = "x"


class Slots:
    __slots__ = ("p", "_q")

    def __init__(self):
        self.p, self._q = 1, 2


class VarsOnly:
    def __init__(self):
        self.u, self._v, self.w = 1, 2, 3


def vars_only_other():
    o = VarsOnly()
    del o.u
    o.z = 9
    return o


class Hinted:
    a: int
    b: str

    def __init__(self):
        self.a, self.b = 1, "b"


class MyMap(collections.abc.Mapping):
    def __init__(self, d): self.d = d
    def __getitem__(self, k): return self.d[k]
    def __iter__(self): return iter(self.d)
    def __len__(self): return len(self.d)


def cases():
    """(name, factory, expected_items, expected_values); factories build a fresh x per use."""
    out = []
    d = {"a": 1, "b": (2, 3)}
    for nm, mk in (("dict", lambda: dict(d)), ("OrderedDict", lambda: collections.OrderedDict(d)),
                   ("MappingProxy", lambda: types.MappingProxyType(d)), ("custom Mapping", lambda: MyMap(d))):
        out.append((nm, mk, list(d.items()), list(d.values())))
    out.append(("NamedTuple 2-elem first field", lambda: NT((1, 2), 3), [("a", (1, 2)), ("b", 3)], [(1, 2), 3]))
    out.append(("NamedTuple 2-char first field", lambda: NT1("ab", 3), [("s", "ab"), ("n", 3)], ["ab", 3]))
    out.append(("subclass of a NamedTuple, 2-elem first field", lambda: NTSub((1, 2), 3), [("a", (1, 2)), ("b", 3)], [(1, 2), 3]))
    out.append(("subclass of a namedtuple, 2-elem first field", lambda: NTColl((1, 5), "s"), [("x", (1, 5)), ("y", "s")], [(1, 5), "s"]))
    out.append(("slotted child of a slotted annotated base", lambda: SlotChild(), [("ident", 1), ("name", "n")], [1, "n"]))
    out.append(("slots-only hierarchy", lambda: SlotB(), [("a", 1), ("b", 2)], [1, 2]))
    out.append(("__slots__ given as one string", lambda: StrSlot(), [("value", 5)], [5]))
    out.append(("plain annotated class with a ClassVar", lambda: PlainCV(), [("y", 2)], [2]))
    out.append(("slot of the base declared again in the subclass", lambda: SlotRedeclared(), [("a", 1), ("b", 2)], [1, 2]))
    out.append(("plain annotated class with a bare ClassVar", lambda: BareCV(), [("y", 2)], [2]))
    out.append(("class whose only annotations are bare ClassVars", lambda: OnlyBareCV(), [("x", "x")], ["x"]))
    out.append(("vars-only class, constructor parameter named differently", lambda: VarsCtor(), [("y", 1)], [1]))
    out.append(("dataclass private field", lambda: DC(1), [("a", 1), ("b", "x")], [1, "x"]))
    out.append(("slots-only", lambda: Slots(), [("p", 1)], [1]))
    out.append(("vars-only", lambda: VarsOnly(), [("u", 1), ("w", 3)], [1, 3]))
    out.append(("vars-only second instance", vars_only_other, [("w", 3), ("z", 9)], [3, 9]))
    out.append(("hinted class", lambda: Hinted(), [("a", 1), ("b", "b")], [1, "b"]))
    for nm, mk in (("list", lambda: [5, 0, 7]), ("tuple", lambda: (0, 5)), ("deque", lambda: collections.deque([5, 6])),
                   ("generator", lambda: (x for x in [0, 5, 6])), ("iterator falsy first", lambda: iter([0, 1, 2])),
                   ("iterator None first", lambda: iter([None, 1])), ("str", lambda: "xyz")):
        vals = list(mk())
        out.append((nm, mk, list(enumerate(vals)), vals))
    out.append(("set", lambda: {5}, [(0, 5)], [5]))
    for nm, mk in (("list of pairs", lambda: [("a", 1), ("b", 2)]), ("generator of pairs", lambda: (p for p in [("a", 1), ("b", 2)])),
                   ("iterator of pairs", lambda: iter([(1, 2), (3, 4)])), ("dict items view", lambda: {"k": 1, "j": 2}.items())):
        vals = list(mk())
        out.append((nm, mk, vals, vals))
    for nm, mk in (("empty list", lambda: []), ("empty generator", lambda: (x for x in [])), ("empty iterator", lambda: iter(())),
                   ("empty dict", lambda: {}), ("empty str", lambda: "")):
        out.append((nm, mk, [], []))
    return out


def run_case(name, mk, exp_items, exp_values):
    from typelib import serdes
    try:
        got = list(serdes.iteritems(mk()))
    except BaseException as e:
        return f"iteritems({name}) raised {type(e).__name__}: {e}"
    if got != exp_items:
        return f"iteritems({name}) yielded {got!r}, expected {exp_items!r}"
    try:
        gotv = list(serdes.itervalues(mk()))
    except BaseException as e:
        return f"itervalues({name}) raised {type(e).__name__}: {e}"
    if gotv != exp_values:
        return f"itervalues({name}) yielded {gotv!r}, expected {exp_values!r}"
    x = mk()
    if isinstance(x, (list, dict, collections.deque)):
        import copy
        before = copy.deepcopy(x)
        list(serdes.iteritems(x)); list(serdes.itervalues(x))
        if x != before:
            return f"{name}: x was modified"
    return None


def search(stop_at=1):
    fails, n = [], 0
    for c in cases():
        n += 1
        r = run_case(*c)
        if r:
            fails.append({"case": c[0], "failure": r})
            if stop_at and len(fails) >= stop_at:
                break
    return fails, n, n


def run_recorded(case):
    for c in cases():
        if c[0] == case["case"]:
            return run_case(*c)
    # sequences matter (per-class caches): replay the whole table
    f, _, _ = search(stop_at=1)
    return f[0]["failure"] if f else None
