"""C12 check driver."""
from pyvc.driver import Check
from props import c12, c12_concrete

ASSUMPTIONS = [
    "functools.cache / lru_cache return the value stored for an ==/hash-equal key, else call through; clearing caches only "
    "forgets entries.",
    "Corollary (meta, paper): every memoised function is under a contract (M), memoised container results are never "
    "mutated inside the package and the one that leaves it is copied (F), no other mutable state is written from function "
    "bodies and routines hold only construction-time state (G), equal keys give observationally equal results (K) => every "
    "operation of every history returns what it returns in a cold process, and mutating a returned result or a passed "
    "input cannot reach a later call.",
    "The scans are syntactic (AST) over all of src/typelib: stores, mutator-method calls, global/nonlocal, closure-captured "
    "locals, class-level containers, aliases of self.<attr> and values obtained from memoised calls. Mutation through "
    "other aliases (e.g. a container passed into a helper that mutates it) is outside the scan.",
    "K is checked over a catalogue of equal-but-distinct keys on the real code (bounded). The literal comparison of every "
    "history with a cold process is not decided by contract: a seeded random history runner (and a small cold-subprocess "
    "sample) stands in, labelled bounded.",
]
KF_UNION = "C12-union-member-order-key"


def searcher(ob):
    fails, n, d = c12_concrete.history_search(stop_at=1, n_seq=40)
    if fails:
        return {"found": True, "kind": "c12-history", "case": fails[0], "searched": n}
    return {"found": False, "searched": n, "writes": ob.meta.get("writes"), "note": "random histories agree with the cache-cleared run"}


def replay(data):
    case = data.get("case")
    if not case:
        print("replay: no concrete history recorded for", data.get("obligation"), data.get("writes") or data.get("solver"))
        return 1
    if case.get("kind") == "value-key-congruence":
        f, _ = c12_concrete.search_value_keys()
        r = next((c["failure"] for c in f if c["label"] == case["label"] and c["op"] == case["op"] and c["second"] == case["second"]), None)
    elif case.get("kind") == "key-congruence":
        f, _ = c12_concrete.search_keys()
        r = next((c["failure"] for c in f if c["second"] == case["second"] and c["input"] == case["input"] and c["first"] == case["first"]), None)
    else:
        f, _, _ = c12_concrete.history_search(seed=case.get("seed", 0), stop_at=1, n_seq=case.get("sequence", 0) + 1)
        r = f[0]["failure"] if f else None
    print("replay", case.get("kind"), "->", r)
    return 1 if r else 0


def main(tier, seed):
    chk = Check("C12", tier, seed)
    chk.assumptions = list(ASSUMPTIONS)
    c12.obligations(chk)
    # K: key congruence over the catalogue (real code)
    fails, n = c12_concrete.search_keys()
    kf = [k for k in Check.known_findings("C12") if k["id"] == KF_UNION]
    known = [f for f in fails if f["label"].startswith("Union member order")]
    other = [f for f in fails if f not in known]
    if known and kf:
        chk.kf_lines.append(f"KNOWN-FINDING: property=C12 {kf[0]['print']}")
    elif known:
        other = known + other
    chk.bounded.append({"name": "K: key congruence over equal-but-distinct annotation keys (real code, cache cleared between runs)",
                        "evaluations": n, "distinct_nontrivial": len(c12_concrete.key_pairs()), "failures": len(other),
                        "rule": "both member orders of a union, Optional[X] vs Union[None, X], both member orders of a Literal; each input with either key built first"})
    for f in other[:3]:
        chk.violation("key-congruence :: " + f["label"], {"found": True, "kind": "c12-keys", "case": f}, True)
    vf, vn = c12_concrete.search_value_keys()
    chk.bounded.append({"name": "K (values): congruence over equal-but-distinct input values (real code, cache cleared between runs)",
                        "evaluations": vn, "distinct_nontrivial": len(c12_concrete.value_key_pairs()), "failures": len(vf),
                        "rule": "timedelta vs pendulum durations in months / years, Decimal scales, 1 / True / 1.0, Fraction vs int, one instant in two zones; marshal and encode, either value first"})
    for f in vf[:3]:
        chk.violation("value-key-congruence :: " + f["label"], {"found": True, "kind": "c12-values", "case": f}, True)
    n_seq = 200 if tier == "thorough" else 25
    hf, hn, hd = c12_concrete.history_search(seed=seed, stop_at=3, n_seq=n_seq)
    chk.bounded.append({"name": "bounded stand-in: random operation histories vs the same operation with every cache cleared",
                        "evaluations": hn, "distinct_nontrivial": hd, "failures": len(hf),
                        "rule": f"{n_seq} seeded sequences of 25 operations over 16 types: build / marshal / unmarshal wire+text / encode / decode / deep-mutate a held result / clear caches"})
    for f in hf:
        chk.violation("history :: " + f["op"], {"found": True, "kind": "c12-history", "case": f}, True)
    if tier == "thorough":
        bad = c12_concrete.cold_process_sample()
        chk.bounded.append({"name": "cold-subprocess sample", "evaluations": 4, "distinct_nontrivial": 4, "failures": len(bad), "rule": "4 operations after a mutating history vs a fresh interpreter"})
        for b in bad:
            chk.violation("cold-process", {"found": True, "kind": "c12-cold", "case": {"kind": "cold", "failure": b}}, True)
    chk.resolve_failures(searcher)
    return chk.finish(level="other", explanation="Static frame / cache-contract obligations decided by exhaustive AST scans of the current source (every obligation must hold; obligations == discharged), a paper corollary lifting them to histories, and bounded stand-ins on the real code (key-congruence catalogue, seeded random histories, cold-subprocess sample). Not an SMT proof of the history quantifier.")
