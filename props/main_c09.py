"""C09 check driver."""
from pyvc.driver import Check
from props import c09


def main(tier, seed):
    chk = Check("C09", tier, seed)
    c09.all_obligations(chk)
    chk.resolve_failures(None)
    return chk.finish()
