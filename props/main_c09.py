"""C09 check driver."""
from pyvc.driver import Check
from props import c09, c09_concrete

ASSUMPTIONS = [
    "Heap model: the deque / set / list / TopologicalSorter of get_type_graph are membership arrays (order and multiplicity "
    "abstracted; a pop returns an arbitrary member, so every work-list discipline is covered); set membership is by ==/hash of "
    "type objects, modelled as term equality; TypeNode equality is (type, unwrapped, var) as its dataclass declares (cyclic excluded).",
    "Termination of the work-list loop is not proved (no finite-universe variant is expressible over opaque type objects): the "
    "twin runs every synthesised topology and pool annotation under a 5 s alarm (bounded).",
    "graphlib.TopologicalSorter (stdlib, trusted): static_order() yields every added node exactly once, each after all of its "
    "predecessors, and raises CycleError only if the edges contain a cycle. The proof supplies the premises: a well-founded order "
    "certificate for every edge, the root reachable only as a source, and closure; duplicate-freeness and 'root last' then follow "
    "from the stdlib contract and are replayed by the twin (bounded).",
    "L1 (assumed, replayed by the twin over STDLIB_TYPES and the pool): the members of a stdlib type that is not a subscripted "
    "generic are themselves such types and structurally smaller (only unions of plain stdlib types have members at all).",
    "Callee contracts: inspection.unwrap(t) = base(t), idempotent (C11; proved in props/unwrap_contract.py) and None only for None; "
    "refs.forwardref(<type>) is a ForwardRef pinned to that type (C11 obligation); inspection.isliteral / issubscriptedgeneric / "
    "isstdlibtype / isstructuredtype are total predicates (C17); inspection.args / get_type_hints deliver the generic arguments "
    "and the ordered field hints (external: typing).",
    "Domain: member annotations are types, not unresolved ForwardRef objects (get_type_hints resolves them).",
    "The relational clause: string / ForwardRef inputs are proved by the wiring obligations; for NewType / value-alias roots the step is "
    "proved as root-label independence (an SMT lemma over the unwrap contract: the visited test does not depend on whether the root label "
    "is in the set; plus a dataflow scan: `visited` is read only through that test and the root annotation only builds the root node) and "
    "the simulation argument that combines them is on paper; memoised inputs are C12's cache contract. All of it is replayed by the twin (bounded).",
]


def searcher(ob):
    fails, n = c09_concrete.search("quick", 0, stop_at=1)
    if fails:
        return {"found": True, "kind": "c09-case", "case": fails[0], "searched": n}
    return {"found": False, "searched": n, "note": "no synthesised topology (<= 4 classes) or pool annotation violates the statement (bounded)"}


def replay(data):
    case = data.get("case")
    if not case:
        print("replay: no concrete input recorded for", data.get("obligation"), str(data.get("solver"))[:300])
        return 1
    r = c09_concrete.run_recorded(case)
    print("replay", case, "->", r)
    return 1 if r else 0


def main(tier, seed):
    chk = Check("C09", tier, seed)
    chk.assumptions = list(ASSUMPTIONS)
    c09.all_obligations(chk)
    fails, n = c09_concrete.search(tier, seed, stop_at=3)
    chk.bounded.append({"name": "bounded replay of the assumed parts: class-graph topologies (<= 4 synthesised classes; 4 class styles; 7 edge kinds; "
                                "8 root kinds incl. NewType / text / ForwardRef roots; nested classes; shared leaves; string and value aliases) and the pool annotations",
                        "evaluations": n, "failures": len(fails),
                        "rule": "terminates within 5 s, no exception, duplicate-free, root last, every member preceded (plain or pinned reference), "
                                "flag <=> ForwardRef, flagged => revisit, memoised / itertypes / NewType / reference inputs agree; L1 over STDLIB_TYPES"})
    for i, f in enumerate(fails):
        chk.violation(f"bounded-replay#{i}", {"found": True, "kind": "c09-case", "case": f}, True)
    chk.resolve_failures(searcher)
    return chk.finish()
