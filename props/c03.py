"""C03 — unmarshal never returns a value outside the target type.

Functions under contract: every unmarshaller __call__ in typelib/unmarshals/routines.py.
Contract (from the statement), as an induction step: assuming the member routines are
Conf-sound, every value a routine *returns* conforms to the routine's target; raising is allowed.
"""
from __future__ import annotations

import datetime
import decimal
import fractions
import numbers
import pathlib
import re
import uuid

import z3

from pyvc.core import (SV, SInt, SBool, SSeq, SDict, Obj, Val, VNone, BoolS, IntS, Cls, to_val, to_int, to_bool_term,
                       cls_of, sub, cls_const, class_axioms, run, run_raises)
from pyvc.driver import Ob, cover_hyps
from pyvc.ground import Q
from pyvc.expr import SCls, seq_of
from props import routine_world as rw
from props import routines as R
from props import leaf_world as lw

UN = "typelib.unmarshals.routines"

# leaf routine class -> the base class the dispatch guarantees for its target (C17 / _HANDLERS)
LEAVES = {
    "BytesUnmarshaller": bytes, "StringUnmarshaller": str, "NumberUnmarshaller": numbers.Number,
    "DateUnmarshaller": datetime.date, "DateTimeUnmarshaller": datetime.datetime, "TimeUnmarshaller": datetime.time,
    "TimeDeltaUnmarshaller": datetime.timedelta, "UUIDUnmarshaller": uuid.UUID, "PatternUnmarshaller": re.Pattern,
    "CastUnmarshaller": object, "NoneTypeUnmarshaller": type(None),
}
CLAUSE = "returned-value-is-an-instance-of-the-target"


def leaf_obligations(chk, clsname, base):
    I = lw.make_interp()
    func = f"{UN}.{clsname}.__call__"

    def mk(I, path):
        T = path.fresh("T", Cls)
        path.assume(sub(T, cls_const(base)))
        # the classes the body names (for the ground issubclass table)
        for k in (datetime.date, datetime.datetime, datetime.time, datetime.timedelta, int, float, str, bytes, bytearray,
                  memoryview, type(None)):
            cls_const(k)
        val = path.fresh("val")
        t = SCls(T)
        fields = {"t": t, "origin": t, "context": rw.Ctx(path.fresh("ctx")), "var": None}
        if clsname == "CastUnmarshaller":
            C = path.fresh("Caster", Cls)
            path.assume(sub(C, T))      # origin(t) is a concrete class of t's kind (C17: origin contract)
            fields["caster"] = SCls(C)
        if clsname == "PatternUnmarshaller":
            path.assume(T == cls_const(re.Pattern))
        if clsname == "NoneTypeUnmarshaller":
            path.assume(T == cls_const(type(None)))
        slf = rw.routine_self(I, UN, clsname, fields)
        return [slf, SV(val)], {}, {"T": T, "val": val}
    results = I.run_function(func, mk, max_paths=3000)
    for pi, (path, out, obls, writes, cur) in enumerate(results):
        _leaf_one(chk, func, clsname, pi, path, out, cur)
    chk.add(Ob(func, "cover", "pre", cover_hyps(results), z3.BoolVal(True), expect="sat"))
    chk.trusted.update(I.assumed_used)


def _leaf_one(chk, func, clsname, pi, path, out, cur):
    pid = f"p{pi}"
    hy = path.hyps + class_axioms()
    T = cur["T"]
    if out.kind == "raise":
        chk.add(Ob(func, CLAUSE, pid, hy, z3.BoolVal(True), {"trivial": True, "note": "raising is allowed"}))
        return
    if out.kind != "ret":
        chk.add(Ob(func, CLAUSE, pid, hy, z3.BoolVal(False), {"engine": str(out.value)}))
        return
    res = out.value
    if res is None:
        goal = T == cls_const(type(None))
    else:
        try:
            rt = to_val(res)
        except Exception as e:
            chk.add(Ob(func, CLAUSE, pid, hy, z3.BoolVal(False), {"note": f"result {res!r} is not a plain value"}))
            return
        goal = sub(cls_of(rt), T)
        if clsname == "DateUnmarshaller":
            dtc = cls_const(datetime.datetime)
            goal = z3.And(goal, z3.Or(z3.Not(sub(cls_of(rt), dtc)), sub(T, dtc)))
    chk.add(Ob(func, CLAUSE, pid, hy, goal))


# ----------------------------------------------------------------------------- Literal
def literal_obligations(chk):
    from pyvc.stmt import LoopSpec
    from pyvc.env import _MISSING
    I = lw.make_interp()
    func = f"{UN}.LiteralUnmarshaller.__call__"
    nv = z3.Function("n_values", Val, IntS)
    vv = z3.Function("value_at", Val, IntS, Val)
    pyeq = z3.Function("py_eq", Val, Val, BoolS)

    def equal_hook(I, path, a, b, identity):
        if not identity and isinstance(a, SV) and isinstance(b, SV):
            return SBool(pyeq(a.t, b.t))
        return _MISSING
    I.hooks["equal"] = equal_hook
    # loops over the declared values (early return on the first equal literal): trivial invariants
    # the inner loop over the declared values (early return on the first equal literal): trivial invariant
    I.loop_specs[(func, 1)] = LoopSpec("literals-of-the-same-class", lambda I, p, e, k_: None, lambda I, p, e, k_: [])
    I.loop_specs[(func, 2)] = LoopSpec("literals", lambda I, p, e, k_: None, lambda I, p, e, k_: [])

    def mk(I, path):
        t = path.fresh("t")
        val = path.fresh("val")
        path.assume(nv(t) >= 0)
        values = SSeq(nv(t), lambda i, t=t: SV(vv(t, to_int(i))), "tuple")
        slf = rw.routine_self(I, UN, "LiteralUnmarshaller", {"t": SV(t), "origin": SV(path.fresh("o")), "values": values,
                                                              "context": rw.Ctx(path.fresh("ctx")), "var": None})
        return [slf, SV(val)], {}, {"t": t}
    results = I.run_function(func, mk)
    for pi, (path, out, obls, writes, cur) in enumerate(results):
        if out.kind == "end":
            continue
        _literal_one(chk, func, pi, path, out, cur, nv, vv)


def _literal_one(chk, func, pi, path, out, cur, nv, vv):
    pid, hy, t = f"p{pi}", path.hyps, cur["t"]
    nm = "returned-value-is-a-declared-literal"
    if out.kind == "raise":
        chk.add(Ob(func, nm, pid, hy, z3.BoolVal(True), {"trivial": True}))
        return
    if out.kind != "ret":
        chk.add(Ob(func, nm, pid, hy, z3.BoolVal(False), {"engine": str(out.value)}))
        return
    r = to_val(out.value)
    # the returned object is one of the declared literal objects themselves (contrapositive with a schema)
    chk.add(Ob(func, nm, pid, hy + [Q([IntS], lambda j: z3.Implies(z3.And(j >= 0, j < nv(t)), vv(t, j) != r), name="not-declared")],
               z3.BoolVal(False)))


# ----------------------------------------------------------------------------- composites
COMPOSITE_CLAUSES = ["result-class-is-the-target's-origin", "every-member-of-the-result-comes-from-its-member-routine",
                     "fixed-tuple-has-exactly-the-declared-arity", "typed-dict-has-all-required-keys"]


def composite_obligations(chk):
    I = R.make_interp()
    for mod, cls, kind in R.COMPOSITES:
        if mod != UN:
            continue
        func, results = R.run_call(I, mod, cls, kind)
        for pi, (path, out, obls, writes, cur) in enumerate(results):
            for nm, pc, goal in obls:
                if nm.startswith("loop-"):
                    chk.add(Ob(func, nm, f"p{pi}", pc, goal))
            if out.kind == "end":
                continue
            _composite_one(chk, func, kind, pi, path, out, cur)
    chk.trusted.update(I.assumed_used)


def _composite_one(chk, func, kind, pi, path, out, cur):
    pid, hy = f"p{pi}", path.hyps
    slf, val = cur["self"], cur["val"]
    names = COMPOSITE_CLAUSES[:2] + ([COMPOSITE_CLAUSES[2]] if kind == "fixedtuple" else []) \
        + ([COMPOSITE_CLAUSES[3]] if kind == "structured" else [])
    if out.kind == "raise":
        for nm in names:
            chk.add(Ob(func, nm, pid, hy, z3.BoolVal(True), {"trivial": True}))
        return
    if out.kind != "ret":
        for nm in names:
            chk.add(Ob(func, nm, pid, hy, z3.BoolVal(False), {"engine": str(out.value)}))
        return
    res = out.value
    src = rw.load_f(val)
    i = path.fresh("i", IntS)
    if kind == "iterator":
        s = seq_of(res) if not isinstance(res, rw.Built) else None
        ok = s is not None and getattr(s, "kind", "") == "gen"
        chk.add(Ob(func, names[0], pid, hy, z3.BoolVal(bool(ok)), {"note": "an iterator (generator) is returned"}))
        goal = z3.BoolVal(False) if s is None else to_val(s.at(SInt(i))) == run(to_val(slf.fields["values"]), rw.val_at(src, i))
        chk.add(Ob(func, names[1], pid, hy + [i >= 0, i < rw.vals_n(src)], goal))
        return
    want = slf.fields["t"] if kind == "structured" else slf.fields["origin"]
    ok = isinstance(res, rw.Built) and res.ctor is want
    chk.add(Ob(func, names[0], pid, hy, z3.BoolVal(bool(ok))))
    if not ok:
        for nm in names[1:]:
            chk.add(Ob(func, nm, pid, hy, z3.BoolVal(False)))
        return
    if kind == "iterable":
        s = res.source
        chk.add(Ob(func, names[1], pid, hy + [i >= 0, i < _n(s)],
                   z3.Exists([z3.Int("j")], to_val(s.at(SInt(i))) == run(to_val(slf.fields["values"]), rw.val_at(src, z3.Int("j"))))))
    elif kind == "mapping":
        s = res.source
        pair = s.at(SInt(i))
        j = z3.Int("j")
        chk.add(Ob(func, names[1], pid, hy + [i >= 0, i < _n(s)],
                   z3.Exists([j], z3.And(to_val(pair[0]) == run(to_val(slf.fields["keys"]), rw.item_k(src, j)),
                                         to_val(pair[1]) == run(to_val(slf.fields["values"]), rw.item_v(src, j))))))
    elif kind == "fixedtuple":
        s = res.source
        n, r = cur["n"], cur["r"]
        chk.add(Ob(func, names[1], pid, hy + [i >= 0, i < _n(s)],
                   z3.Exists([z3.Int("j")], to_val(s.at(SInt(i))) == run(r(i), rw.val_at(src, z3.Int("j"))))))
        chk.add(Ob(func, names[2], pid, hy, _n(s) == n))
    elif kind == "structured":
        body = res.kwargs
        fhas, fget = cur["fhas"], cur["fget"]
        if not isinstance(body, rw.CompDict):
            for nm in names[1:]:
                chk.add(Ob(func, nm, pid, hy, z3.BoolVal(False)))
            return
        j = z3.Int("j")
        chk.add(Ob(func, names[1], pid, hy + [i >= 0, i < _n_term(body.n), body.keep(SInt(i))],
                   z3.And(fhas(to_val(body.key(SInt(i)))),
                          z3.Exists([j], to_val(body.val(SInt(i))) == run(fget(to_val(body.key(SInt(i)))), rw.item_v(src, j))))))
        # TypedDict: constructing a TypedDict performs no key check, so the routine itself must make sure
        t = to_val(slf.fields["t"])
        k = path.fresh("k", IntS)
        n = _n_term(body.n)
        chk.add(Ob(func, names[2], pid, hy + [k >= 0, k < rw.required_n(t)], body.has_f(rw.required_key(t, k))))


def _n(s):
    return s.length if not isinstance(s.length, int) else z3.IntVal(s.length)


def _n_term(n):
    return n if not isinstance(n, int) else z3.IntVal(n)


def obligations(chk):
    for clsname, base in LEAVES.items():
        leaf_obligations(chk, clsname, base)
    literal_obligations(chk)
    composite_obligations(chk)
