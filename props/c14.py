"""C14 — text-like inputs are interchangeable.

Functions under contract: serdes.decode, serdes.load, serdes.strload (+ its memoised helper),
inspection.istexttype, and the carrier-independence of every unmarshaller __call__.

Vocabulary: content(x) is the byte content of a bytes-like object, utf8(b) the text it decodes to;
text(x) = x for str, utf8(content(x)) for bytes / bytearray / memoryview.
"""
from __future__ import annotations

import ast as _ast
import builtins as B

import z3

from pyvc.core import (SV, SInt, SBool, SSeq, Obj, Val, VNone, BoolS, IntS, Cls, to_val, to_int, cls_of, sub, cls_const,
                       class_axioms, PyRaise, Stub, Unsupported)
from pyvc.driver import Ob
from pyvc.ground import Q
from pyvc.env import _MISSING
from pyvc.expr import SCls
from props import routine_world as rw
from props import uf_world as uw

SER = "typelib.serdes"
content = z3.Function("content", Val, Val)          # bytes content of a bytes-like object
utf8 = z3.Function("utf8_decode", Val, Val)         # the str a byte content decodes to
json_ok = z3.Function("json_parses", Val, BoolS)    # over the *text*
json_val = z3.Function("json_value", Val, Val)
lit_ok = z3.Function("literal_eval_succeeds", Val, BoolS)
lit_val = z3.Function("literal_eval_value", Val, Val)
lit_exc = z3.Function("literal_eval_exception", Val, Cls)
json_exc = z3.Function("json_exception", Val, Cls)
# the JSON backend the library is configured with (orjson when installed) as opposed to the statement's decoder (json_value):
backend_val = z3.Function("backend_json_value", Val, Val)
many_digits = z3.Function("text_has_a_run_of_19_digits", Val, BoolS)
backend_is_std = z3.Bool("backend_is_the_standard_decoder")
std_extra_ok = z3.Function("std_decoder_accepts_non_rfc_text", Val, BoolS)   # NaN / Infinity tokens
std_extra_val = z3.Function("std_decoder_value_of_non_rfc_text", Val, Val)
readonly = z3.Function("memoryview_readonly", Val, BoolS)

TEXT_CLASSES = (str, bytes, bytearray, memoryview)



def _outer_loop_target(I, func):
    """name of the loop variable of the function's outermost `for` (the candidate form of the input), read off the AST"""
    import ast as _ast
    _m, _c, node = I.src.find_def(func)
    for st in _ast.walk(node):
        if isinstance(st, _ast.For) and isinstance(st.target, _ast.Name):
            return st.target.id
    return "candidate"

def is_cls(x, k):
    return cls_of(x) == cls_const(k)


def byteslike(x):
    return z3.Or(is_cls(x, bytes), is_cls(x, bytearray), is_cls(x, memoryview))


def carrier(x):
    return z3.Or(is_cls(x, str), byteslike(x))


def text(x):
    return z3.If(is_cls(x, str), x, utf8(content(x)))


def dependency_axioms():
    """Assumed contracts of the standard library / JSON backend (trusted base)."""
    return [
        Q([Val], lambda b: cls_of(utf8(b)) == cls_const(str), trigger=utf8, name="utf8-gives-str"),
        Q([Val], lambda d: z3.Or(*[sub(lit_exc(d), cls_const(k)) for k in
                                   (ValueError, TypeError, SyntaxError, MemoryError, RecursionError)]),
          trigger=lit_exc, name="literal_eval-raises-only-these"),
        Q([Val], lambda d: sub(json_exc(d), cls_const(ValueError)), trigger=json_exc, name="json-raises-ValueError"),
        # the backend accepts exactly RFC 8259 JSON text and agrees with the statement's decoder on its value - except that
        # orjson reads an integer outside the 64-bit range as a float; such an integer needs a run of at least 19 digits
        Q([Val], lambda d: z3.Implies(z3.Or(backend_is_std, z3.Not(many_digits(d))), backend_val(d) == json_val(d)),
          trigger=backend_val, name="backend-agrees-with-the-JSON-decoder-unless-the-text-has-19-digits-in-a-row"),
    ]


def install_models(I):
    """tobytes / decode / bytes() / json.loads / ast.literal_eval per their documented contracts."""
    def method(I, path, recv, name, args, kw):
        if isinstance(recv, SV) and name == "tobytes" and not args:
            r = uw.uf("memoryview.tobytes", 1)(recv.t)
            path.assume(z3.And(cls_of(r) == cls_const(bytes), content(r) == content(recv.t)))
            return SV(r)
        if isinstance(recv, SV) and name == "decode":
            enc = args[0] if args else kw.get("encoding", "utf-8")
            if enc != "utf-8":
                raise Unsupported(f"decode with encoding {enc!r}")
            return SV(utf8(content(recv.t)))
        return _MISSING
    prev = I.hooks.get("method")
    I.hooks["method"] = lambda I, p, r, n, a, k: (lambda x: x if x is not _MISSING else (prev(I, p, r, n, a, k) if prev else _MISSING))(
        method(I, p, r, n, a, k))

    import copy
    # copy.deepcopy(x) is a value equal to x (C14 speaks about values; freshness is C12's subject)
    I.builtin_models[copy.deepcopy] = lambda I, path, a, k: a[0]

    def m_bytes(I, path, a, k):
        if a and isinstance(a[0], SV):
            r = uw.uf("bytes", 1)(a[0].t)
            path.assume(z3.And(cls_of(r) == cls_const(bytes), content(r) == content(a[0].t)))
            return SV(r)
        return _MISSING
    I.builtin_models[B.bytes] = m_bytes

    def backend_loads(I, path, a, k):
        x = to_val(a[0])
        t = text(x)
        if path.branch(json_ok(t)):
            return SV(backend_val(t))
        raise PyRaise(json_exc(t), note="json.loads rejected the text")

    def std_loads(I, path, a, k):
        # the standard library's decoder: the statement's decoder on JSON text; it also accepts a few non-RFC tokens
        x = to_val(a[0])
        t = text(x)
        if path.branch(json_ok(t)):
            return SV(json_val(t))
        if path.branch(std_extra_ok(t)):
            return SV(std_extra_val(t))
        raise PyRaise(json_exc(t), note="json.loads rejected the text")
    import json
    import re as _re
    from typelib.py import compat
    I.builtin_models[compat.json.loads] = backend_loads
    if compat.json is json:
        I.builtin_models[json.loads] = backend_loads
        I.axioms_extra = [backend_is_std]
    else:
        I.builtin_models[json.loads] = std_loads

    # re.compile of a constant pattern at module level: the compiled pattern itself (never raises for a valid constant)
    I.builtin_models[_re.compile] = lambda I, path, a, k: _re.compile(a[0]) if len(a) == 1 and isinstance(a[0], str) and not k else _MISSING

    def pattern_search(I, path, recv, name, args, kw):
        # <compiled digits pattern>.search(text): only its truth is used
        if isinstance(recv, _re.Pattern) and name == "search" and len(args) == 1 and recv.pattern in (r"\d{19}", r"[0-9]{19}"):
            return SBool(many_digits(to_val(args[0])))
        return _MISSING
    prev2 = I.hooks.get("method")
    I.hooks["method"] = lambda I, p, r, n, a, k: (lambda x: x if x is not _MISSING else (prev2(I, p, r, n, a, k) if prev2 else _MISSING))(
        pattern_search(I, p, r, n, a, k))

    def literal_eval(I, path, a, k):
        d = to_val(a[0])
        if path.branch(lit_ok(d)):
            return SV(lit_val(d))
        raise PyRaise(lit_exc(d), note="ast.literal_eval rejected the text")
    I.builtin_models[_ast.literal_eval] = literal_eval


# ----------------------------------------------------------------------------- decode
def decode_obligations(chk):
    I = uw.make_interp()
    install_models(I)
    del I.stubs["typelib.serdes.decode"]
    func = f"{SER}.decode"

    def mk(I, path):
        x = path.fresh("x")
        for a in dependency_axioms():
            path.assume(a)
        for k in TEXT_CLASSES:
            cls_const(k)
        return [SV(x)], {}, {"x": x}
    results = I.run_function(func, mk)
    for pi, (path, out, obls, writes, cur) in enumerate(results):
        _decode_one(chk, func, pi, path, out, cur)
    chk.trusted.update(I.assumed_used)


def _decode_one(chk, func, pi, path, out, cur):
    pid, hy, x = f"p{pi}", path.hyps + class_axioms(), cur["x"]
    exact = z3.Or(carrier(x), z3.Not(z3.Or(*[sub(cls_of(x), cls_const(k)) for k in (bytes, bytearray, memoryview)])))
    hy = hy + [exact]        # domain: the four carriers themselves, or not bytes-like at all
    names = ["bytes-like-carriers-decode-to-their-text", "everything-else-is-returned-unchanged"]
    if out.kind != "ret":
        for nm in names:
            chk.add(Ob(func, nm, pid, hy, z3.BoolVal(False), {"outcome": out.kind}))
        return
    r = to_val(out.value)
    chk.add(Ob(func, names[0], pid, hy + [byteslike(x)], r == utf8(content(x))))
    chk.add(Ob(func, names[1], pid, hy + [z3.Not(byteslike(x))], r == x))


# ----------------------------------------------------------------------------- strload / load
def strload_obligations(chk):
    for fname in ("strload", "load"):
        I = uw.make_interp()
        install_models(I)
        for k in ("decode", "load"):
            I.stubs.pop(f"typelib.serdes.{k}", None)
        I.stubs["typelib.py.inspection.istexttype"] = Stub(
            "inspection.istexttype", lambda I, p, a, k: SBool(z3.Or(*[sub(I.cls_term(a[0]), cls_const(c)) for c in TEXT_CLASSES])),
            None)
        st = {"cur": None}

        def memo(I, path, f, args, kwargs, st=st):
            st["cur"]["memo"].append((f.qualname, [to_val(a) for a in args], path.hyps))
        I.hooks["memo_call"] = memo
        func = f"{SER}.{fname}"

        def mk(I, path):
            x = path.fresh("x")
            for a in dependency_axioms():
                path.assume(a)
            for k in TEXT_CLASSES:
                cls_const(k)
            st["cur"] = {"x": x, "memo": []}
            return [SV(x)], {}, st["cur"]
        results = I.run_function(func, mk)
        for pi, (path, out, obls, writes, cur) in enumerate(results):
            _strload_one(chk, func, fname, pi, path, out, cur, cur["memo"])
        chk.functions.update(q for q in I.called if q.startswith("typelib."))
        chk.trusted.update(I.assumed_used)


def strload_spec(x):
    t = text(x)
    return z3.If(json_ok(t), json_val(t), z3.If(lit_ok(t), lit_val(t), t))


def _strload_one(chk, func, fname, pi, path, out, cur, memo_calls):
    pid, x = f"p{pi}", cur["x"]
    hy = path.hyps + class_axioms()
    names = ["text-decodes-as-json-else-literal-else-itself", "never-raises-on-a-text-carrier",
             "memoised-helper-receives-a-hashable-argument"]
    if fname == "load":
        names = names + ["non-text-input-is-returned-untouched"]
        dom = z3.Or(carrier(x), z3.Not(z3.Or(*[sub(cls_of(x), cls_const(c)) for c in TEXT_CLASSES])))
        hy = hy + [dom]
    else:
        hy = hy + [carrier(x)]
    is_text = carrier(x)
    if out.kind == "ret":
        r = to_val(out.value)
        chk.add(Ob(func, names[0], pid, hy + [is_text], r == strload_spec(x)))
        chk.add(Ob(func, names[1], pid, hy, z3.BoolVal(True), {"trivial": True}))
        if fname == "load":
            chk.add(Ob(func, names[3], pid, hy + [z3.Not(is_text)], r == x))
    else:
        why = {"outcome": out.kind, "why": str(out.value if out.kind != "raise" else out.exc.exc_cls)}
        chk.add(Ob(func, names[1], pid, hy + [is_text], z3.BoolVal(False), why))
        chk.add(Ob(func, names[0], pid, hy + [is_text], z3.BoolVal(False), why))
        if fname == "load":
            chk.add(Ob(func, names[3], pid, hy + [z3.Not(is_text)], z3.BoolVal(False), why))
    # hashability at the memoised call (functools.lru_cache hashes its argument)
    for (q, args, pc) in memo_calls:
        a = args[0]
        hashable = z3.Or(is_cls(a, str), is_cls(a, bytes), z3.And(is_cls(a, memoryview), readonly(a)))
        chk.add(Ob(func, names[2], pid, hy, hashable, {"callee": q}))
    if not memo_calls:
        chk.add(Ob(func, names[2], pid, hy, z3.BoolVal(True), {"trivial": True}))


# ----------------------------------------------------------------------------- carrier independence of the routines
UN = "typelib.unmarshals.routines"
ROUTINES = ["NoneTypeUnmarshaller", "StringUnmarshaller", "NumberUnmarshaller", "DateUnmarshaller", "DateTimeUnmarshaller",
            "TimeUnmarshaller", "TimeDeltaUnmarshaller", "UUIDUnmarshaller", "PatternUnmarshaller", "CastUnmarshaller",
            "SubscriptedMappingUnmarshaller", "SubscriptedIterableUnmarshaller",
            "SubscriptedIteratorUnmarshaller", "FixedTupleUnmarshaller", "StructuredTypeUnmarshaller"]
CLAUSE = "text-carriers-are-indistinguishable-after-decoding"


def carrier_obligations(chk):
    import datetime
    import numbers
    import uuid
    import re
    from props import routines as R
    bases = {"StringUnmarshaller": str, "NumberUnmarshaller": numbers.Number, "DateUnmarshaller": datetime.date,
             "DateTimeUnmarshaller": datetime.datetime, "TimeUnmarshaller": datetime.time,
             "TimeDeltaUnmarshaller": datetime.timedelta, "UUIDUnmarshaller": uuid.UUID, "PatternUnmarshaller": re.Pattern,
             "CastUnmarshaller": object, "NoneTypeUnmarshaller": type(None)}
    for clsname in ROUTINES:
        I = uw.make_interp()
        R_I = I

        def keep_raises(s, path):
            s.saved_raises = s.elem_raises
        I.on_elem_raises = keep_raises
        I.on_dict_raises = lambda d, r, path: None
        from pyvc.stmt import LoopSpec
        from props.routines import is_required_keys_loop
        I.loop_specs[(f"{UN}.StructuredTypeUnmarshaller.__call__", is_required_keys_loop)] = LoopSpec("required-keys", lambda I, p, e, k: None,
                                                                                                    lambda I, p, e, k: [])
        for k_ in (0, 1, 2):
            I.loop_specs[(f"{UN}.LiteralUnmarshaller.__call__", k_)] = LoopSpec(f"literals{k_}", lambda I, p, e, k: None,
                                                                                lambda I, p, e, k: [])
        func = f"{UN}.{clsname}.__call__"

        def mk(I, path, clsname=clsname):
            val = path.fresh("val")
            for k in TEXT_CLASSES + (int, float, datetime.date, datetime.datetime, datetime.time, datetime.timedelta):
                cls_const(k)
            path.assume(carrier(val))
            # decode / load contracts (proved above): the decoded form of a carrier is its text (a str)
            path.assume(cls_of(rw.decode_f(val)) == cls_const(str))
            T = path.fresh("T", Cls)
            base = bases.get(clsname)
            if base is not None and base is not object:
                path.assume(sub(T, cls_const(base)))
            if base is str:
                path.assume(sub(cls_const(str), T) == (T == cls_const(str)))
            t = SCls(T)
            fields = {"t": t, "origin": t, "context": rw.Ctx(path.fresh("ctx")), "var": None}
            if clsname == "CastUnmarshaller":
                fields["caster"] = SCls(path.fresh("Caster", Cls))
                # dispatch order (_HANDLERS): str / bytes targets go to String/BytesUnmarshaller, so a text-like Cast
                # target is a proper subclass of its text base (an Enum mix-in); no plain carrier is an instance of it
                for k in TEXT_CLASSES:
                    path.assume(z3.Not(sub(cls_const(k), T)) if True else True)
            if clsname == "LiteralUnmarshaller":
                fields["values"] = SSeq(path.fresh("nv", IntS), lambda i: SV(uw.uf("literal_value", 1)(to_val(i))), "tuple")
            if clsname.startswith("Subscripted") or clsname in ("FixedTupleUnmarshaller", "StructuredTypeUnmarshaller"):
                fields["t"] = rw.ctor(path.fresh("self_t"))
                fields["origin"] = rw.ctor(path.fresh("self_origin"))
                fields["keys"] = SV(path.fresh("keys_routine"))
                fields["values"] = SV(path.fresh("values_routine"))
                n, r, seq = rw.routines_seq(path, "member_routine")
                fields["ordered_routines"] = seq
                fields["fields_by_var"] = rw.SDict(lambda k: uw.uf("fields_has", 1, BoolS)(k), lambda k: SV(uw.uf("fields_get", 1)(k)))
            slf = rw.routine_self(I, UN, clsname, fields)
            return [slf, SV(val)], {}, {"val": val, "T": T}
        results = I.run_function(func, mk, max_paths=6000)
        for pi, (path, out, obls, writes, cur) in enumerate(results):
            if out.kind == "end":
                continue
            _carrier_one(chk, func, pi, path, out, cur)
        chk.trusted.update(I.assumed_used)


def _free_of(term, val, wrappers):
    """term mentions `val` only inside the wrapper applications."""
    subs = [(w, z3.Const(f"wrapped_{i}", Val)) for i, w in enumerate(wrappers)]
    t2 = z3.substitute(term, *subs)
    return val.decl().name() not in uw.consts_of(t2)


def _carrier_one(chk, func, pi, path, out, cur):
    pid, val = f"p{pi}", cur["val"]
    wrappers = [rw.decode_f(val), rw.load_f(val)]
    ca = class_axioms()
    if out.kind == "unsupported":
        chk.add(Ob(func, CLAUSE, pid, path.hyps, z3.BoolVal(False), {"engine": out.value}))
        return
    # 1. every branch decision either does not look at the carrier, or is decided by carrier-ness alone
    from pyvc.ground import Q as _Q
    ground = [h for h in path.pc]
    base = [carrier(val), cls_of(rw.decode_f(val)) == cls_const(str)]
    for ci, c in enumerate(ground):
        if _free_of(c, val, wrappers):
            continue
        others = [g for g in ground if _free_of(g, val, wrappers)] + base
        chk.add(Ob(func, CLAUSE, f"{pid}/branch{ci}", others + [q for q in path.qs] + ca, c,
                   {"note": "a branch that inspects the raw carrier must be decided by its being a text carrier"}))
    # 2. the outcome does not mention the raw carrier
    if out.kind == "ret":
        res = out.value
        terms = []
        try:
            if isinstance(res, rw.Built):
                src = res.source if res.source is not None else None
                if src is not None:
                    i = z3.Int("i_dep")
                    it = src.at(SInt(i))
                    terms = [to_val(x) for x in (it if isinstance(it, tuple) else (it,))]
                elif isinstance(res.kwargs, rw.CompDict):
                    i = z3.Int("i_dep")
                    terms = [to_val(res.kwargs.key(SInt(i))), to_val(res.kwargs.val(SInt(i))), res.kwargs.keep(SInt(i))]
            elif isinstance(res, SSeq):
                i = z3.Int("i_dep")
                it = res.at(SInt(i))
                terms = [to_val(x) for x in (it if isinstance(it, tuple) else (it,))]
            elif res is None:
                terms = []
            else:
                terms = [to_val(res)]
            ok = all(_free_of(t, val, wrappers) for t in terms)
        except Unsupported:
            ok = False
        chk.add(Ob(func, CLAUSE, f"{pid}/result", path.hyps, z3.BoolVal(bool(ok)),
                   {"note": "the returned value is a function of decode(val) / load(val) only"}))
    else:
        chk.add(Ob(func, CLAUSE, f"{pid}/result", path.hyps, z3.BoolVal(True), {"trivial": True}))


def obligations(chk):
    decode_obligations(chk)
    strload_obligations(chk)
    carrier_obligations(chk)
    literal_relational(chk)


# ----------------------------------------------------------------------------- LiteralUnmarshaller: two-run relational proof
def literal_relational(chk):
    """unmarshal(Literal[...], s) and unmarshal(Literal[...], <bytes-like carrier of s>) give the same
    declared literal or both reject.  Two symbolic runs of the real body (a str carrier and a bytes-like
    carrier of the same text), every pair of paths compared."""
    from pyvc.stmt import LoopSpec
    func = f"{UN}.LiteralUnmarshaller.__call__"
    nv = z3.Int("lit_n")
    vv = z3.Function("lit_value", IntS, Val)
    pyeq = z3.Function("py_eq", Val, Val, BoolS)
    v1, v2 = z3.Const("val_str", Val), z3.Const("val_bytes", Val)

    def run_one(val, tag):
        I = uw.make_interp(raising=False)

        def equal_hook(I, path, a, b, identity):
            if not identity and isinstance(a, SV) and isinstance(b, SV):
                return SBool(pyeq(a.t, b.t))
            return _MISSING
        I.hooks["equal"] = equal_hook

        def inv(I, path, env, k):
            cand = to_val(env.lookup(_outer_loop_target(I, func)))
            return [Q([IntS], lambda j: z3.Implies(z3.And(j >= 0, j < k), z3.Not(pyeq(vv(j), cand))), name="no-earlier-match")]
        def inv_exact(I, path, env, k):
            cand = to_val(env.lookup(_outer_loop_target(I, func)))
            return [Q([IntS], lambda j: z3.Implies(z3.And(j >= 0, j < k), z3.Not(z3.And(cls_of(vv(j)) == cls_of(cand), pyeq(vv(j), cand)))),
                      name="no-earlier-match-of-the-same-class")]
        # the two inner loops over the literals: one of the candidate's own class first, then any equal one
        I.loop_specs[(func, 1)] = LoopSpec("values-of-the-same-class", lambda I, p, e, k: None, inv_exact)
        I.loop_specs[(func, 2)] = LoopSpec("values", lambda I, p, e, k: None, inv)

        def mk(I, path):
            path.assume(nv >= 0)
            values = SSeq(nv, lambda i: SV(vv(to_int(i))), "tuple")
            slf = rw.routine_self(I, UN, "LiteralUnmarshaller", {"t": SV(path.fresh("t")), "origin": SV(path.fresh("o")),
                                                                  "values": values, "context": rw.Ctx(path.fresh("ctx")),
                                                                  "var": None})
            return [slf, SV(val)], {}, {}
        res = I.run_function(func, mk, name_prefix=tag)
        chk.trusted.update(I.assumed_used)
        return [(p, o, ob) for (p, o, ob, w, c) in res]

    A = run_one(v1, "A_")
    B_ = run_one(v2, "B_")
    link = [
        is_cls(v1, str), byteslike(v2),
        rw.decode_f(v1) == v1,                       # decode is the identity on str            (decode contract)
        rw.decode_f(v2) == v1,                       # the bytes-like carrier holds the same text
        rw.load_f(v1) == rw.load_f(v2),              # load depends on the text only            (strload contract)
        Q([IntS], lambda j: z3.Not(pyeq(vv(j), v2)), name="literals-never-equal-a-bytes-like-object"),
    ]
    n_pairs = 0
    for ia, (pa, oa, oba) in enumerate(A):
        for nm, pc, goal in oba:
            chk.add(Ob(func, nm, f"A{ia}", pc, goal))
    for ib, (pb, ob_, obb) in enumerate(B_):
        for nm, pc, goal in obb:
            chk.add(Ob(func, nm, f"B{ib}", pc, goal))
    realA = [(i, p, o) for i, (p, o, _) in enumerate(A) if o.kind != "end"]
    realB = [(i, p, o) for i, (p, o, _) in enumerate(B_) if o.kind != "end"]
    for ia, pa, oa in realA:
        for ib, pb, ob_ in realB:
            _literal_pair(chk, func, ia, pa, oa, ib, pb, ob_, link)
            n_pairs += 1
    chk.extra_coverage["literal_relational_path_pairs"] = n_pairs
    # vacuity guard: the linking assumptions are consistent with a pair of executions (both carriers rejected)
    ra = [p for i, p, o in realA if o.kind == "raise"]
    rb = [p for i, p, o in realB if o.kind == "raise"]
    if ra and rb:
        chk.add(Ob(func, "cover", "link", link + ra[0].hyps + rb[0].hyps, z3.BoolVal(True), expect="sat"))
    chk.add(Ob(func, "a-rejecting-path-pair-exists-to-anchor-the-vacuity-cover", "any", [], z3.BoolVal(bool(ra and rb))))


def _literal_pair(chk, func, ia, pa, oa, ib, pb, ob_, link):
    nm = "str-and-bytes-like-carriers-of-one-text-give-the-same-literal-or-both-reject"
    hy = pa.hyps + pb.hyps + link
    pid = f"A{ia}xB{ib}"
    if "unsupported" in (oa.kind, ob_.kind):
        chk.add(Ob(func, nm, pid, hy, z3.BoolVal(False), {"engine": str(oa.value if oa.kind == "unsupported" else ob_.value)}))
        return
    if oa.kind == "ret" and ob_.kind == "ret":
        chk.add(Ob(func, nm, pid, hy, to_val(oa.value) == to_val(ob_.value)))
    elif oa.kind == "raise" and ob_.kind == "raise":
        chk.add(Ob(func, nm, pid, hy, z3.BoolVal(True), {"trivial": True}))
    else:
        chk.add(Ob(func, nm, pid, hy, z3.BoolVal(False), {"note": "one carrier is accepted, the other rejected"}))
