"""C02 — JSON wire round trip and agreement of all entry points (the wiring part).

Functions under contract: codecs.codec, Codec.encode, Codec.decode, api.encode, api.decode,
marshals.api.marshal, unmarshals.api.unmarshal.  Encoders / decoders / routines are arbitrary
(uninterpreted): every entry point is proved to be the same composition
    encode = encoder . run(marshaller(T))        decode = run(unmarshaller(T)) . decoder
with bytes-like T carried verbatim whatever pair was supplied.
"""
from __future__ import annotations

import z3

from pyvc.core import (SV, SBool, Obj, Val, VNone, BoolS, Cls, to_val, PyRaise, Stub, run, run_raises, truthy, Closure)
from pyvc.driver import Ob, cover_hyps
from pyvc.ground import Q
from pyvc.env import _MISSING
from props import routine_world as rw
from props import uf_world as uw

marshaller_f = z3.Function("marshaller_of", Val, Val)
unmarshaller_f = z3.Function("unmarshaller_of", Val, Val)
isbytes_f = z3.Function("isbytestype", Val, BoolS)
unwrap_f = z3.Function("unwrap", Val, Val)                 # inspection.unwrap(t): t with every wrapper layer removed (C11)


def call2(f, x):
    return uw.uf("call", 2)(f, x)


def make_interp():
    I = uw.make_interp(raising=True)
    I.stubs["typelib.marshals.marshaller"] = Stub("marshals.marshaller", lambda I, p, a, k: SV(marshaller_f(to_val((a or [k.get("t")])[0]))), None)
    I.stubs["typelib.unmarshals.unmarshaller"] = Stub("unmarshals.unmarshaller", lambda I, p, a, k: SV(unmarshaller_f(to_val((a or [k.get("t")])[0]))), None)
    I.stubs["typelib.marshals.api.marshaller"] = I.stubs["typelib.marshals.marshaller"]
    I.stubs["typelib.unmarshals.api.unmarshaller"] = I.stubs["typelib.unmarshals.unmarshaller"]
    I.stubs["typelib.py.inspection.isbytestype"] = Stub("inspection.isbytestype", lambda I, p, a, k: SBool(isbytes_f(to_val(a[0]))),
                                                        "isbytestype(t) <=> t is bytes-like (C17)")
    I.stubs["typelib.py.inspection.unwrap"] = Stub("inspection.unwrap", lambda I, p, a, k: SV(unwrap_f(to_val(a[0]))),
                                                   "unwrap(t): the type with every NewType / alias / qualifier layer removed (proved in C11)")
    return I


def routine_axioms():
    return [Q([Val], lambda t: z3.And(Val.is_VObj(marshaller_f(t)), truthy(marshaller_f(t))), trigger=marshaller_f, name="marshaller-is-an-object"),
            Q([Val], lambda t: z3.And(Val.is_VObj(unmarshaller_f(t)), truthy(unmarshaller_f(t))), trigger=unmarshaller_f, name="unmarshaller-is-an-object")]


def _simple(chk, func, mk, check):
    I = make_interp()
    results = I.run_function(func, mk)
    for pi, (path, out, obls, writes, cur) in enumerate(results):
        check(chk, func, f"p{pi}", path, out, cur, I)
    chk.add(Ob(func, "cover", "pre", cover_hyps(results), z3.BoolVal(True), expect="sat"))
    chk.trusted.update(I.assumed_used)


def codec_methods(chk):
    for meth in ("encode", "decode"):
        func = f"typelib.codecs.Codec.{meth}"

        def mk(I, path):
            f = {k: SV(path.fresh(k)) for k in ("marshal", "unmarshal", "encoder", "decoder")}
            cv = I.mods.resolve("typelib.codecs", "Codec")
            slf = Obj(cv, dict(f))
            slf.sym_fields = None
            v = path.fresh("value")
            return [slf, SV(v)], {}, {"f": {k: x.t for k, x in f.items()}, "v": v}

        def check(chk, func, pid, path, out, cur, I, meth=meth):
            f, v = cur["f"], cur["v"]
            hy = path.hyps
            names = ["result-is-the-composition", "raises-exactly-when-the-routine-raises"]
            if meth == "encode":
                exp = call2(f["encoder"], call2(f["marshal"], v))
            else:
                exp = call2(f["unmarshal"], call2(f["decoder"], v))
            if out.kind == "ret":
                chk.add(Ob(func, names[0], pid, hy, to_val(out.value) == exp))
                chk.add(Ob(func, names[1], pid, hy, z3.BoolVal(True), {"trivial": True}))
            elif out.kind == "raise":
                chk.add(Ob(func, names[0], pid, hy, z3.BoolVal(True), {"trivial": True}))
                # only a callee (routine or coder) may raise; the method adds no failure of its own
                chk.add(Ob(func, names[1], pid, hy, z3.BoolVal(not isinstance(out.exc.exc_cls, type))))
            else:
                for nm in names:
                    chk.add(Ob(func, nm, pid, hy, z3.BoolVal(False), {"engine": str(out.value)}))
        _simple(chk, func, mk, check)


marshal_f = z3.Function("marshals_marshal", Val, Val, Val)        # marshal(value, t)
unmarshal_f = z3.Function("unmarshals_unmarshal", Val, Val, Val)  # unmarshal(t, value)


def api_functions(chk):
    for fn in ("encode", "decode"):
        func = f"typelib.api.{fn}"

        def mk(I, path, fn=fn):
            I.stubs["typelib.marshals.marshal"] = Stub("marshals.marshal", lambda I, p, a, k: SV(marshal_f(to_val(k.get("value", a[0] if a else None)), to_val(k.get("t")))), None)
            I.stubs["typelib.unmarshals.unmarshal"] = Stub("unmarshals.unmarshal", lambda I, p, a, k: SV(unmarshal_f(to_val(k.get("t", a[0] if a else None)), to_val(k.get("value", a[1] if len(a) > 1 else None)))), None)
            I.mods.cache.clear()
            t, v, coder = path.fresh("t"), path.fresh("value"), path.fresh("coder")
            if fn == "encode":
                return [SV(v)], {"t": SV(t), "encoder": SV(coder)}, {"t": t, "v": v, "c": coder}
            return [SV(t), SV(v)], {"decoder": SV(coder)}, {"t": t, "v": v, "c": coder}

        def check(chk, func, pid, path, out, cur, I, fn=fn):
            t, v, c = cur["t"], cur["v"], cur["c"]
            exp = call2(c, marshal_f(v, t)) if fn == "encode" else unmarshal_f(t, call2(c, v))
            if out.kind == "ret":
                goal = to_val(out.value) == exp
            elif out.kind == "raise":
                goal = z3.BoolVal(not isinstance(out.exc.exc_cls, type))      # only the coder may raise
            else:
                goal = z3.BoolVal(False)
            chk.add(Ob(func, "result-is-the-composition-with-the-configured-coder", pid, path.hyps, goal, {"outcome": out.kind}))
        _simple(chk, func, mk, check)
    # marshal / unmarshal themselves: routine = factory(t); routine(value)
    for mod, fn in (("typelib.marshals.api", "marshal"), ("typelib.unmarshals.api", "unmarshal")):
        func = f"{mod}.{fn}"

        def mk(I, path, fn=fn):
            for a in routine_axioms():
                path.assume(a)
            t, v = path.fresh("t"), path.fresh("value")
            if fn == "marshal":
                return [SV(v)], {"t": SV(t)}, {"t": t, "v": v}
            return [SV(t), SV(v)], {}, {"t": t, "v": v}

        def check(chk, func, pid, path, out, cur, I, fn=fn):
            from pyvc.core import cls_val, cls_of
            t, v = cur["t"], cur["v"]
            # marshal(value, t=None) uses the value's own class
            r = marshaller_f(z3.If(t == VNone, cls_val(cls_of(v)), t)) if fn == "marshal" else unmarshaller_f(t)
            names = ["applies-the-routine-built-for-t", "raises-exactly-when-that-routine-raises"]
            if out.kind == "ret":
                chk.add(Ob(func, names[0], pid, path.hyps, to_val(out.value) == call2(r, v)))
                chk.add(Ob(func, names[1], pid, path.hyps, z3.BoolVal(True), {"trivial": True}))
            elif out.kind == "raise":
                chk.add(Ob(func, names[0], pid, path.hyps, z3.BoolVal(True), {"trivial": True}))
                chk.add(Ob(func, names[1], pid, path.hyps, z3.BoolVal(not isinstance(out.exc.exc_cls, type))))
            else:
                for nm in names:
                    chk.add(Ob(func, nm, pid, path.hyps, z3.BoolVal(False), {"engine": str(out.value)}))
        _simple(chk, func, mk, check)


def codec_factory(chk):
    """codec(t, marshaller=?, unmarshaller=?, encoder=E, decoder=D, codec_cls=?)"""
    func = "typelib.codecs.codec"
    for supplied in (False, True):
        I = make_interp()
        st = {"cur": None}

        def inst(I, path, cv, args, kwargs, st=st):
            if cv.name == "Codec":
                st["cur"]["made"] = ("Codec", kwargs, args)
                return ("codec-instance", kwargs)
            return _MISSING
        I.hooks["instantiate"] = inst

        def call_opaque(I, path, f, args, kwargs, st=st):
            if f is st["cur"].get("cls_obj"):
                st["cur"]["made"] = ("custom", kwargs, args)
                return ("codec-instance", kwargs)
            return _MISSING
        prev = I.hooks.get("call_opaque")
        I.hooks["call_opaque"] = lambda I, p, f, a, k, prev=prev, co=call_opaque: (lambda r: r if r is not _MISSING else prev(I, p, f, a, k))(co(I, p, f, a, k))

        def mk(I, path, supplied=supplied, st=st):
            for a in routine_axioms():
                path.assume(a)
            t = path.fresh("t")
            enc, dec = SV(path.fresh("encoder")), SV(path.fresh("decoder"))
            cur = st["cur"] = {"t": t, "enc": enc, "dec": dec}
            kw = {"encoder": enc, "decoder": dec}
            if supplied:
                m, u, c = SV(path.fresh("marshaller")), SV(path.fresh("unmarshaller")), SV(path.fresh("codec_cls"))
                for x in (m, u, c):
                    path.assume(z3.And(Val.is_VObj(x.t), truthy(x.t)))
                kw.update(marshaller=m, unmarshaller=u, codec_cls=c)
                cur.update(m=m, u=u, cls_obj=c)
            return [SV(t)], kw, cur
        results = I.run_function(func, mk)
        for pi, (path, out, obls, writes, cur) in enumerate(results):
            _codec_one(chk, func, f"{'supplied' if supplied else 'default'}/p{pi}", path, out, cur, supplied, I)
        chk.trusted.update(I.assumed_used)


def _codec_one(chk, func, pid, path, out, cur, supplied, I):
    hy = path.hyps
    names = ["routines-are-the-supplied-ones-or-the-factories'", "coders-are-the-supplied-pair-unless-T-is-bytes-like",
             "bytes-like-T-is-carried-verbatim", "constructs-the-requested-codec-class"]
    made = cur.get("made")
    if out.kind != "ret" or made is None or not (isinstance(out.value, tuple) and out.value[0] == "codec-instance"):
        for nm in names:
            chk.add(Ob(func, nm, pid, hy, z3.BoolVal(False), {"outcome": out.kind}))
        return
    kind, kw, args = made
    t = cur["t"]
    chk.add(Ob(func, names[3], pid, hy, z3.BoolVal((kind == "custom") == supplied and not args)))
    want_m = cur["m"].t if supplied else marshaller_f(t)
    want_u = cur["u"].t if supplied else unmarshaller_f(t)
    ok_fields = all(k in kw for k in ("marshal", "unmarshal", "encoder", "decoder")) and len(kw) == 4
    if not ok_fields:
        for nm in names[:3]:
            chk.add(Ob(func, nm, pid, hy, z3.BoolVal(False), {"fields": sorted(kw)}))
        return
    chk.add(Ob(func, names[0], pid, hy, z3.And(to_val(kw["marshal"]) == want_m, to_val(kw["unmarshal"]) == want_u)))
    enc, dec = kw["encoder"], kw["decoder"]
    is_given = (enc is cur["enc"]) and (dec is cur["dec"])
    chk.add(Ob(func, names[1], pid, hy + [z3.Not(isbytes_f(unwrap_f(t)))], z3.BoolVal(bool(is_given))))
    # identity coders: call them on an arbitrary value
    ident = False
    if isinstance(enc, Closure) and isinstance(dec, Closure):
        x = SV(path.fresh("payload"))
        try:
            ident = (I.call_value(enc, [x], {}, path) is x) and (I.call_value(dec, [x], {}, path) is x)
        except Exception:
            ident = False
    chk.add(Ob(func, names[2], pid, hy + [isbytes_f(unwrap_f(t))], z3.BoolVal(bool(ident))))


def backend_fact(chk):
    """compat.json is orjson iff it is importable (module-level try/except import): a ground fact."""
    import importlib.util
    from typelib.py import compat
    have = importlib.util.find_spec("orjson") is not None
    chk.add(Ob("typelib.py.compat", "json-backend-is-orjson-iff-importable", "ground", [],
               z3.BoolVal((compat.json.__name__ == "orjson") == have), {"backend": compat.json.__name__}))


def obligations(chk):
    codec_methods(chk)
    api_functions(chk)
    codec_factory(chk)
    backend_fact(chk)
