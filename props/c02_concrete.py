"""C02 — executable twin: JSON round trip, JSON validity, agreement of the entry points, bytes verbatim."""
from __future__ import annotations

import json
import warnings

from props import typepool as tp
from props.concrete_util import clear_typelib_caches


def tag_enc(x):
    return b"TAG:" + json.dumps(x).encode()


def tag_dec(b):
    b = bytes(b)
    assert b.startswith(b"TAG:")
    return json.loads(b[4:])


def std_enc(x):
    return json.dumps(x).encode()


CONFIGS = [("default", None, None), ("stdlib-json", std_enc, json.loads), ("tagging", tag_enc, tag_dec)]


def skip(name, T):
    r = repr(T)
    return "bytes" in r or "dict[int" in r or name in ("int|str",)


def check(name, T, v, cfg):
    import typelib
    cname, enc, dec = cfg
    kw_c = {} if enc is None else {"encoder": enc, "decoder": dec}
    try:
        c = typelib.codec(T, **kw_c)
        wire = c.encode(v)
        m = typelib.marshal(v, t=T)
        if enc is None:
            if json.loads(wire) != m:
                return f"{name}: encoded bytes parse to {json.loads(wire)!r}, marshal gives {m!r}"
        back = c.decode(wire)
        if not tp.same(back, v):
            return f"{name} [{cname}]: codec round trip of {v!r} gave {back!r}"
        api_wire = typelib.encode(v, t=T, **({} if enc is None else {"encoder": enc}))
        comp_wire = (enc or typelib.compat.json.dumps)(m)
        if not (wire == api_wire == comp_wire):
            return f"{name} [{cname}]: entry points disagree on encode: codec {wire!r} api {api_wire!r} composition {comp_wire!r}"
        api_back = typelib.decode(T, wire, **({} if dec is None else {"decoder": dec}))
        comp_back = typelib.unmarshal(T, (dec or typelib.compat.json.loads)(wire))
        if not (tp.same(api_back, back) and tp.same(comp_back, back)):
            return f"{name} [{cname}]: entry points disagree on decode of {wire!r}: codec {back!r} api {api_back!r} composition {comp_back!r}"
    except Exception as e:
        return f"{name} [{cname}]: value {v!r}: raised {e!r}"
    return None


def search(stop_at=1):
    import typelib
    warnings.simplefilter("ignore")
    clear_typelib_caches()
    fails, n = [], 0
    for name, T, values in tp.pool():
        if skip(name, T):
            continue
        for v in values:
            if "100000000000000000000" in repr(v):
                continue          # ints beyond the default encoder's 64-bit range are outside the property's domain
            for cfg in CONFIGS:
                n += 1
                r = check(name, T, v, cfg)
                if r:
                    fails.append({"type": name, "value": repr(v), "config": cfg[0], "failure": r})
                    if stop_at and len(fails) >= stop_at:
                        return fails, n, n
    for BT, payload in ((bytes, b"\x00raw"), (bytearray, bytearray(b"ab")), (memoryview, memoryview(b"xy"))):
        for cfg in CONFIGS:
            n += 1
            cname, enc, dec = cfg
            try:
                c = typelib.codec(BT, **({} if enc is None else {"encoder": enc, "decoder": dec}))
                out = c.encode(payload)
                if bytes(out) != bytes(payload) or bytes(c.decode(out)) != bytes(payload):
                    fails.append({"type": BT.__name__, "value": repr(payload), "config": cname,
                                  "failure": f"bytes-like {BT.__name__} not carried verbatim under {cname}: {out!r}"})
            except Exception as e:
                fails.append({"type": BT.__name__, "value": repr(payload), "config": cname,
                              "failure": f"bytes-like {BT.__name__} under {cname}: raised {e!r}"})
            if stop_at and len(fails) >= stop_at:
                return fails, n, n
    return fails, n, n


def run_recorded(case):
    f, _, _ = search(stop_at=None)
    for c in f:
        if (c["type"], c["value"], c["config"]) == (case["type"], case["value"], case["config"]):
            return c["failure"]
    return None
