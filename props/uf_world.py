"""An 'uninterpreted-function' world for value-level reasoning about the leaf routines and serdes.

Every call into the standard library or a dependency is an application of an uninterpreted
function of its arguments (so equal arguments give equal results - congruence), with a companion
Boolean function deciding whether the call raises.  Class facts (constructor results are instances
of the class called, ...) are attached as assumptions on the applications.  Properties refine
individual functions by adding axioms (assumed dependency contracts, listed in the trusted base).
"""
from __future__ import annotations

import builtins as B
import datetime
import re

import z3

from pyvc.core import (SV, SInt, SBool, SSeq, SDict, Obj, Val, VNone, VStr, VObj, BoolS, IntS, Cls, to_val, to_int,
                       PyRaise, Unsupported, Stub, cls_of, sub, cls_const, seq_len, seq_at, str_id)
from pyvc.ground import Q
from pyvc.env import _MISSING
from pyvc.expr import SCls, BoundMethod
from props import routine_world as rw

from pyvc.core import cls_val
PRED = {n: z3.Function("P_" + n, Cls, BoolS) for n in ("ismappingtype", "isiterabletype", "istexttype", "iscollectiontype",
                                                       "issequencetype", "isnamedtuple")}
_FUNCS: dict = {}


def uf(name, n_args, out=Val):
    key = (name, n_args, str(out))
    if key not in _FUNCS:
        _FUNCS[key] = z3.Function(f"{name}/{n_args}", *([Val] * n_args), out)
    return _FUNCS[key]


def lower(x):
    """Lower any host value used as an argument to a Val term."""
    if isinstance(x, SCls):
        return cls_val(x.t)
    if isinstance(x, BoundMethod):
        return x.as_val()
    if isinstance(x, type):
        return cls_val(cls_const(x))
    if isinstance(x, (float,)):
        return VObj(z3.IntVal(2_000_000 + abs(hash(x)) % 1_000_000))
    if isinstance(x, (bytes,)):
        return VObj(z3.IntVal(3_000_000 + abs(hash(x)) % 1_000_000))
    if isinstance(x, datetime.tzinfo):
        return VObj(z3.IntVal(4_000_000))
    if isinstance(x, tuple) and not x:
        return VObj(z3.IntVal(4_000_001))
    if x.__class__.__name__ == "_StarArgs":
        src = getattr(x.seq, "src_val", None)
        if src is None:
            raise Unsupported("*args of a sequence with no source value")
        return uf("star_args", 1)(src)
    try:
        return to_val(x)
    except Unsupported:
        if isinstance(x, (SV, SInt, SBool, SSeq, SDict, Obj)) or getattr(x, "host_symbolic", False):
            raise
        # any other concrete Python object: identified by its type and repr (equal objects -> equal terms)
        key = (type(x).__name__, repr(x))
        if key not in _CONCRETE_IDS:
            _CONCRETE_IDS[key] = len(_CONCRETE_IDS)
        return VObj(z3.IntVal(6_000_000 + _CONCRETE_IDS[key]))


_CONCRETE_IDS: dict = {}


def call_uf(I, path, name, args, kwargs, may_raise=True, result_cls=None):
    ks = sorted(kwargs)
    full = name + ("" if not ks else "[" + ",".join(ks) + "]")
    terms = [lower(a) for a in args] + [lower(kwargs[k]) for k in ks]
    if may_raise:
        rz = uf(full + "!raises", len(terms), BoolS)(*terms) if terms else z3.Bool(full + "!raises")
        if path.branch(rz):
            exc = uf(full + "!exc", len(terms), Cls)(*terms) if terms else z3.Const(full + "!exc", Cls)
            raise PyRaise(exc, note=f"{full} raised")
    r = uf(full, len(terms))(*terms) if terms else z3.Const(full, Val)
    if result_cls is not None:
        path.assume(cls_of(r) == result_cls)
    return SV(r)


def make_interp(raising=True):
    I = rw.install_serdes(rw.make_interp())
    I.uf_raising = raising
    for nm in PRED:
        def stub(I, path, a, k, nm=nm):
            return SBool(PRED[nm](I.cls_term(a[0])))
        I.stubs[f"typelib.py.inspection.{nm}"] = Stub(f"inspection.{nm}", stub, f"{nm}(cls) (C17 contract)")
    for nm in ("dateparse", "isoformat", "unixtime"):
        def st(I, path, a, k, nm=nm):
            return call_uf(I, path, "serdes." + nm, a, k, may_raise=I.uf_raising)
        I.stubs[f"typelib.serdes.{nm}"] = Stub(f"serdes.{nm}", st, f"serdes.{nm}: a function of its arguments (C04/C12 refine it)")

    orig_call_value = I.call_value

    def call_value(f, args, kwargs, path, node=None, env=None):
        if isinstance(f, SCls):
            return call_uf(I, path, "construct", [f] + list(args), kwargs, may_raise=I.uf_raising, result_cls=f.t)
        if isinstance(f, ClassMethodOf):
            return call_uf(I, path, "construct." + f.name, [SCls(f.cls_t)] + list(args), kwargs, may_raise=I.uf_raising,
                           result_cls=f.cls_t)
        return orig_call_value(f, args, kwargs, path, node=node, env=env)
    I.call_value = call_value

    def method(I, path, recv, name, args, kw):
        if isinstance(recv, rw.Ctx):
            return _MISSING
        if isinstance(recv, SV):
            keep_cls = {"replace": cls_of(recv.t), "time": cls_const(datetime.time), "date": cls_const(datetime.date),
                        "today": cls_of(recv.t)}.get(name)
            return call_uf(I, path, "method." + name, [recv] + list(args), kw, may_raise=False, result_cls=keep_cls)
        return _MISSING
    prev_method = I.hooks.get("method")

    def method2(I, path, recv, name, args, kw):
        if prev_method is not None:
            r = prev_method(I, path, recv, name, args, kw)
            if r is not _MISSING:
                return r
        return method(I, path, recv, name, args, kw)
    I.hooks["method"] = method2
    for nm in ("now", "fromtimestamp"):
        I.scls_attr[nm] = (lambda nm: lambda I, path, c: ClassMethodOf(c.t, nm))(nm)
    I.scls_attr["__qualname__"] = lambda I, path, c: SV(uf("qualname", 1)(cls_val(c.t)))

    def known(fn, name, result_cls=None, may_raise=True):
        I.builtin_models[fn] = lambda I, path, a, k: call_uf(I, path, name, a, k, may_raise=may_raise and I.uf_raising,
                                                             result_cls=result_cls)
    known(datetime.datetime.fromtimestamp, "datetime.fromtimestamp", cls_const(datetime.datetime))
    known(datetime.datetime.now, "datetime.now", cls_const(datetime.datetime), may_raise=False)
    known(re.compile, "re.compile", cls_const(re.Pattern))

    def conv(fn, name, c):
        def m(I, path, a, k):
            if a and isinstance(a[0], (SV, BoundMethod)):
                return call_uf(I, path, name, a, k, may_raise=I.uf_raising, result_cls=cls_const(c))
            return _MISSING
        I.builtin_models[fn] = m
    conv(B.str, "str", str)
    conv(B.int, "int", int)
    conv(B.float, "float", float)
    conv(B.bytes, "bytes", bytes)

    I.builtin_models[datetime.timedelta.__floordiv__] = lambda I, path, a, k: call_uf(I, path, "timedelta.__floordiv__", a, k, may_raise=False)

    def iter_hook(I, path, v):
        if isinstance(v, SV):
            s_ = SSeq(seq_len(v.t), lambda i, t=v.t: SV(seq_at(t, to_int(i))), "gen")
            s_.src_val = v.t
            return s_
        return _MISSING
    I.hooks["iter"] = iter_hook
    I.hooks["format_value"] = lambda I, path, v, spec, conv_: [("opaque", lower(v) if not isinstance(v, str) else VStr(z3.IntVal(str_id(v))))]

    def call_opaque(I, path, f, args, kwargs):
        if getattr(f, "is_routine", False) or I.merging:
            return _MISSING          # member routines: the engine's run / run_raises model
        if getattr(f, "is_ctor", False):
            return _MISSING
        return call_uf(I, path, "call", [f] + list(args), kwargs, may_raise=I.uf_raising)
    prev_co = I.hooks.get("call_opaque")

    def call_opaque2(I, path, f, args, kwargs):
        if prev_co is not None:
            r = prev_co(I, path, f, args, kwargs)
            if r is not _MISSING:
                return r
        return call_opaque(I, path, f, args, kwargs)
    I.hooks["call_opaque"] = call_opaque2
    return I


class ClassMethodOf:
    host_symbolic = True

    def __init__(self, cls_t, name):
        self.cls_t, self.name = cls_t, name


def consts_of(term):
    """Names of the uninterpreted constants occurring in a term."""
    out, seen, stack = set(), set(), [term]
    while stack:
        t = stack.pop()
        if t.get_id() in seen:
            continue
        seen.add(t.get_id())
        if z3.is_app(t):
            if t.num_args() == 0 and t.decl().kind() == z3.Z3_OP_UNINTERPRETED:
                out.add(t.decl().name())
            stack.extend(t.children())
        elif z3.is_quantifier(t):
            stack.append(t.body())
    return out
