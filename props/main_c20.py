"""C20 check driver."""
from pyvc.driver import Check
from props import c20, c20_concrete

ASSUMPTIONS = [
    "Recursion by contract: self.visit on a sub-tree of the input is an uninterpreted V(x) carrying the induction hypotheses (clean, "
    "identity on plain trees, fixpoint); the induction over the tree is a paper argument. self.visit on a node the code has just built "
    "dispatches to the real visit_* method (ast.NodeVisitor.visit dispatches on the class name: stdlib).",
    "ast.NodeTransformer.generic_visit (stdlib, trusted): returns the same node with every child replaced by its visit; it is what every "
    "node kind without a visit_* method gets (Attribute, Call, List, Constant, ...): constants - hence string forward references and "
    "Literal strings - are never rewritten.",
    "ast.parse / ast.unparse are inverse up to layout on trees they produce; ast.copy_location / fix_missing_locations only touch line / "
    "column attributes, which are not part of the tree's meaning; ast.Index(value=x) is x (Python >= 3.9).",
    "Structural equality of syntax trees is equality of class and fields (ast.dump); `the same structure when evaluated` is replayed by the "
    "twin only (bounded): it needs typing's evaluation of both sides.",
    "The union name handed to the transformer is not itself one of the builtin generic names.",
]


def searcher(ob):
    fails, n = c20_concrete.search("quick", 0, stop_at=1)
    if fails:
        return {"found": True, "kind": "c20-source", "case": fails[0], "searched": n}
    return {"found": False, "searched": n, "note": "no expression of the grammar (depth <= 4) is rewritten differently from the statement's prescription (bounded)"}


def replay(data):
    case = data.get("case")
    if not case:
        print("replay: no concrete input recorded for", data.get("obligation"), str(data.get("solver"))[:300])
        return 1
    r = c20_concrete.run_recorded(case)
    print("replay", case["source"], "->", r)
    return 1 if r else 0


def main(tier, seed):
    chk = Check("C20", tier, seed)
    chk.assumptions = list(ASSUMPTIONS)
    c20.obligations(chk)
    fails, n = c20_concrete.search(tier, seed, stop_at=3)
    chk.bounded.append({"name": "bounded replay on the real code: annotation expressions of a grammar (names, dotted names, builtin generic names, subscripts, tuples, "
                                "ellipsis, |-chains of every associativity / parenthesisation, Literal strings with '|' and '[', Callable[[...], ...], Annotated, string "
                                "references) to depth 4, plus arithmetic / calls / comparisons / lambdas / comprehensions",
                        "evaluations": n, "failures": len(fails),
                        "rule": "output parses, contains no BinOp-BitOr, equals an independently written recursive specification of the rewriting, is a fixpoint, is "
                                "the same tree when the input has none of the constructs, and evaluates (typing namespace) to the same origin / argument structure"})
    for i, f in enumerate(fails):
        chk.violation(f"bounded-replay#{i}", {"found": True, "kind": "c20-source", "case": f}, True)
    chk.resolve_failures(searcher)
    return chk.finish()
