#!/bin/sh
# usage: benign.sh DIR...  -- for every patchN.diff in each DIR (a behaviour-preserving refactoring): apply it to /repo, run the pinned
# suite, its demo, and EVERY check (quick tier); report any check that does not exit 0.  /repo is restored after each patch.
for DIR in "$@"; do
  for P in "$DIR"/patch*.diff; do
    N=$(basename "$P" .diff | sed 's/patch//')
    echo "=== $DIR patch$N"
    cd /repo || exit 2
    [ -z "$(git status --porcelain)" ] || { echo "refusing: /repo dirty"; exit 2; }
    git apply --check "$P" 2>/dev/null || { echo "  patch does not apply"; continue; }
    git apply "$P"
    /venv/bin/python "$DIR/demo$N.py" >/dev/null 2>&1; echo "  demo(patched) rc=$?"
    /verif/scripts/baseline.sh | head -1 | sed 's/^/  /'
    git checkout -- .
    /verif/scripts/whocatches.sh "$P" 2>&1 | grep -v "rc=0 0" | sort | cut -c1-400 | sed 's/^/  ALARM /'
  done
done
