#!/bin/sh
# Run every claimed check (quick tier) on the current tree; used before committing evidence.
cd /verif
[ -z "$(git -C /repo status --porcelain)" ] || { echo "/repo is dirty"; exit 2; }
for p in $(python3 -c "import json; print(' '.join(c['property_id'] for c in json.load(open('MANIFEST.json'))['checks']))"); do
  ./check $p --tier ${1:-quick} | tail -1
done
.venv/bin/python - <<'PY'
import json, jsonschema, glob
sch = json.load(open('/root/.vp/EVIDENCE.schema.json'))
m = json.load(open('/verif/MANIFEST.json'))
jsonschema.validate(m, json.load(open('/root/.vp/MANIFEST.schema.json')))
for c in m['checks']:
    ev = json.load(open('/verif/' + c['evidence_file']))
    jsonschema.validate(ev, sch)
    cov = ev['coverage']
    assert cov['obligations'] == cov['discharged'], (c['property_id'], cov['obligations'], cov['discharged'])
print('manifest + evidence valid; discharged == obligations everywhere')
PY
