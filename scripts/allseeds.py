"""Maintenance: re-run every kept seeded change against the checks (its own property's first, then every other claimed
check until one reports a violation).  Never run with uncommitted /repo edits.  usage: allseeds.py [SEED ...]"""
import json, glob, os, subprocess, sys, shutil
assert not subprocess.run(["git", "-C", "/repo", "status", "--porcelain"], capture_output=True, text=True).stdout.strip(), "dirty /repo"
seeds = sys.argv[1:] or sorted(os.path.basename(d) for d in glob.glob("/verif/seeded/C*"))
claimed = [c["property_id"] for c in json.load(open("/verif/MANIFEST.json"))["checks"]]
out = {}
for s in seeds:
    d = f"/verif/seeded/{s}"
    prop = json.load(open(d + "/meta.json"))["property"]
    ap = subprocess.run(["git", "-C", "/repo", "apply", "--check", d + "/patch.diff"], capture_output=True, text=True)
    if ap.returncode != 0:
        out[s] = {"applies": False}
        print(s, "DOES NOT APPLY", flush=True)
        continue
    subprocess.run(["git", "-C", "/repo", "apply", d + "/patch.diff"], check=True)
    caught = []
    try:
        demo = subprocess.run(["/venv/bin/python", d + "/demo.py"], capture_output=True, text=True, timeout=300).returncode
        order = [prop] + [p for p in claimed if p != prop]
        for p in order:
            ev = f"/verif/evidence/{p}.json"
            bak = ev + ".bak"
            if os.path.exists(ev):
                shutil.copy(ev, bak)
            try:
                r = subprocess.run(["/verif/check", p], capture_output=True, text=True, cwd="/verif", timeout=1200)
            finally:
                if os.path.exists(bak):
                    shutil.move(bak, ev)
            if r.returncode == 1 and "VIOLATION" in r.stdout:
                caught.append(p)
                if p == prop or len(caught) >= 1 and p != prop:
                    break
            if p == prop and "--all" not in os.environ.get("ALLSEEDS", ""):
                continue
    finally:
        subprocess.run(["git", "-C", "/repo", "checkout", "--", "."], check=True)
    out[s] = {"applies": True, "demo_rc_patched": demo, "caught_by": caught}
    print(s, "demo", demo, "caught_by", caught, "" if demo == 1 else "   <-- the demo no longer fails on the patched tree: does the seed still violate its property?", flush=True)
json.dump(out, open("/verif/seeded/last_run.json", "w"), indent=1)
