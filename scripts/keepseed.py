"""Store a confirmed seeded change under /verif/seeded/<name>/.  usage: keepseed.py NAME PROP SRC_DIR IDX "needs" "ran" "caught_by" """
import json, os, shutil, sys
name, prop, src, idx, needs, ran, caught = sys.argv[1:8]
d = f"/verif/seeded/{name}"
os.makedirs(d, exist_ok=True)
shutil.copy(f"{src}/patch{idx}.diff", f"{d}/patch.diff")
shutil.copy(f"{src}/demo{idx}.py", f"{d}/demo.py")
if os.path.exists(f"{src}/notes{idx}.md"):
    shutil.copy(f"{src}/notes{idx}.md", f"{d}/notes.md")
json.dump({"property": prop, "needs_to_manifest": needs, "what_i_ran": ran, "caught_by": caught,
           "origin": "independent sub-agent given only the property text and a scratch worktree"},
          open(f"{d}/meta.json", "w"), indent=1)
print("kept", d)
