"""Stage a sub-agent round for confirmation: for every <ROOT>/<PROP>/OUT/patchN.diff, check the demo on the clean tree (must exit 0),
run the pinned suite and the demo with the patch applied in the agent's own scratch worktree (<ROOT>/<PROP>, restored afterwards),
and copy the change to /verif/seeded/<PROP>-<next index> with a provisional meta.json.  Prints the staged names; run
scripts/allseeds_par.py on them next.  /repo is only read.  usage: stage_round.py ROOT"""
import concurrent.futures as cf
import glob
import json
import os
import re
import shutil
import subprocess
import sys

root = sys.argv[1]
base = json.load(open("/root/.vp/BASELINE.json"))
jobs = []
for d in sorted(glob.glob(root + "/C??")):
    prop = os.path.basename(d)
    used = [int(re.sub(r".*-", "", os.path.basename(x))) for x in glob.glob(f"/verif/seeded/{prop}-*")]
    used += [int(re.sub(r".*-", "", os.path.basename(x))) for x in glob.glob(f"/verif/seeded/_incoming/{prop}-*")]
    nxt = max(used + [0]) + 1
    for p in sorted(glob.glob(d + "/OUT/patch*.diff")):
        n = os.path.basename(p)[5:-5]
        if not n.isdigit():
            continue
        jobs.append((prop, d, n, f"{prop}-{nxt}"))
        nxt += 1


def one_prop(items):
    out = []
    for prop, d, n, name in items:
        env = dict(os.environ, PYTHONPATH=d + "/src", PYTHONDONTWRITEBYTECODE="1")
        demo = f"{d}/OUT/demo{n}.py"
        subprocess.run(["git", "checkout", "--", "."], cwd=d)
        clean = subprocess.run(["/venv/bin/python", demo], capture_output=True, text=True, env=env).returncode
        ap = subprocess.run(["git", "apply", f"OUT/patch{n}.diff"], cwd=d, capture_output=True, text=True)
        if ap.returncode != 0:
            out.append((name, f"patch does not apply: {ap.stderr[-200:]}"))
            continue
        patched = subprocess.run(["/venv/bin/python", demo], capture_output=True, text=True, env=env)
        xml = f"/tmp/stage_{name}.xml"
        subprocess.run(["/venv/bin/python", "-m", "pytest", "-q", "-p", "no:cacheprovider", "--timeout=900", f"--junitxml={xml}"],
                       cwd=d, capture_output=True, text=True, env=env)
        import xml.etree.ElementTree as ET
        got = set()
        try:
            for tc in ET.parse(xml).getroot().iter("testcase"):
                if not any(ch.tag in ("failure", "error", "skipped") for ch in tc):
                    got.add(f"{tc.get('classname')}::{tc.get('name')}")
        except Exception:
            pass
        os.path.exists(xml) and os.remove(xml)
        missing = sorted(set(base["stable_pass"]) - got)
        subprocess.run(["git", "checkout", "--", "."], cwd=d)
        ok = clean == 0 and patched.returncode == 1 and not missing
        verdict = f"demo clean rc={clean} patched rc={patched.returncode} suite missing={len(missing)}"
        if ok:
            sd = f"/verif/seeded/{name}"
            os.makedirs(sd, exist_ok=True)
            shutil.copy(f"{d}/OUT/patch{n}.diff", sd + "/patch.diff")
            shutil.copy(demo, sd + "/demo.py")
            if os.path.exists(f"{d}/OUT/notes{n}.md"):
                shutil.copy(f"{d}/OUT/notes{n}.md", sd + "/notes.md")
            json.dump({"property": prop, "needs_to_manifest": "(see notes.md)", "what_i_ran": verdict + " (pinned suite 1433/1433 with the patch)",
                       "caught_by": "(pending)", "origin": "independent sub-agent given only the property text and a scratch worktree"},
                      open(sd + "/meta.json", "w"), indent=1)
        out.append((name, ("STAGED " if ok else "REJECTED ") + verdict + ("" if ok else " | " + patched.stdout[-200:].replace("\n", " "))))
    return out


by_prop = {}
for j in jobs:
    by_prop.setdefault(j[0], []).append(j)
with cf.ThreadPoolExecutor(max_workers=8) as ex:
    for res in ex.map(one_prop, by_prop.values()):
        for name, v in res:
            print(name, v, flush=True)
