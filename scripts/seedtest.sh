#!/bin/sh
# usage: seedtest.sh PROP PATCH [DEMO]   -- apply a seeded change to /repo, run the check, undo.
PROP=$1; PATCH=$2; DEMO=$3
cd /repo || exit 2
[ -z "$(git status --porcelain)" ] || { echo "refusing: /repo has uncommitted changes"; exit 2; }
git apply --check "$PATCH" || { echo "patch does not apply"; exit 2; }
if [ -n "$DEMO" ]; then /venv/bin/python "$DEMO" >/dev/null 2>&1; echo "demo(clean) rc=$?"; fi
git apply "$PATCH"
if [ -n "$DEMO" ]; then /venv/bin/python "$DEMO" >/dev/null 2>&1; echo "demo(patched) rc=$?"; fi
cp /verif/evidence/$PROP.json /tmp/evidence_$PROP.bak 2>/dev/null
cd /verif && ./check "$PROP" 2>&1 | grep -v "^WARNING" | tail -${TAILN:-6} | cut -c1-230
echo "check rc=$?"
git -C /repo checkout -- . && git -C /repo status --short
[ -f /tmp/evidence_$PROP.bak ] && mv /tmp/evidence_$PROP.bak /verif/evidence/$PROP.json
