"""Differential self-test of the symbolic interpreter against CPython: every function of selftest/st_funcs.py is executed
symbolically on integer arguments; for random concrete argument vectors exactly one path condition must hold and that path's
outcome (returned value or raised exception class) must equal what CPython does.  usage: engine_selftest.py [seed] [n]"""
import os, sys, random, inspect, importlib
os.environ["TYPELIB_SRC"] = "/verif/selftest"
sys.path.insert(0, "/verif"); sys.path.insert(0, "/verif/selftest")
import z3
from pyvc.core import SInt, SBool, SV, to_val, IntS, Val
from pyvc.interp import Interp
from pyvc.builtins_model import install
from pyvc.ground import Q
import st_funcs

seed = int(sys.argv[1]) if len(sys.argv) > 1 else 0
N = int(sys.argv[2]) if len(sys.argv) > 2 else 120
rnd = random.Random(seed)
bad, skipped, checked, funcs = [], [], 0, 0
for name, fn in sorted(inspect.getmembers(st_funcs, inspect.isfunction)):
    params = list(inspect.signature(fn).parameters)
    I = install(Interp())
    syms = [z3.Int(f"arg_{p}") for p in params]

    def mk(I, path, syms=syms):
        return [SInt(s) for s in syms], {}, {}
    try:
        results = I.run_function(f"st_funcs.{name}", mk, max_paths=400)
    except Exception as e:
        bad.append(f"{name}: engine crashed: {type(e).__name__}: {e}")
        continue
    funcs += 1
    if any(out.kind == "unsupported" for _p, out, *_ in results):
        skipped.append(f"{name}: " + str([out.value for _p, out, *_ in results if out.kind == 'unsupported'][0])[:120])
        continue
    for _ in range(N):
        vals = [rnd.choice([-7, -3, -2, -1, 0, 1, 2, 3, 4, 5, 6, 11, 101, rnd.randint(-50, 50)]) for _p in params]
        try:
            want = ("ret", fn(*vals))
        except Exception as e:
            want = ("raise", type(e))
        sub = [(s, z3.IntVal(v)) for s, v in zip(syms, vals)]
        hits = []
        for path, out, *_rest in results:
            hy = [h for h in path.hyps if not isinstance(h, Q) and z3.is_expr(h)]
            s = z3.Solver()
            for h in hy:
                s.add(z3.substitute(h, *sub))
            if s.check() == z3.sat:
                hits.append((out, s.model()))
        checked += 1
        if len(hits) != 1:
            bad.append(f"{name}{tuple(vals)}: {len(hits)} feasible paths (expected exactly 1)")
            continue
        out, model = hits[0]
        if out.kind == "raise":
            got = ("raise", out.exc.exc_cls)
        else:
            v = out.value
            if isinstance(v, (SInt, SBool, SV)):
                term = z3.substitute(v.t, *sub)
                ev = z3.simplify(model.eval(term, model_completion=True))
                if z3.is_int_value(ev):
                    v = ev.as_long()
                elif z3.is_true(ev) or z3.is_false(ev):
                    v = z3.is_true(ev)
                else:
                    s_ = str(ev)
                    v = None if s_ == "VNone" else (int(s_[5:-1]) if s_.startswith("VInt(") else (s_ == "VBool(True)" if s_.startswith("VBool(") else s_))
            got = ("ret", v)
        if got != want and not (got[0] == want[0] == "ret" and got[1] == want[1]):
            bad.append(f"{name}{tuple(vals)}: engine {got!r} vs CPython {want!r}")
print(f"engine self-test: {funcs} functions ({len(skipped)} outside the modelled fragment: reported as unsupported, never mis-executed), {checked} input vectors, {len(bad)} disagreements")
for b in skipped:
    print("   unsupported:", b)
for b in bad[:20]:
    print("  ", b)
sys.exit(1 if bad else 0)
