#!/bin/sh
# usage: r3proc.sh PROP DIR [OTHERPROPS...]  -- for each patchN.diff in DIR: demo clean/patched, pinned suite, ./check PROP (and others), undo.
PROP=$1; DIR=$2; shift 2; OTHERS="$@"
cd /repo || exit 2
[ -z "$(git status --porcelain)" ] || { echo "refusing: /repo dirty"; exit 2; }
for P in "$DIR"/patch*.diff; do
  N=$(basename "$P" .diff | sed 's/patch//')
  echo "=== $PROP patch$N"
  git apply --check "$P" || { echo "  patch does not apply"; continue; }
  /venv/bin/python "$DIR/demo$N.py" >/dev/null 2>&1; echo "  demo(clean) rc=$?"
  git apply "$P"
  /venv/bin/python "$DIR/demo$N.py" >/tmp/demo_out.txt 2>&1; echo "  demo(patched) rc=$?"; tail -2 /tmp/demo_out.txt | cut -c1-200 | sed 's/^/     /'
  /verif/scripts/baseline.sh | head -3 | sed 's/^/  /'
  for Q in $PROP $OTHERS; do
    cp /verif/evidence/$Q.json /tmp/evidence_$Q.bak 2>/dev/null
    (cd /verif && ./check "$Q" 2>&1 | grep -v "^WARNING" | grep -E "VIOLATION|ok  obligations|checker|CHECKER" | cut -c1-260 | head -6 | sed 's/^/  /')
    [ -f /tmp/evidence_$Q.bak ] && mv /tmp/evidence_$Q.bak /verif/evidence/$Q.json
  done
  git -C /repo checkout -- . ; git -C /repo status --short
done
