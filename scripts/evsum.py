import json,sys
from collections import Counter
ev=json.load(open(f'/verif/evidence/{sys.argv[1]}.json'))
c=ev['coverage']
print(c['obligations'],c['discharged'],c['solver_time_s'],ev['wall_s'])
print(Counter(o['result'] for o in c['per_obligation']))
slow=sorted(c['per_obligation'],key=lambda o:-o['ms'])[:int(sys.argv[2]) if len(sys.argv)>2 else 10]
for o in slow: print(round(o['ms']),o['result'],o['id'],o['backend'][:40])
for k,v in c['clauses'].items():
    if v!='discharged': print("FAILED",k)
