"""Maintenance: re-run every kept seeded change against the checks, in parallel and without touching /repo.

Each worker owns a scratch copy of /verif (no .git / replays) and, per seed, a scratch copy of /repo/src with the patch applied;
the checks read that copy (TYPELIB_SRC for the symbolic side, PYTHONPATH for the twins).  The own property's check runs first,
then every other claimed check until one reports a violation.  Results: /verif/seeded/last_run.json.
usage: allseeds_par.py [-j N] [SEED ...]"""
import concurrent.futures as cf
import glob
import json
import os
import shutil
import subprocess
import sys

args = sys.argv[1:]
J = 8
if args[:1] == ["-j"]:
    J = int(args[1])
    args = args[2:]
seeds = args or sorted(os.path.basename(d) for d in glob.glob("/verif/seeded/C*"))
claimed = [c["property_id"] for c in json.load(open("/verif/MANIFEST.json"))["checks"]]
assert not subprocess.run(["git", "-C", "/repo", "status", "--porcelain"], capture_output=True, text=True).stdout.strip(), "dirty /repo"
SCR = "/tmp/allseeds_scratch"
shutil.rmtree(SCR, ignore_errors=True)
os.makedirs(SCR)


def worker_dir(k):
    d = f"{SCR}/verif{k}"
    if not os.path.exists(d):
        shutil.copytree("/verif", d, ignore=shutil.ignore_patterns(".git", "replays", "benign", "__pycache__"), symlinks=True)
    return d


def run_seed(job):
    k, s = job
    d = f"/verif/seeded/{s}"
    prop = json.load(open(d + "/meta.json"))["property"]
    src = f"{SCR}/src_{s}"
    shutil.rmtree(src, ignore_errors=True)
    os.makedirs(src)
    shutil.copytree("/repo/src", src + "/src", ignore=shutil.ignore_patterns("__pycache__"))
    ap = subprocess.run(["git", "apply", d + "/patch.diff"], cwd=src, capture_output=True, text=True)
    if ap.returncode != 0:
        shutil.rmtree(src, ignore_errors=True)
        return s, {"applies": False, "why": ap.stderr[-300:]}
    env = dict(os.environ, TYPELIB_SRC=src + "/src", PYTHONPATH=src + "/src", PYVC_JOBS="3", PYTHONDONTWRITEBYTECODE="1")
    try:
        demo = subprocess.run(["/venv/bin/python", d + "/demo.py"], capture_output=True, text=True, timeout=600, env=env).returncode
    except subprocess.TimeoutExpired:
        demo = "timeout"
    vd = worker_dir(k)
    caught, own = [], None
    for p in [prop] + [q for q in claimed if q != prop]:
        try:
            r = subprocess.run([vd + "/check", p], capture_output=True, text=True, cwd=vd, timeout=1800, env=env)
            hit = r.returncode == 1 and f"VIOLATION property={p}" in r.stdout
            rc = r.returncode
        except subprocess.TimeoutExpired:
            hit, rc = False, "timeout"
        if p == prop:
            own = {"rc": rc, "violation": hit}
        if hit:
            caught.append(p)
            break
    shutil.rmtree(src, ignore_errors=True)
    return s, {"applies": True, "property": prop, "demo_rc_patched": demo, "own_check": own, "caught_by": caught}


out = {}
with cf.ThreadPoolExecutor(max_workers=J) as ex:
    # a worker directory per slot: jobs are dealt round-robin and each slot runs its jobs in order
    slots = [[] for _ in range(J)]
    for i, s in enumerate(seeds):
        slots[i % J].append(s)

    def run_slot(k):
        res = []
        for s in slots[k]:
            r = run_seed((k, s))
            print(r[0], json.dumps(r[1])[:200], flush=True)
            res.append(r)
        return res
    for res in ex.map(run_slot, range(J)):
        out.update(dict(res))
shutil.rmtree(SCR, ignore_errors=True)
prev = {}
if args and os.path.exists("/verif/seeded/last_run.json"):
    prev = json.load(open("/verif/seeded/last_run.json"))
prev.update(out)
json.dump(prev, open("/verif/seeded/last_run.json", "w"), indent=1, sort_keys=True)
bad = [s for s, v in out.items() if not v.get("applies") or not v.get("caught_by") or v.get("demo_rc_patched") == 0]
print(f"{len(out)} seeds: {sum(1 for v in out.values() if v.get('caught_by'))} caught, "
      f"{sum(1 for v in out.values() if v.get('own_check', {}) and v['own_check'].get('violation'))} by their own property's check; attention: {bad}")
