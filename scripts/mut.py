"""Maintenance: apply a textual mutation to /repo, run a check, restore.  usage: mut.py PROP FILE OLD NEW"""
import subprocess, sys
prop, path, old, new = sys.argv[1:5]
dirty = subprocess.run(["git", "-C", "/repo", "status", "--porcelain"], capture_output=True, text=True).stdout.strip()
assert not dirty, "refusing to mutate: /repo has uncommitted changes (they would be lost on restore)"
full = "/repo/" + path
src = open(full).read()
assert src.count(old) >= 1, "pattern not found"
open(full, "w").write(src.replace(old, new, 1))
import shutil, os
ev = f"/verif/evidence/{prop}.json"
if os.path.exists(ev):
    shutil.copy(ev, f"/tmp/evidence_{prop}.bak")
try:
    r = subprocess.run(["/verif/check", prop], capture_output=True, text=True, cwd="/verif")
    out = (r.stdout + r.stderr).strip().splitlines()
    print(f"rc={r.returncode}")
    for l in out[-8:]:
        print("   ", l[:260])
finally:
    subprocess.run(["git", "-C", "/repo", "checkout", "--", path])
    if os.path.exists(f"/tmp/evidence_{prop}.bak"):
        shutil.move(f"/tmp/evidence_{prop}.bak", ev)
