#!/bin/sh
# Run the repository's pinned test-suite (guard OFF) and compare with BASELINE.json stable_pass.
unset SEANDSTEWART_PYTHON_TYPELIB_VERIF
OUT=$(mktemp /tmp/baseline.XXXXXX.xml)
cd /repo && /venv/bin/python -m pytest -ra -q -p no:cacheprovider --timeout=900 --continue-on-collection-errors --junitxml="$OUT" >/dev/null 2>&1
/venv/bin/python - "$OUT" <<'PY'
import json, sys, xml.etree.ElementTree as ET
base = json.load(open('/root/.vp/BASELINE.json'))
want = set(base['stable_pass'])
got = set()
for tc in ET.parse(sys.argv[1]).getroot().iter('testcase'):
    if not any(ch.tag in ('failure', 'error', 'skipped') for ch in tc):
        got.add(f"{tc.get('classname')}::{tc.get('name')}")
missing = sorted(want - got)
print(f"baseline: stable_pass={len(want)} passing_now={len(got & want)} missing={len(missing)}")
for m in missing[:20]:
    print("  MISSING", m)
sys.exit(1 if missing else 0)
PY
RC=$?
rm -f "$OUT"
exit $RC
