#!/bin/sh
# Build the offline overlay venv used by every check (python 3.12 = the repo's interpreter,
# plus z3-solver / cvc5 / jsonschema from the local wheelhouse; /venv's site-packages are
# added through a .pth so that `import typelib` resolves to /repo/src (editable install)).
set -e
cd "$(dirname "$0")/.."
V=.venv
if [ ! -x "$V/bin/python" ] || ! "$V/bin/python" -c "import z3, cvc5, jsonschema, typelib" >/dev/null 2>&1; then
  rm -rf "$V"
  /venv/bin/python -m venv "$V"
  PIP_NO_INDEX=1 "$V/bin/python" -m pip install -q --no-index --find-links /opt/veriftools/wheels \
      z3-solver cvc5 jsonschema deal icontract crosshair-tool >/dev/null
  SP=$("$V/bin/python" -c "import sysconfig; print(sysconfig.get_paths()['purelib'])")
  echo "import site; site.addsitedir('/venv/lib/python3.12/site-packages')" > "$SP/zz_repo_venv.pth"
fi
"$V/bin/python" -c "import z3, cvc5, jsonschema, typelib; print('setup ok: z3', z3.get_version_string(), 'typelib from', typelib.__file__)"
