"""False-alarm measurement, in parallel and without touching /repo: for every patchN.diff (a behaviour-preserving refactoring) in
the given directories, apply it to a scratch copy of /repo/src, run its demo and EVERY claimed check (quick tier) against that copy,
and report each check that does not exit 0.  usage: benign_par.py [-j N] DIR..."""
import concurrent.futures as cf
import glob
import json
import os
import shutil
import subprocess
import sys

args = sys.argv[1:]
J = 6
if args[:1] == ["-j"]:
    J = int(args[1])
    args = args[2:]
jobs = [(d, p) for d in args for p in sorted(glob.glob(d + "/patch*.diff"))]
claimed = [c["property_id"] for c in json.load(open("/verif/MANIFEST.json"))["checks"]]
if os.environ.get("BENIGN_CHECKS"):          # restrict the replay to some checks (after a change that can only affect those)
    claimed = [c for c in claimed if c in os.environ["BENIGN_CHECKS"].split(",")]
SCR = "/tmp/benign_scratch"
shutil.rmtree(SCR, ignore_errors=True)
os.makedirs(SCR)


def run_slot(k):
    vd = f"{SCR}/verif{k}"
    shutil.copytree("/verif", vd, ignore=shutil.ignore_patterns(".git", "replays", "benign", "seeded", "__pycache__"), symlinks=True)
    res = []
    for d, p in jobs[k::J]:
        n = os.path.basename(p)[5:-5]
        src = f"{SCR}/src_{k}"
        shutil.rmtree(src, ignore_errors=True)
        os.makedirs(src)
        shutil.copytree("/repo/src", src + "/src", ignore=shutil.ignore_patterns("__pycache__"))
        ap = subprocess.run(["git", "apply", p], cwd=src, capture_output=True, text=True)
        if ap.returncode != 0:
            res.append((p, {"applies": False}))
            continue
        env = dict(os.environ, TYPELIB_SRC=src + "/src", PYTHONPATH=src + "/src", PYVC_JOBS="3", PYTHONDONTWRITEBYTECODE="1")
        demo = subprocess.run(["/venv/bin/python", f"{d}/demo{n}.py"], capture_output=True, text=True, env=env).returncode
        alarms = []
        for q in claimed:
            r = subprocess.run([vd + "/check", q], capture_output=True, text=True, cwd=vd, env=env)
            if r.returncode != 0:
                lines = [l for l in r.stdout.splitlines() if "VIOLATION" in l or "CHECKER" in l or "checker" in l]
                alarms.append(f"{q} rc={r.returncode} " + " | ".join(x[-170:] for x in lines[:3]))
        out = {"applies": True, "demo_rc_patched": demo, "alarms": alarms}
        print(p, json.dumps(out)[:900], flush=True)
        res.append((p, out))
    return res


allres = {}
with cf.ThreadPoolExecutor(max_workers=J) as ex:
    for res in ex.map(run_slot, range(J)):
        allres.update(dict(res))
shutil.rmtree(SCR, ignore_errors=True)
json.dump(allres, open("/tmp/benign_par_result.json", "w"), indent=1)
print(f"{len(allres)} patches, {sum(1 for v in allres.values() if v.get('alarms'))} with an alarm")
