#!/bin/sh
# usage: whocatches.sh PATCH  -- apply the patch to /repo, run every check (quick) in parallel, list which report a violation, undo.
P=$1
cd /repo || exit 2
[ -z "$(git status --porcelain)" ] || { echo "refusing: /repo dirty"; exit 2; }
git apply --check "$P" || { echo "patch does not apply"; exit 2; }
mkdir -p /tmp/evbak && cp /verif/evidence/*.json /tmp/evbak/
git apply "$P"
cd /verif
for Q in C01 C02 C03 C04 C05 C06 C07 C08 C09 C10 C11 C12 C13 C14 C15 C16 C17 C18 C19 C20; do
  ( PYVC_JOBS=4 ./check $Q > /tmp/who_$Q.log 2>&1; echo "$Q rc=$? $(grep -c VIOLATION /tmp/who_$Q.log) $(grep VIOLATION /tmp/who_$Q.log | head -2 | sed 's#.*replays/##' | tr '\n' ' ' | cut -c1-200)" ) &
done
wait
git -C /repo checkout -- . ; cp /tmp/evbak/*.json /verif/evidence/; git -C /repo status --short
