"""Regenerate the data tables of DESIGN.md section 11 (levels, fix list, known findings, seeds) from the files they describe."""
import json, glob, os, re
p = '/verif/DESIGN.md'
s = open(p).read()
kf = json.load(open('/verif/known_findings.json'))
fixed = "\n".join(f"- `{f.split(' ',3)[2]}` ({f.split(' ',3)[1].replace('property=','')}) — {f.split(' ',3)[3]}" for f in kf['fixed'])
open_f = "\n".join(f"- **{f['id']}** ({f['property']}) — {f['print']}  \n  *why not fixed:* {f['why_not_fixed']}" for f in kf['findings'])
rows = []
for d in sorted(glob.glob('/verif/seeded/C*')):
    m = json.load(open(d + '/meta.json'))
    rows.append(f"| {os.path.basename(d)} | {m['needs_to_manifest'][:150].replace('|','/')} | {m['caught_by'][:260].replace('|','/')} |")
seeds = "| seed | needs | caught by |\n|---|---|---|\n" + "\n".join(rows)
ev = []
for q in sorted(glob.glob('/verif/evidence/C*.json')):
    e = json.load(open(q)); c = e['coverage']
    ev.append(f"| {e['property_id']} | {e.get('level')} | {len(c.get('functions_under_contract',[]))} | {c.get('obligations')} | {len(c.get('bounded_checks',[]))} |")
evt = "| id | level | functions under contract | obligations (quick) | bounded stand-ins |\n|---|---|---|---|---|\n" + "\n".join(ev)


def put(tag, body):
    global s
    a, b = f"<!-- {tag}:begin -->", f"<!-- {tag}:end -->"
    assert a in s and b in s, tag
    s = s[:s.index(a) + len(a)] + "\n" + body + "\n" + s[s.index(b):]
put("levels", evt); put("fixed", fixed); put("findings", open_f); put("seeds", seeds)
open(p, 'w').write(s)
print("DESIGN.md tables updated")
