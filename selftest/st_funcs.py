"""Small functions exercising the Python constructs the contracts rely on; interpreted symbolically by pyvc and run natively by
CPython on the same inputs (scripts/engine_selftest.py).  Integer / bool / None arguments only."""


def f_arith(a, b):
    return a + b * 2 - (a - b)


def f_floordiv(a, b):
    if b == 0:
        return None
    return a // b


def f_mod(a, b):
    if b == 0:
        return -1
    return a % b


def f_divmod(a, b):
    if b == 0:
        raise ZeroDivisionError("b")
    q, r = divmod(a, b)
    return q * 1000 + r


def f_cmp_chain(a, b, c):
    if a < b <= c:
        return 1
    elif a == b or not (b != c):
        return 2
    return 3


def f_bool_ops(a, b):
    x = a > 0 and b > 0
    y = a < 0 or b < 0
    if x and not y:
        return 10
    if y:
        return 20
    return 30


def f_ternary(a, b):
    return a if a >= b else b


def f_minmax(a, b, c):
    return max(a, b, c) - min(a, b, c)


def f_abs(a):
    return abs(a) + (1 if a < 0 else 0)


def f_while(a):
    n = 0
    i = 0
    while i < 5:
        if a > i:
            n += i
        i += 1
    return n


def f_for_range(a):
    total = 0
    for i in range(4):
        if i == a:
            continue
        total += i * a
    return total


def f_tuple(a, b):
    t = (a, b, a + b)
    x, y, z = t
    return z - x - y + len(t)


def f_list_index(a):
    xs = [10, 20, 30]
    if 0 <= a < 3:
        return xs[a]
    return -1


def f_dict(a):
    d = {1: "one", 2: "two"}
    if a in d:
        return len(d[a])
    return d.get(a, 0) if a > 5 else None


def f_none(a):
    x = None if a > 3 else a
    if x is None:
        return 0
    return x + 1


def f_try(a, b):
    try:
        if b == 0:
            raise ValueError("zero")
        return a // b
    except ValueError:
        return -7
    finally:
        pass


def f_nested_if(a, b):
    if a > 0:
        if b > 0:
            return 1
        else:
            if a > b + 10:
                return 2
    elif a == 0:
        return 3
    return 4


def f_isinstance(a):
    if isinstance(a, bool):
        return 1
    if isinstance(a, int):
        return 2
    return 3


def f_bool_int(a):
    return (a > 2) + (a > 4) + True


def f_neg_floor(a):
    return (-a) // 2 + (-a) % 3


def f_compare_eq(a, b):
    return 1 if (a, b) == (b, a) else 0


def f_aug(a, b):
    x = a
    x += b
    x -= 1
    x *= 2
    return x


def f_early_raise(a):
    if a < 0:
        raise TypeError("neg")
    if a > 100:
        raise ValueError("big")
    return a


def f_all_any(a, b):
    return (1 if all([a > 0, b > 0]) else 0) + (2 if any([a > 5, b > 5]) else 0)


def f_comprehension(a):
    return sum([i * a for i in range(3)])


def f_genexpr_next(a):
    return next((i for i in [1, 2, 3] if i > a), -1)


def f_slice_len(a):
    xs = [1, 2, 3, 4, 5]
    if 0 <= a <= 5:
        return len(xs[:a]) * 10 + len(xs[a:])
    return -1


def f_slice_sum(a, b, c):
    args = (a, b, c)
    head = args[:2]
    tail = args[2:]
    return head[0] * 100 + head[1] * 10 + tail[0] + len(head) * 1000


def f_zip_dict(a, b):
    names = ("x", "y")
    d = {k: v for k, v in zip(names, (a, b))}
    return d["x"] - d["y"]


def f_enumerate(a, b, c):
    total = 0
    for i, v in enumerate((a, b, c)):
        if i == 1:
            continue
        total += (i + 1) * v
    return total


def f_star_unpack(a, b, c):
    first, *rest = (a, b, c)
    return first * 100 + rest[0] * 10 + rest[1] + len(rest)


def f_kwargs(a, b):
    def inner(x, y=5, **kw):
        return x * 100 + y * 10 + kw.get("z", 0)
    return inner(a, z=b)


def f_default_args(a):
    def inner(x, y=3):
        return x - y
    return inner(a) + inner(a, y=a)


def f_in_tuple(a):
    if a in (1, 3, 5):
        return 1
    if a not in (0, 2, 4):
        return 2
    return 3


def f_is_not_none(a):
    x = a if a != 0 else None
    return 1 if x is not None else 0


def f_nested_func_closure(a, b):
    def add(n):
        return n + b
    return add(a) * 2


def f_tuple_compare(a, b):
    return 1 if (a, 1) == (b, 1) else (2 if (a, b) != (b, a) else 3)


def f_list_build(a, b):
    out = []
    for v in (a, b, a):
        if v > 0:
            out.append(v)
    return len(out)


def f_dict_items(a, b):
    d = {"p": a, "q": b}
    total = 0
    for k, v in d.items():
        if k == "q":
            total += 2 * v
        else:
            total += v
    return total


def f_while_break_flag(a):
    i = 0
    found = -1
    while i < 6 and found < 0:
        if i * i >= a:
            found = i
        i += 1
    return found


def f_raise_in_helper(a):
    def check(x):
        if x > 3:
            raise ValueError("x")
        return x
    try:
        return check(a)
    except ValueError:
        return -1
