"""Small functions exercising the Python constructs the contracts rely on; interpreted symbolically by pyvc and run natively by
CPython on the same inputs (scripts/engine_selftest.py).  Integer / bool / None arguments only."""


def f_arith(a, b):
    return a + b * 2 - (a - b)


def f_floordiv(a, b):
    if b == 0:
        return None
    return a // b


def f_mod(a, b):
    if b == 0:
        return -1
    return a % b


def f_divmod(a, b):
    if b == 0:
        raise ZeroDivisionError("b")
    q, r = divmod(a, b)
    return q * 1000 + r


def f_cmp_chain(a, b, c):
    if a < b <= c:
        return 1
    elif a == b or not (b != c):
        return 2
    return 3


def f_bool_ops(a, b):
    x = a > 0 and b > 0
    y = a < 0 or b < 0
    if x and not y:
        return 10
    if y:
        return 20
    return 30


def f_ternary(a, b):
    return a if a >= b else b


def f_minmax(a, b, c):
    return max(a, b, c) - min(a, b, c)


def f_abs(a):
    return abs(a) + (1 if a < 0 else 0)


def f_while(a):
    n = 0
    i = 0
    while i < 5:
        if a > i:
            n += i
        i += 1
    return n


def f_for_range(a):
    total = 0
    for i in range(4):
        if i == a:
            continue
        total += i * a
    return total


def f_tuple(a, b):
    t = (a, b, a + b)
    x, y, z = t
    return z - x - y + len(t)


def f_list_index(a):
    xs = [10, 20, 30]
    if 0 <= a < 3:
        return xs[a]
    return -1


def f_dict(a):
    d = {1: "one", 2: "two"}
    if a in d:
        return len(d[a])
    return d.get(a, 0) if a > 5 else None


def f_none(a):
    x = None if a > 3 else a
    if x is None:
        return 0
    return x + 1


def f_try(a, b):
    try:
        if b == 0:
            raise ValueError("zero")
        return a // b
    except ValueError:
        return -7
    finally:
        pass


def f_nested_if(a, b):
    if a > 0:
        if b > 0:
            return 1
        else:
            if a > b + 10:
                return 2
    elif a == 0:
        return 3
    return 4


def f_isinstance(a):
    if isinstance(a, bool):
        return 1
    if isinstance(a, int):
        return 2
    return 3


def f_bool_int(a):
    return (a > 2) + (a > 4) + True


def f_neg_floor(a):
    return (-a) // 2 + (-a) % 3


def f_compare_eq(a, b):
    return 1 if (a, b) == (b, a) else 0


def f_aug(a, b):
    x = a
    x += b
    x -= 1
    x *= 2
    return x


def f_early_raise(a):
    if a < 0:
        raise TypeError("neg")
    if a > 100:
        raise ValueError("big")
    return a


def f_all_any(a, b):
    return (1 if all([a > 0, b > 0]) else 0) + (2 if any([a > 5, b > 5]) else 0)


def f_comprehension(a):
    return sum([i * a for i in range(3)])


def f_genexpr_next(a):
    return next((i for i in [1, 2, 3] if i > a), -1)


def f_slice_len(a):
    xs = [1, 2, 3, 4, 5]
    if 0 <= a <= 5:
        return len(xs[:a]) * 10 + len(xs[a:])
    return -1
