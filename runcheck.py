"""Entry point of every registered check."""
import argparse
import importlib
import json
import os
import sys
import traceback

ROOT = os.path.dirname(os.path.abspath(__file__))
sys.path.insert(0, ROOT)


def main():
    if len(sys.argv) >= 3 and sys.argv[1] == "replay":
        data = json.load(open(sys.argv[2]))
        mod = importlib.import_module("props.main_" + data["property"].lower())
        if data.get("kind") == "known-witness":
            bad = getattr(mod, "WITNESSES", {})[data["witness"]]()
            print("replay witness", data["witness"], "->", bad)
            sys.exit(1 if bad else 0)
        sys.exit(mod.replay(data))
    ap = argparse.ArgumentParser()
    ap.add_argument("prop")
    ap.add_argument("--tier", default=os.environ.get("VERIF_TIER", "quick"))
    a = ap.parse_args()
    seed = int(os.environ.get("VERIF_SEED", "0") or 0)
    mod = importlib.import_module("props.main_" + a.prop.lower())
    from pyvc.core import MissingFunction
    from pyvc import driver
    try:
        rc = mod.main(a.tier, seed)
    except MissingFunction as e:
        if driver.CURRENT is None or os.environ.get("PYVC_UPDATE_LEDGER") == "1":
            raise
        rc = driver.CURRENT.abort_missing(e.qualname)
    except Exception as e:
        from pyvc.core import Unsupported
        if isinstance(e, Unsupported) and driver.CURRENT is not None and driver.LAST_FUNC and os.environ.get("PYVC_UPDATE_LEDGER") != "1":
            traceback.print_exc()
            sys.exit(driver.CURRENT.abort_unsupported(driver.LAST_FUNC, f"Unsupported: {e}"))
        traceback.print_exc()
        print(f"{a.prop}: checker crash (exit 3)")
        rc = 3
    sys.exit(rc)


main()
