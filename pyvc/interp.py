"""The symbolic interpreter: calls, builtin models, function/class construction."""
from __future__ import annotations

import ast
import contextlib

import z3

from .core import (SV, SInt, SBool, SSeq, SDict, Obj, Closure, ClassVal, Stub, PyRaise, Unsupported,
                   Val, VNone, to_val, to_int, to_bool_term, cls_of, sub, cls_const, run, run_raises,
                   run_exc, seq_len, seq_at, IntS, Path, explore, Infeasible)
from .env import Env, ModRef, ModuleEnvs, PropertyVal, _MISSING
from .expr import ExprMixin, SCls, SText, BoundMethod, SuperProxy, ItemsView, seq_of, _len_term, concat_seqs, \
    _index_concrete
from .stmt import StmtMixin, _Return, _Break, _Continue, _PathEnd, LoopSpec
from .source import Source


class _ElemScope:
    def __init__(self):
        self.conds = []
        self.guards = []

    def cond(self):
        return z3.Or(*self.conds) if self.conds else z3.BoolVal(False)


class Outcome:
    """Result of one path through a function."""

    def __init__(self, kind, value=None, exc=None):
        self.kind = kind      # 'ret' | 'raise' | 'end'
        self.value = value
        self.exc = exc

    def __repr__(self):
        return f"Outcome({self.kind}, {self.value if self.kind == 'ret' else self.exc})"


IDENTITY_DECORATORS = ("cache", "lru_cache", "overload", "abstractmethod", "wraps", "slotted", "dataclass",
                       "final")


class Interp(ExprMixin, StmtMixin):
    def __init__(self, src: Source | None = None):
        self.src = src or Source()
        self.stubs: dict[str, Stub] = {}
        self.hooks: dict[str, object] = {}
        self.attr_hooks: dict[str, object] = {}
        self.sv_attr: dict[str, object] = {}
        self.scls_attr: dict[str, object] = {}
        self.method_models: dict[str, object] = {}
        self.loop_specs: dict[tuple[str, int], LoopSpec] = {}
        self.fn_nodes: dict[str, ast.AST] = {}
        self.mods = ModuleEnvs(self)
        self.obligations: list = []
        self.frame_writes: list = []
        self.elem_scopes: list[_ElemScope] = []
        self.called: set[str] = set()       # qualnames of analysed functions entered
        self.assumed_used: set[str] = set() # stubs (assumed contracts) reached
        self.cur_line = None
        self.inline_depth = 0

    # ------------------------------------------------------------------ element scopes (merge mode)
    @contextlib.contextmanager
    def elem_scope(self):
        sc = _ElemScope()
        self.elem_scopes.append(sc)
        try:
            yield sc
        finally:
            self.elem_scopes.pop()

    @contextlib.contextmanager
    def guard(self, g):
        if self.elem_scopes:
            self.elem_scopes[-1].guards.append(g)
            try:
                yield
            finally:
                self.elem_scopes[-1].guards.pop()
        else:
            yield

    def note_elem_raise(self, cond):
        if self.elem_scopes:
            sc = self.elem_scopes[-1]
            g = z3.And(*sc.guards, cond) if sc.guards else cond
            sc.conds.append(g)

    @property
    def merging(self):
        return bool(self.elem_scopes)

    # ------------------------------------------------------------------ construction
    def make_function(self, node, env, qualname, module, owner=None):
        c = Closure(node, env, qualname, module)
        c.owner = owner
        if isinstance(node, ast.FunctionDef):
            self.fn_nodes[qualname] = node
            c.memoised = any("cache" in ast.unparse(d) for d in node.decorator_list)
        return c

    def make_class(self, node, env, qualname, module):
        pycls = None
        try:
            real = self.mods.real_module(module)
            pycls = real
            for part in qualname[len(module) + 1:].split("."):
                pycls = getattr(pycls, part)
        except Exception:
            pycls = None
        cv = ClassVal(node, env, qualname, module, pycls)
        cv.members = {}
        cenv = env.child(qual=qualname)
        cv.cenv = cenv
        for s in node.body:
            if isinstance(s, ast.FunctionDef):
                fn = self.make_function(s, cenv, f"{qualname}.{s.name}", module, owner=cv)
                decs = [ast.unparse(d) for d in s.decorator_list]
                if any(d.endswith("overload") for d in decs):
                    continue
                if "property" in decs:
                    cv.members[s.name] = PropertyVal(fn)
                else:
                    cv.members[s.name] = fn
        # bases are resolved lazily
        cv._bases_resolved = False
        self._resolve_bases(cv)
        return cv

    def _resolve_bases(self, cv):
        if cv._bases_resolved:
            return
        cv._bases_resolved = True
        p = Path()
        for b in cv.node.bases:
            try:
                v = self.eval(b, cv.env, p)
            except Unsupported:
                continue
            if isinstance(v, (ClassVal, type)):
                cv.bases.append(v)

    def eval_module_level(self, expr, env):
        p = Path()
        return self.eval(expr, env, p)

    # ------------------------------------------------------------------ calls
    def e_Call(self, node, env, path, merge):
        # super()
        if isinstance(node.func, ast.Name) and node.func.id == "super" and not node.args:
            slf = env.lookup("self")
            owner = env.owner
            if owner is None:
                raise Unsupported("super() outside method")
            return SuperProxy(slf, owner)
        f = self.eval(node.func, env, path, merge)
        args = []
        for a in node.args:
            if isinstance(a, ast.Starred):
                v = self.eval(a.value, env, path, merge)
                s = self.iter_seq(v, path)
                if not isinstance(s.length, int):
                    args.append(_StarArgs(s))
                else:
                    self.materialise_raises(s, path)
                    args.extend(s.at(i) for i in range(s.length))
            else:
                args.append(self.eval(a, env, path, merge))
        kwargs = {}
        for kw in node.keywords:
            v = self.eval(kw.value, env, path, merge)
            if kw.arg is None:
                if isinstance(v, dict):
                    kwargs.update(v)
                else:
                    kwargs["$starstar"] = v
            else:
                kwargs[kw.arg] = v
        return self.call_value(f, args, kwargs, path, node=node, env=env)

    def call_value(self, f, args, kwargs, path, node=None, env=None):
        if isinstance(f, Stub):
            if getattr(f, "memoised", False):
                h = self.hooks.get("memo_call")
                if h is not None:
                    h(self, path, f, args, kwargs)
            if f.assumed:
                self.assumed_used.add(f"{f.name}: {f.assumed}")
            self.check_call_shape(getattr(f, "qualname", None), args, kwargs)
            return f.fn(self, path, args, kwargs)
        if isinstance(f, Closure):
            st = self.stubs.get(f.qualname)
            if st is not None and not getattr(f, "_no_stub", False):
                if st.assumed:
                    self.assumed_used.add(f"{st.name}: {st.assumed}")
                a2 = ([f.self_obj] if f.self_obj is not None else []) + list(args)
                if f.self_obj is None:
                    self.check_call_shape(f.qualname, args, kwargs)
                return st.fn(self, path, a2, kwargs)
            if getattr(f, "memoised", False) and not getattr(f, "_no_stub", False):
                h = self.hooks.get("memo_call")
                if h is not None:
                    h(self, path, f, args, kwargs)
            return self.call_closure(f, args, kwargs, path)
        if isinstance(f, ClassVal):
            return self.instantiate(f, args, kwargs, path)
        if isinstance(f, BoundMethod):
            return self.call_method(f.recv, f.name, args, kwargs, path)
        if isinstance(f, SV):
            h = self.hooks.get("call_opaque")
            if h is not None:
                r = h(self, path, f, args, kwargs)
                if r is not _MISSING:
                    return r
            return self.apply_routine(f, args, kwargs, path)
        if isinstance(f, Obj):
            m = self.find_method(f.cls, "__call__")
            if m is not None:
                return self.call_value(m.bind(f), args, kwargs, path)
            h = self.hooks.get("call_obj")
            if h:
                return h(self, path, f, args, kwargs)
            raise Unsupported(f"call of {f!r}")
        if f is None:
            if self.merging:       # inside an element closure: the element raises, not the whole path
                self.note_elem_raise(z3.BoolVal(True))
                return SV(path.fresh("unreachable"))
            raise PyRaise(TypeError, note="'NoneType' object is not callable")
        return self.call_builtin(f, args, kwargs, path)

    def apply_routine(self, r, args, kwargs, path):
        """Application of an opaque routine object: uninterpreted run / run_raises."""
        if len(args) != 1 or kwargs:
            raise Unsupported("opaque callable with non-unary call")
        rt, vt = to_val(r), to_val(args[0])
        raises = run_raises(rt, vt)
        if self.merging:
            self.note_elem_raise(raises)
            return SV(run(rt, vt))
        if path.branch(raises):
            raise PyRaise(run_exc(rt, vt), note="member routine raised")
        return SV(run(rt, vt))

    def call_closure(self, f: Closure, args, kwargs, path):
        node = f.node
        env = Env(parent=f.env, module=f.module, owner=getattr(f, "owner", None), qual=f.qualname)
        all_args = ([f.self_obj] if f.self_obj is not None else []) + list(args)
        self.bind_params(node.args, all_args, kwargs, env, f, path)
        self.called.add(f.qualname)
        if isinstance(node, ast.Lambda):
            return self.eval(node.body, env, path, merge=self.merging)
        if self.merging:
            # inside an element closure only single-expression bodies can be merged
            body = [s for s in node.body if not (isinstance(s, ast.Expr) and isinstance(s.value, ast.Constant))]
            if len(body) == 1 and isinstance(body[0], ast.Return):
                return self.eval(body[0].value, env, path, merge=True)
            raise Unsupported(f"call of multi-statement function {f.qualname} inside an element closure")
        is_gen = any(isinstance(n, (ast.Yield, ast.YieldFrom)) for n in ast.walk(node)
                     if not isinstance(n, (ast.Lambda,)))
        if is_gen:
            sink = []
            env.set("$yield", sink)
        self.inline_depth += 1
        try:
            self.exec_block(node.body, env, path)
            result = None
        except _Return as r:
            result = r.value
        finally:
            self.inline_depth -= 1
        if is_gen:
            parts = []
            for kind, v in sink:
                if kind == "one":
                    parts.append(SSeq(1, lambda i, v=v: v, "gen"))
                else:
                    parts.append(self.iter_seq(v, path))
            if not parts:
                return SSeq(0, lambda i: None, "gen")
            return concat_seqs(parts, "gen")
        return result

    def check_call_shape(self, qualname, args, kwargs):
        """A callee replaced by its contract is still *called*: the arguments of the call site must bind to the real signature
        (otherwise CPython raises TypeError before the callee's body - and its contract - is ever reached)."""
        if not qualname:
            return
        cache = self.__dict__.setdefault("_sig_cache", {})
        if qualname not in cache:
            try:
                _m, chain, node = self.src.find_def(qualname)
                cache[qualname] = node.args if isinstance(node, ast.FunctionDef) and not chain else None
            except Exception:
                cache[qualname] = None
        a = cache[qualname]
        if a is None or any(isinstance(x, _StarArgs) for x in args) or "$starstar" in kwargs:
            return
        pos = [p.arg for p in list(a.posonlyargs) + list(a.args)]
        kwonly = [p.arg for p in a.kwonlyargs]
        if len(args) > len(pos) and a.vararg is None:
            raise PyRaise(TypeError, note=f"{qualname}() takes {len(pos)} positional arguments but {len(args)} were given")
        bound = set(pos[:len(args)])
        for k in kwargs:
            if k in bound or k in [p.arg for p in a.posonlyargs]:
                raise PyRaise(TypeError, note=f"{qualname}() got multiple values / positional-only argument {k!r}")
            if k not in pos and k not in kwonly and a.kwarg is None:
                raise PyRaise(TypeError, note=f"{qualname}() got an unexpected keyword argument {k!r}")
            bound.add(k)
        n_req = len(pos) - len(a.defaults)
        for i, p in enumerate(pos):
            if i < n_req and p not in bound:
                raise PyRaise(TypeError, note=f"{qualname}() missing required argument {p!r}")
        for p, d in zip(kwonly, a.kw_defaults):
            if d is None and p not in bound:
                raise PyRaise(TypeError, note=f"{qualname}() missing required keyword-only argument {p!r}")

    def bind_params(self, a: ast.arguments, args, kwargs, env, f, path):
        kwargs = dict(kwargs)
        pos = list(a.posonlyargs) + list(a.args)
        ss0 = kwargs.get("$starstar")
        if isinstance(ss0, SDict):
            # a symbolic ** mapping may carry the name of any keyword-capable parameter: Python binds that parameter
            # from it (or raises TypeError when the parameter already has a value) - only other keys reach **kwargs
            n_plain = len([x for x in args if not isinstance(x, _StarArgs)])
            taken = {p.arg for p in pos[:n_plain]}
            for name in [p.arg for p in a.args] + [p.arg for p in a.kwonlyargs]:
                key = to_val(name)
                if path.branch(ss0.has(key)):
                    if name in taken or name in kwargs:
                        raise PyRaise(TypeError, note=f"got multiple values for argument {name!r}")
                    kwargs[name] = ss0.get(key)
                    ss0 = SDict(lambda k, h=ss0.has, key=key: z3.And(h(k), k != key), ss0.get, exact=ss0.exact)
            kwargs["$starstar"] = ss0
        star = None
        if any(isinstance(x, _StarArgs) for x in args):
            if isinstance(args[-1], _StarArgs) and len(args) - 1 == len(pos) and a.vararg \
                    and not any(isinstance(x, _StarArgs) for x in args[:-1]):
                env.set(a.vararg.arg, args[-1].seq)
                args = list(args[:-1])
                star = True
            else:
                raise Unsupported("symbolic *args into positional parameters")
        defaults = list(a.defaults)
        n_no_default = len(pos) - len(defaults)
        for i, p in enumerate(pos):
            if i < len(args):
                env.set(p.arg, args[i])
            elif p.arg in kwargs:
                env.set(p.arg, kwargs.pop(p.arg))
            elif i >= n_no_default:
                env.set(p.arg, self.eval(defaults[i - n_no_default], f.env, path))
            else:
                raise PyRaise(TypeError, note=f"missing argument {p.arg}")
        if a.vararg and not star:
            env.set(a.vararg.arg, tuple(args[len(pos):]))
        elif len(args) > len(pos) and not star:
            raise PyRaise(TypeError, note="too many positional arguments")
        for p, d in zip(a.kwonlyargs, a.kw_defaults):
            if p.arg in kwargs:
                env.set(p.arg, kwargs.pop(p.arg))
            elif d is not None:
                env.set(p.arg, self.eval(d, f.env, path))
            else:
                raise PyRaise(TypeError, note=f"missing keyword argument {p.arg}")
        ss = kwargs.pop("$starstar", None)
        if a.kwarg:
            if ss is not None and not kwargs:
                env.set(a.kwarg.arg, ss)
            elif ss is None:
                env.set(a.kwarg.arg, kwargs)
            else:
                raise Unsupported("mixed ** and keywords")
        elif kwargs or ss is not None:
            if ss is not None:
                raise Unsupported("** into function without **kwargs")
            raise PyRaise(TypeError, note=f"unexpected keyword {list(kwargs)}")

    def instantiate(self, cv: ClassVal, args, kwargs, path):
        h = self.hooks.get("instantiate")
        if h is not None:
            r = h(self, path, cv, args, kwargs)
            if r is not _MISSING:
                return r
        obj = Obj(cv)
        obj.sym_fields = None
        obj.constructed = True
        init = self.find_method(cv, "__init__")
        if isinstance(init, Closure):
            self.call_value(init.bind(obj), args, kwargs, path)
        elif args or kwargs:
            raise Unsupported(f"instantiate {cv.qualname} with args but no analysed __init__")
        return obj

    # ------------------------------------------------------------------ iteration
    def iter_seq(self, v, path, for_loop=False) -> SSeq:
        if isinstance(v, SSeq):
            return v
        if isinstance(v, (tuple, list)):
            return seq_of(v)
        h0 = self.hooks.get("iter")
        if h0 is not None:
            r = h0(self, path, v)
            if r is not _MISSING:
                return r
        if isinstance(v, (set, frozenset)):
            return seq_of(list(v))
        if isinstance(v, dict):
            return seq_of(list(v.keys()))
        if isinstance(v, ItemsView):
            d = v.d
            if d.keyseq is None:
                raise Unsupported("items() of dict without key order")
            ks = d.keyseq
            return SSeq(ks.length, lambda i, ks=ks, d=d: (ks.at(i), d.get(to_val(ks.at(i)))), "list")
        if isinstance(v, range):
            return seq_of(list(v))
        if isinstance(v, str):
            return seq_of(list(v))
        h = self.hooks.get("iter")
        if h is not None:
            r = h(self, path, v)
            if r is not _MISSING:
                return r
        if isinstance(v, SDict):
            if v.keyseq is None:
                raise Unsupported("iteration of dict without key order")
            return v.keyseq
        raise Unsupported(f"iteration over {v!r}")

    # ------------------------------------------------------------------ methods on modelled values
    def call_method(self, recv, name, args, kwargs, path):
        mm = self.method_models.get(name)
        if mm is not None:
            r = mm(self, path, recv, args, kwargs)
            if r is not _MISSING:
                return r
        h0 = self.hooks.get("method")
        if h0 is not None:
            r = h0(self, path, recv, name, args, kwargs)
            if r is not _MISSING:
                return r
        if isinstance(recv, SDict):
            if name == "items":
                return ItemsView(recv)
            if name == "keys":
                return self.iter_seq(recv, path)
            if name == "get":
                k = to_val(args[0])
                default = args[1] if len(args) > 1 else kwargs.get("default")
                has = recv.has(k)
                if self.merging:
                    got = recv.get(k)
                    return self.merge_values(has, got, default)
                if path.branch(has):
                    return recv.get(k)
                return default
            if name == "values":
                ks = self.iter_seq(recv, path)
                return SSeq(ks.length, lambda i: recv.get(to_val(ks.at(i))), "list")
        if isinstance(recv, dict):
            if name == "items":
                return list(recv.items())
            if name == "keys":
                return list(recv.keys())
            if name == "values":
                return list(recv.values())
            if name == "get":
                k = args[0]
                if isinstance(k, (SV, SInt)):
                    # a small concrete table asked with a symbolic key: one path per key, then the default
                    kt = to_val(k)
                    for k0, v0 in recv.items():
                        try:
                            hit = kt == to_val(k0)
                        except Unsupported:
                            raise Unsupported("symbolic key into a concrete dict with unmodelled keys") from None
                        if path.branch(hit):
                            return v0
                    return args[1] if len(args) > 1 else None
                return recv.get(k, args[1] if len(args) > 1 else None)
            if name in ("pop", "setdefault", "update", "clear"):
                return getattr(recv, name)(*args)
        if isinstance(recv, list):
            if name in ("append", "extend", "pop"):
                return getattr(recv, name)(*args)
        if isinstance(recv, set):
            if name in ("add", "clear", "union"):
                return getattr(recv, name)(*args)
        if isinstance(recv, str):
            if all(not isinstance(a, (SV, SInt, SBool, SText, SSeq)) for a in args):
                return getattr(recv, name)(*args, **kwargs)
        if isinstance(recv, SText):
            h = self.hooks.get("text_method")
            if h:
                return h(self, path, recv, name, args, kwargs)
        if isinstance(recv, SSeq) and recv.kind == "list" and name in ("append", "extend") and len(args) == 1 and not kwargs:
            # in-place growth of a list of symbolic length: the object itself now denotes the concatenation (every alias sees it)
            tail = SSeq(1, lambda i, v=args[0]: v, "list") if name == "append" else self.iter_seq(args[0], path)
            if tail.elem_raises is not None:
                self.materialise_raises(tail, path)
            old = SSeq(recv.length, recv.at, "list", recv.elem_raises)
            new = concat_seqs([old, tail], "list")
            recv.length, recv.at, recv.elem_raises = new.length, new.at, new.elem_raises
            return None
        if isinstance(recv, SSeq) and name == "append":
            raise Unsupported("append to symbolic sequence")
        h = self.hooks.get("method")
        if h is not None:
            r = h(self, path, recv, name, args, kwargs)
            if r is not _MISSING:
                return r
        raise Unsupported(f"method {name} on {recv!r}")

    # ------------------------------------------------------------------ builtins
    def call_builtin(self, f, args, kwargs, path):
        import builtins as B
        sym = lambda x: isinstance(x, (SV, SInt, SBool, SSeq, SDict, Obj, SCls, SText, ItemsView, Closure,
                                       ClassVal, _StarArgs))
        name = getattr(f, "__name__", None)
        model = self.builtin_models.get(f)
        if model is None:
            try:
                model = self.builtin_models_by_name.get((getattr(f, "__module__", None), name))
            except TypeError:
                model = None
        if model is not None:
            r = model(self, path, args, kwargs)
            if r is not _MISSING:
                return r
        deep_sym = any(sym(a) or (isinstance(a, (tuple, list)) and any(sym(x) for x in a)) for a in args) \
            or any(sym(v) for v in kwargs.values())
        if deep_sym and getattr(f, "__self__", None) is not None and not isinstance(f.__self__, type(B)) and self.hooks.get("method"):
            # a bound method of a host object (e.g. a compiled pattern's .search) applied to symbolic arguments
            r = self.hooks["method"](self, path, f.__self__, name, args, kwargs)
            if r is not _MISSING:
                return r
        if not deep_sym:
            if f in self.safe_concrete or getattr(f, "__module__", "") in (
                    "builtins", "operator", "typing", "inspect", "dataclasses", "datetime", "decimal", "fractions", "uuid",
                    "pathlib", "re", "collections", "enum", "types", "itertools", "ast", "_ast", "typing_extensions"):
                try:
                    return f(*args, **kwargs)
                except Exception as e:   # a real exception raised by a concrete call is a modelled raise
                    raise PyRaise(type(e), note=str(e))
        raise Unsupported(f"call of {f!r} with symbolic arguments (no model)")

    safe_concrete: set = set()
    builtin_models: dict = {}
    builtin_models_by_name: dict = {}

    # ------------------------------------------------------------------ driving a function
    def run_function(self, qualname, make_args, axioms=(), setup=None, timeout_ms=2000, max_paths=4000, name_prefix="",
                     then=None):
        """Explore all paths of the function ``qualname``.

        make_args(interp, path) -> (args, kwargs[, self_obj])
        Returns list of (path, Outcome, extra) where extra carries obligations recorded on that path.
        """
        from . import driver as _drv
        _drv.LAST_FUNC = qualname
        try:
            mod, chain, node = self.src.find_def(qualname)
        except KeyError:
            from .core import MissingFunction
            raise MissingFunction(qualname) from None
        results = []

        def one(path):
            self.obligations = []
            self.frame_writes = []
            self.elem_scopes = []
            env = self.mods.env(mod)
            owner = None
            cenv = env
            qn = mod
            for c in chain:
                owner = self.mods.resolve(mod, c.name) if owner is None else owner.members.get(c.name)
                qn = f"{qn}.{c.name}"
            if owner is not None and isinstance(owner, ClassVal):
                fn = owner.members[node.name]
                if isinstance(fn, PropertyVal):
                    fn = fn.getter
            else:
                fn = self.mods.resolve(mod, node.name)
                if isinstance(fn, Stub):
                    # the function itself is under analysis: bypass its own stub
                    fn = self.make_function(node, env, qualname, mod)
            if not isinstance(fn, Closure):
                raise Unsupported(f"{qualname} did not resolve to a function: {fn!r}")
            memo = getattr(fn, "memoised", False)
            fn = Closure(fn.node, fn.env, fn.qualname, fn.module, fn.self_obj, fn.defaults)
            fn.memoised = memo
            fn.owner = owner
            fn._no_stub = True
            self.interpreting = getattr(self, "interpreting", 0) + 1
            try:
                made = make_args(self, path)
            finally:
                self.interpreting -= 1
            args, kwargs = made[0], made[1]
            self.interpreting += 1
            try:
                v = self.call_value(fn, args, kwargs, path)
                if then is not None:
                    # a continuation explored as part of the same paths (e.g. calling the closure that was returned)
                    v = then(self, path, v, made)
                out = Outcome("ret", value=v)
            except PyRaise as e:
                out = Outcome("raise", exc=e)
            except _PathEnd as e:
                out = Outcome("end", value=e.why)
            except Unsupported as e:
                # tool limit on this path: the caller turns every clause of the path into an
                # undischarged obligation carrying this reason (never silently dropped)
                out = Outcome("unsupported", value=f"engine: Unsupported {e} (near line {self.cur_line})")
            except RecursionError:
                out = Outcome("unsupported", value="engine: unbounded recursion while interpreting")
            finally:
                self.interpreting -= 1
            return out, list(self.obligations), list(self.frame_writes), (made[2] if len(made) > 2 else None)

        for p, res in explore(one, axioms=axioms, max_paths=max_paths, timeout_ms=timeout_ms, name_prefix=name_prefix):
            results.append((p,) + tuple(res))
        _drv.OUTCOMES.setdefault(qualname, []).extend(r[1].kind for r in results)
        return results


class _StarArgs:
    def __init__(self, seq):
        self.seq = seq
