"""Models of the builtins the analysed code uses on symbolic values."""
from __future__ import annotations

import builtins as B
import functools

import z3

from .core import (SV, SInt, SBool, SSeq, SDict, Obj, Closure, ClassVal, Stub, PyRaise, Unsupported,
                   Val, to_val, to_int, to_bool_term, cls_of, sub, cls_const, seq_len, seq_at, IntS)
from .env import _MISSING, ModRef
from .expr import SCls, SText, ItemsView, seq_of, _len_term, _index_concrete
from .interp import Interp

SYM = (SV, SInt, SBool, SSeq, SDict, Obj, SCls, SText, ItemsView)


def _is_sym(x):
    return isinstance(x, SYM)


def m_len(I, path, args, kwargs):
    (x,) = args
    if isinstance(x, SSeq):
        return x.length if isinstance(x.length, int) else SInt(x.length)
    if isinstance(x, SDict):
        if x.keyseq is not None:
            n = x.keyseq.length
            return n if isinstance(n, int) else SInt(n)
        raise Unsupported("len of functional dict")
    if getattr(x, "host_symbolic", False):
        h = I.hooks.get("len_host")
        if h:
            r = h(I, path, x)
            if r is not _MISSING:
                return r
    if isinstance(x, SV):
        h = I.hooks.get("len_opaque")
        if h:
            return h(I, path, x)
        return SInt(seq_len(x.t))
    if _is_sym(x):
        raise Unsupported(f"len({x!r})")
    return _MISSING


def class_list(c):
    if isinstance(c, (tuple, list)):
        out = []
        for x in c:
            out.extend(class_list(x))
        return out
    return [c]


def m_isinstance(I, path, args, kwargs):
    v, c = args
    classes = class_list(c)
    if isinstance(v, SV):
        return SBool(z3.Or(*[sub(cls_of(v.t), I.cls_term(k)) for k in classes]))
    if isinstance(v, SInt):
        return any(k in (int, object) or (isinstance(k, type) and issubclass(int, k)) for k in classes)
    if isinstance(v, SBool):
        return any(isinstance(k, type) and issubclass(bool, k) for k in classes)
    if isinstance(v, SText):
        return any(isinstance(k, type) and issubclass(str, k) for k in classes)
    if isinstance(v, SSeq):
        py = {"tuple": tuple, "list": list}.get(v.kind)
        if py is None:
            import types
            py = types.GeneratorType
        return any(isinstance(k, type) and issubclass(py, k) for k in classes)
    if isinstance(v, SDict):
        return any(isinstance(k, type) and issubclass(dict, k) for k in classes)
    if isinstance(v, Obj):
        for k in classes:
            if isinstance(k, ClassVal) and isinstance(v.cls, ClassVal) and k in I.mro(v.cls):
                return True
            if isinstance(k, type) and isinstance(v.cls, ClassVal) and v.cls.pycls is not None \
                    and issubclass(v.cls.pycls, k):
                return True
        return False
    pyc = []
    for k in classes:
        if isinstance(k, ClassVal):
            if k.pycls is None:
                raise Unsupported("isinstance against class without runtime twin")
            pyc.append(k.pycls)
        elif isinstance(k, SCls):
            raise Unsupported("isinstance(concrete, symbolic class)")
        else:
            pyc.append(k)
    return isinstance(v, tuple(pyc))


def m_issubclass(I, path, args, kwargs):
    c, k = args
    classes = class_list(k)
    if isinstance(c, SV) and I.hooks.get("issubclass_opaque"):
        return I.hooks["issubclass_opaque"](I, path, c, classes)
    if isinstance(c, SCls) or any(isinstance(x, SCls) for x in classes):
        h = I.hooks.get("issubclass_guard")
        if h:
            h(I, path, c)
        return SBool(z3.Or(*[sub(I.cls_term(c), I.cls_term(x)) for x in classes]))
    if isinstance(c, SV):
        h = I.hooks.get("issubclass_opaque")
        if h:
            return h(I, path, c, classes)
        raise Unsupported("issubclass of opaque value")
    pyc = [x.pycls if isinstance(x, ClassVal) else x for x in classes]
    cc = c.pycls if isinstance(c, ClassVal) else c
    try:
        return issubclass(cc, tuple(pyc))
    except TypeError as e:
        raise PyRaise(TypeError, note=str(e))


def m_enumerate(I, path, args, kwargs):
    s = I.iter_seq(args[0], path)
    start = args[1] if len(args) > 1 else kwargs.get("start", 0)
    if isinstance(s.length, int) and isinstance(start, int):
        return [(start + i, s.at(i)) for i in range(s.length)]

    def at(i, s=s):
        if isinstance(i, int):
            return (i + start if isinstance(start, int) else SInt(to_int(start) + i), s.at(i))
        return (SInt(z3.simplify(to_int(i) + to_int(start))), s.at(i))
    return SSeq(s.length, at, "gen", s.elem_raises)


def m_zip(I, path, args, kwargs):
    seqs = [I.iter_seq(a, path) for a in args]
    if all(isinstance(s.length, int) for s in seqs):
        n = min(s.length for s in seqs)
        return [tuple(s.at(i) for s in seqs) for i in range(n)]
    n = _len_term(seqs[0].length)
    for s in seqs[1:]:
        m = _len_term(s.length)
        n = z3.If(n <= m, n, m)
    n = z3.simplify(n)

    def raises(i):
        return z3.Or(*[s.elem_raises(i) for s in seqs if s.elem_raises])
    return SSeq(n, lambda i: tuple(s.at(i) for s in seqs), "gen",
                raises if any(s.elem_raises for s in seqs) else None)


def m_tuple(I, path, args, kwargs):
    if not args:
        return ()
    s = I.iter_seq(args[0], path)
    I.materialise_raises(s, path)
    if isinstance(s.length, int):
        return tuple(s.at(i) for i in range(s.length))
    return SSeq(s.length, s.at, "tuple")


def m_list(I, path, args, kwargs):
    if not args:
        return []
    s = I.iter_seq(args[0], path)
    I.materialise_raises(s, path)
    if isinstance(s.length, int):
        return [s.at(i) for i in range(s.length)]
    return SSeq(s.length, s.at, "list")


def m_type(I, path, args, kwargs):
    if len(args) != 1:
        return _MISSING
    (v,) = args
    if isinstance(v, SV):
        return SCls(cls_of(v.t))
    if isinstance(v, Obj):
        return v.cls
    if isinstance(v, SInt):
        return int
    if isinstance(v, SBool):
        return bool
    if isinstance(v, SText):
        return str
    if isinstance(v, SSeq):
        return {"tuple": tuple, "list": list}.get(v.kind, object)
    return _MISSING


def m_bool(I, path, args, kwargs):
    if not args:
        return False
    (v,) = args
    if _is_sym(v):
        return SBool(to_bool_term(v))
    return _MISSING


def m_any(I, path, args, kwargs):
    s = I.iter_seq(args[0], path)
    if isinstance(s.length, int):
        acc = z3.BoolVal(False)
        for i in range(s.length):
            acc = z3.Or(acc, to_bool_term(s.at(i)))
        acc = z3.simplify(acc)
        if z3.is_true(acc):
            return True
        if z3.is_false(acc):
            return False
        return SBool(acc)
    # over a source of symbolic length: a Bool with a Skolem witness one way and an instantiable schema the other way
    # (native quantifiers never reach the solver) - the same encoding as `next(generator, default)` and `x in seq`
    from .ground import exists_witness
    return SBool(exists_witness(path, s.length, lambda j: to_bool_term(s.at(SInt(j))), "any"))


def m_all(I, path, args, kwargs):
    s = I.iter_seq(args[0], path)
    if isinstance(s.length, int):
        acc = z3.BoolVal(True)
        for i in range(s.length):
            acc = z3.And(acc, to_bool_term(s.at(i)))
        acc = z3.simplify(acc)
        if z3.is_true(acc):
            return True
        if z3.is_false(acc):
            return False
        return SBool(acc)
    from .ground import exists_witness
    return SBool(z3.Not(exists_witness(path, s.length, lambda j: z3.Not(to_bool_term(s.at(SInt(j)))), "notall")))


def m_getattr(I, path, args, kwargs):
    obj, name = args[0], args[1]
    if not isinstance(name, str):
        raise Unsupported("getattr with symbolic name")
    if len(args) == 2:
        return I.getattr(obj, name, path)
    h = I.hooks.get("getattr_default")
    if h is not None:
        r = h(I, path, obj, name, args[2])
        if r is not _MISSING:
            return r
    if isinstance(obj, SV) and name not in I.sv_attr and name != "__class__" and name not in I.attr_hooks:
        # an attribute of an opaque object, read with a default: present (an uninterpreted value of the object) or absent
        from .core import attr_uf, Val, BoolS
        has = z3.Function(f"hasattr_{name}", Val, BoolS)(obj.t)
        if path.branch(has):
            return SV(attr_uf(name)(obj.t))
        return args[2]
    try:
        return I.getattr(obj, name, path)
    except PyRaise as e:
        if e.exc_cls is AttributeError:
            return args[2]
        raise


def m_setattr(I, path, args, kwargs):
    obj, name, v = args
    if not isinstance(name, str):
        raise Unsupported("setattr with symbolic name")
    I.setattr(obj, name, v, path)       # same as the statement `obj.<name> = v` (frame writes and hooks included)
    return None


def m_hasattr(I, path, args, kwargs):
    obj, name = args
    h = I.hooks.get("hasattr")
    if h is not None:
        r = h(I, path, obj, name)
        if r is not _MISSING:
            return r
    if _is_sym(obj):
        raise Unsupported(f"hasattr({obj!r}, {name!r})")
    return _MISSING


def m_dict(I, path, args, kwargs):
    if not args and not kwargs:
        return {}
    if len(args) == 1 and isinstance(args[0], dict):
        return dict(args[0], **kwargs)
    if len(args) == 1 and isinstance(args[0], SDict):
        return I.copy_mapping(args[0], path)
    return _MISSING


def m_set(I, path, args, kwargs):
    if not args:
        return set()
    return _MISSING


def m_range(I, path, args, kwargs):
    if all(isinstance(a, int) for a in args):
        return range(*args)
    if len(args) == 1:
        n = to_int(args[0])
        return SSeq(z3.If(n > 0, n, 0), lambda i: SInt(to_int(i)) if not isinstance(i, int) else i, "list")
    raise Unsupported("range with symbolic bounds")


def m_next(I, path, args, kwargs):
    """next(filtered generator, default): exact characterisation through a Skolem index."""
    from .expr import FilteredGen
    from .ground import Q
    it = args[0]
    if isinstance(it, FilteredGen):
        n = _len_term(it.src.length)
        found = path.fresh("next_found", z3.BoolSort())
        if path.branch(found):
            m = path.fresh("next_ix", IntS)
            path.assume(z3.And(m >= 0, m < n, it.pred(SInt(m), path)))
            path.assume(Q([IntS], lambda j: z3.Implies(z3.And(j >= 0, j < m), z3.Not(it.pred(SInt(j), path))),
                          name="next-is-first"))
            return it.elt(SInt(m), path)
        path.assume(Q([IntS], lambda j: z3.Implies(z3.And(j >= 0, j < n), z3.Not(it.pred(SInt(j), path))),
                      name="next-none-satisfies"))
        if len(args) > 1:
            return args[1]
        raise PyRaise(StopIteration)
    h = I.hooks.get("next")
    if h is not None:
        return h(I, path, args, kwargs)
    if _is_sym(it):
        raise Unsupported(f"next({it!r})")
    return _MISSING


def m_divmod(I, path, args, kwargs):
    a, b = args
    if isinstance(a, (SInt, SV)) or isinstance(b, (SInt, SV)):
        x, y = to_int(a), to_int(b)
        if not (isinstance(b, int) and b > 0):
            raise Unsupported("divmod by a non-constant or non-positive divisor")
        return (SInt(x / y), SInt(x % y))       # SMT div/mod are floor div/mod for positive divisors
    return _MISSING


def m_identity_decorator(I, path, args, kwargs):
    if len(args) == 1 and isinstance(args[0], (Closure, ClassVal, Stub)) and not kwargs:
        return args[0]
    # decorator factory: lru_cache(maxsize=..), slotted(dict=..), dataclass(frozen=..)
    return Stub("identity-decorator", lambda I2, p2, a2, k2: a2[0])


def m_cache_decorator(I, path, args, kwargs):
    """functools.cache / lru_cache applied as a call (`g = cache(f)`): the same function, marked memoised, so that a
    contract can tell a memoised alias from the function itself (`memo_call` hook)."""
    if len(args) == 1 and isinstance(args[0], Closure) and not kwargs:
        f = args[0]
        c = Closure(f.node, f.env, f.qualname, f.module, f.self_obj, f.defaults)
        c.memoised = True
        return c
    if len(args) == 1 and isinstance(args[0], Stub) and not kwargs:
        st = args[0]
        c = Stub(st.name, st.fn, st.assumed)
        c.memoised = True
        if hasattr(st, "qualname"):
            c.qualname = st.qualname
        return c
    return m_identity_decorator(I, path, args, kwargs)


def m_cast(I, path, args, kwargs):
    return args[1]


def m_repr(I, path, args, kwargs):
    if _is_sym(args[0]):
        return SText([("opaque", to_val(args[0]))]) if isinstance(args[0], (SV, SInt, SBool)) else "<repr>"
    return _MISSING


def install(I: Interp):
    import typing
    import dataclasses
    import functools as ft
    bm = {
        B.len: m_len, B.isinstance: m_isinstance, B.issubclass: m_issubclass, B.enumerate: m_enumerate,
        B.zip: m_zip, B.tuple: m_tuple, B.list: m_list, B.type: m_type, B.bool: m_bool, B.any: m_any,
        B.all: m_all, B.getattr: m_getattr, B.setattr: m_setattr, B.hasattr: m_hasattr, B.dict: m_dict, B.set: m_set,
        B.range: m_range, typing.cast: m_cast, B.repr: m_repr, B.next: m_next, B.divmod: m_divmod,
        ft.cache: m_cache_decorator, ft.lru_cache: m_cache_decorator, ft.wraps: None,
        dataclasses.dataclass: m_identity_decorator,
    }
    bm = {k: v for k, v in bm.items() if v is not None}
    I.builtin_models = dict(bm)
    I.builtin_models_by_name = {}
    return I
