"""pyvc core: SMT sorts, symbolic host values, path exploration.

One SMT datatype ``Val`` stands for every Python object that is not kept structured
on the host side.  Host-side structured values (closure sequences, functional dicts,
records) never reach the solver as such; only their leaves do.
"""
from __future__ import annotations

import itertools
import z3

# --------------------------------------------------------------------------- sorts

_Val = z3.Datatype("Val")
_Val.declare("VNone")
_Val.declare("VBool", ("b", z3.BoolSort()))
_Val.declare("VInt", ("i", z3.IntSort()))
_Val.declare("VStr", ("s", z3.IntSort()))      # identity of an (opaque) text value
_Val.declare("VObj", ("o", z3.IntSort()))      # identity of any other object
Val = _Val.create()
VNone, VBool, VInt, VStr, VObj = Val.VNone, Val.VBool, Val.VInt, Val.VStr, Val.VObj
is_VNone, is_VBool, is_VInt, is_VStr, is_VObj = (
    Val.is_VNone, Val.is_VBool, Val.is_VInt, Val.is_VStr, Val.is_VObj)

Cls = z3.DeclareSort("Cls")
IntS, BoolS = z3.IntSort(), z3.BoolSort()

# global uninterpreted vocabulary shared by every property
cls_of = z3.Function("cls_of", Val, Cls)            # type(v)
sub = z3.Function("sub", Cls, Cls, BoolS)           # issubclass
truthy = z3.Function("truthy", Val, BoolS)          # bool(v) of an opaque value
run = z3.Function("run", Val, Val, Val)             # routine(value) -> result (when it returns)
run_raises = z3.Function("run_raises", Val, Val, BoolS)   # routine(value) raises
run_exc = z3.Function("run_exc", Val, Val, Cls)     # class of the exception it raises
seq_len = z3.Function("seq_len", Val, IntS)         # len() of an opaque sequence value
seq_at = z3.Function("seq_at", Val, IntS, Val)      # element of an opaque sequence value


cls_val = z3.Function("class_as_value", Cls, Val)      # a class object used as a plain value

_ATTR_UF: dict = {}


def attr_uf(name):
    """attribute `name` of an opaque object, as a function of the object"""
    if name not in _ATTR_UF:
        _ATTR_UF[name] = z3.Function(f"attr_{name}/1", Val, Val)
    return _ATTR_UF[name]


class MissingFunction(Exception):
    """A function under contract is no longer defined in the current source (removed / renamed)."""

    def __init__(self, qualname):
        super().__init__(qualname)
        self.qualname = qualname


class Unsupported(Exception):
    """The engine cannot analyse this construct (tool limit, never a violation)."""


class Infeasible(Exception):
    """The current path condition became unsatisfiable."""


# --------------------------------------------------------------------------- naming

class Names:
    """Deterministic fresh names: re-executing a path prefix yields identical terms."""

    def __init__(self, prefix=""):
        self.n = itertools.count()
        self.prefix = prefix

    def fresh(self, base: str, sort):
        return z3.Const(f"{self.prefix}{base}!{next(self.n)}", sort)


_STR_IDS: dict[str, int] = {}


def str_id(s: str) -> int:
    """Concrete text literals get distinct small non-negative ids; opaque text is < 0 or symbolic."""
    if s not in _STR_IDS:
        _STR_IDS[s] = len(_STR_IDS)
    return _STR_IDS[s]


def str_of_id(i: int):
    for k, v in _STR_IDS.items():
        if v == i:
            return k
    return None


_CLS_CONSTS: dict[object, z3.ExprRef] = {}
_CLS_BY_NAME: dict[str, object] = {}


def cls_const(pycls) -> z3.ExprRef:
    """A named SMT constant for a concrete Python class (ground issubclass facts are asserted
    for every pair of constants that a query mentions, see ``class_axioms``)."""
    if pycls not in _CLS_CONSTS:
        nm = f"C_{getattr(pycls, '__module__', '')}.{getattr(pycls, '__qualname__', repr(pycls))}"
        _CLS_CONSTS[pycls] = z3.Const(nm, Cls)
        _CLS_BY_NAME[nm] = pycls
    return _CLS_CONSTS[pycls]


class ClassTheory:
    """Marker hypothesis: the theory of issubclass (a partial order whose restriction to the named
    concrete classes is the running interpreter's truth table).  Instantiated per query over the class
    terms that occur in it (see `class_theory_instances`) - linear in the table instead of cubic."""
    name = "issubclass-theory"

    def __repr__(self):
        return "ClassTheory"


def class_axioms(mentioned=None):
    return [ClassTheory()]


_CT_CACHE: dict = {}


def class_theory_instances(cls_terms):
    """Ground instances of reflexivity / transitivity + the concrete truth table, for the given terms."""
    consts = {v.get_id(): (p, v) for p, v in _CLS_CONSTS.items()}
    ids = {t.get_id() for t in cls_terms}
    # only the named classes that occur in the query (the truth table is transitively closed already)
    K = [(p, v) for p, v in _CLS_CONSTS.items() if v.get_id() in ids]
    S = [t for t in cls_terms if t.get_id() not in consts]
    key = (frozenset(v.get_id() for _, v in K), frozenset(t.get_id() for t in S))
    hit = _CT_CACHE.get(key)
    if hit is not None:
        return hit
    out = []
    _CT_CACHE[key] = out
    table = {}
    for (p, cp), (q, cq) in itertools.product(K, K):
        try:
            tr = issubclass(p, q)
        except TypeError:
            continue
        table[(cp.get_id(), cq.get_id())] = tr
        out.append(sub(cp, cq) if tr else z3.Not(sub(cp, cq)))
    for (p, cp), (q, cq) in itertools.combinations(K, 2):
        out.append(cp != cq)
    up = [(cp, cq) for (p, cp), (q, cq) in itertools.product(K, K) if cp is not cq and table.get((cp.get_id(), cq.get_id()))]
    for s_ in S:
        out.append(sub(s_, s_))
        for k1, k2 in up:
            out.append(z3.Implies(sub(s_, k1), sub(s_, k2)))
            out.append(z3.Implies(sub(k2, s_), sub(k1, s_)))
        for (p, cp), (q, cq) in itertools.product(K, K):
            if not table.get((cp.get_id(), cq.get_id()), True):
                out.append(z3.Not(z3.And(sub(cp, s_), sub(s_, cq))))
    for s1, s2 in itertools.permutations(S, 2):
        for (p, k) in K:
            out.append(z3.Implies(z3.And(sub(s1, s2), sub(s2, k)), sub(s1, k)))
            out.append(z3.Implies(z3.And(sub(k, s1), sub(s1, s2)), sub(k, s2)))
    if len(S) <= 8:
        for a, b, c in itertools.permutations(S, 3):
            out.append(z3.Implies(z3.And(sub(a, b), sub(b, c)), sub(a, c)))
    return out


# --------------------------------------------------------------------------- host values

class SV:
    """An opaque Python object: a term of sort Val."""

    def __init__(self, t):
        assert t.sort() == Val, t.sort()
        self.t = t

    def __repr__(self):
        return f"SV({self.t})"


class SInt:
    __slots__ = ("t",)

    def __init__(self, t):
        self.t = t

    def __repr__(self):
        return f"SInt({self.t})"


class SBool:
    __slots__ = ("t",)

    def __init__(self, t):
        self.t = t

    def __repr__(self):
        return f"SBool({self.t})"


class SSeq:
    """Closure sequence: a length (python int or z3 Int term) and ``at(i)`` -> host value.

    kind: 'tuple' | 'list' | 'gen' (lazy, one-shot semantics are the caller's business)
    """

    def __init__(self, length, at, kind="tuple", elem_raises=None):
        self.length = length
        self.at = at
        self.kind = kind
        self.elem_raises = elem_raises   # optional: i -> z3 Bool "evaluating element i raises"

    def concrete_len(self):
        return self.length if isinstance(self.length, int) else None

    def __repr__(self):
        return f"SSeq<{self.kind} len={self.length}>"


class SDict:
    """Functional dict view: has(key: Val term) -> z3 Bool ; get(key: Val term) -> host value.

    ``keyseq`` (optional SSeq of keys, insertion order, duplicate-free) is carried where known.
    ``arrays`` (optional (has_arr, val_arr)) make the dict updatable by ``Store``.
    """

    def __init__(self, has, get, keyseq=None, arrays=None, exact=True):
        self.has = has
        self.get = get
        self.keyseq = keyseq
        self.arrays = arrays
        self.exact = exact

    @staticmethod
    def from_arrays(has_arr, val_arr, keyseq=None):
        return SDict(lambda k: z3.Select(has_arr, k), lambda k: SV(z3.Select(val_arr, k)),
                     keyseq=keyseq, arrays=(has_arr, val_arr))

    def __repr__(self):
        return "SDict<>"


class Obj:
    """A record (instance of a class under analysis) with named fields, mutable per path."""

    def __init__(self, cls, fields=None, ident=None):
        self.cls = cls            # ClassVal or python class
        self.fields = dict(fields or {})
        self.ident = ident        # optional z3 Val term identifying the object

    def __repr__(self):
        return f"Obj<{getattr(self.cls, 'name', self.cls)}>"


class Closure:
    """A function defined in analysed source: FunctionDef/Lambda + defining environment."""

    def __init__(self, node, env, qualname, module, self_obj=None, defaults=None):
        self.node = node
        self.env = env
        self.qualname = qualname
        self.module = module
        self.self_obj = self_obj
        self.defaults = defaults

    def bind(self, obj):
        c = Closure(self.node, self.env, self.qualname, self.module, self_obj=obj,
                    defaults=self.defaults)
        for k in ("owner", "memoised", "wraps_of"):
            if hasattr(self, k):
                setattr(c, k, getattr(self, k))
        return c

    def __repr__(self):
        return f"Closure<{self.qualname}>"


class ClassVal:
    """A class defined in analysed source."""

    def __init__(self, node, env, qualname, module, pycls=None):
        self.node = node
        self.env = env
        self.qualname = qualname
        self.module = module
        self.name = node.name
        self.pycls = pycls
        self.bases: list = []

    def __repr__(self):
        return f"ClassVal<{self.qualname}>"


class Stub:
    """Host implementation of a callee: fn(interp, path, args, kwargs) -> host value (may raise PyRaise)."""

    def __init__(self, name, fn, assumed=None):
        self.name = name
        self.fn = fn
        self.assumed = assumed   # text describing the assumed contract (goes to trusted base)

    def __repr__(self):
        return f"Stub<{self.name}>"


class PyRaise(Exception):
    """A Python exception raised by the analysed code (modelled)."""

    def __init__(self, exc_cls, payload=None, note=""):
        super().__init__(note)
        self.exc_cls = exc_cls       # python exception class, or z3 Cls term
        self.payload = payload
        self.note = note


# --------------------------------------------------------------------------- conversions

def to_val(x):
    """Lower a host value to a z3 term of sort Val (only leaves can be lowered)."""
    if isinstance(x, SV):
        return x.t
    if x is None:
        return VNone
    if isinstance(x, bool):
        return VBool(z3.BoolVal(x))
    if isinstance(x, int):
        return VInt(z3.IntVal(x))
    if isinstance(x, str):
        return VStr(z3.IntVal(str_id(x)))
    if isinstance(x, SInt):
        return VInt(x.t)
    if isinstance(x, SBool):
        return VBool(x.t)
    if isinstance(x, Obj) and x.ident is not None:
        return x.ident
    if getattr(x, "host_symbolic", False) and getattr(x, "ident", None) is not None:
        return x.ident
    if hasattr(x, "as_val"):
        return x.as_val()
    if isinstance(x, ClassVal) and x.pycls is not None:
        return to_val(x.pycls)       # a class defined in analysed source: its runtime twin
    if isinstance(x, (type,)) or x is Ellipsis:
        return VObj(z3.IntVal(1_000_000 + _obj_id(x)))
    if isinstance(x, z3.ExprRef) and x.sort() == Val:
        return x
    if not isinstance(x, (SSeq, SDict, Obj, Closure, ClassVal, Stub, tuple, list, dict, set, float, bytes)) \
            and not getattr(x, "host_symbolic", False):
        # any other concrete object (typing special forms, sentinels, modules...): an atom identified by identity
        return VObj(z3.IntVal(1_000_000 + _obj_id(x)))
    raise Unsupported(f"cannot lower {x!r} to Val")


_OBJ_IDS: dict[int, int] = {}
_OBJ_KEEP: list = []


def _obj_id(o):
    k = id(o)
    if k not in _OBJ_IDS:
        _OBJ_IDS[k] = len(_OBJ_IDS)
        _OBJ_KEEP.append(o)
    return _OBJ_IDS[k]


def to_int(x):
    if isinstance(x, bool):
        return z3.IntVal(int(x))
    if isinstance(x, int):
        return z3.IntVal(x)
    if isinstance(x, SInt):
        return x.t
    if isinstance(x, SV):
        return Val.i(x.t)
    if isinstance(x, z3.ExprRef) and x.sort() == IntS:
        return x
    raise Unsupported(f"cannot read {x!r} as int")


def to_bool_term(x):
    """bool(x) as a z3 Bool (no branching)."""
    if isinstance(x, SBool):
        return x.t
    if isinstance(x, bool):
        return z3.BoolVal(x)
    if x is None:
        return z3.BoolVal(False)
    if isinstance(x, int):
        return z3.BoolVal(x != 0)
    if isinstance(x, str):
        return z3.BoolVal(bool(x))
    if isinstance(x, SInt):
        return x.t != 0
    if isinstance(x, SV):
        t = x.t
        return z3.If(is_VNone(t), z3.BoolVal(False),
                     z3.If(is_VBool(t), Val.b(t),
                           z3.If(is_VInt(t), Val.i(t) != 0, truthy(t))))
    if isinstance(x, SSeq):
        n = x.length
        return z3.BoolVal(n > 0) if isinstance(n, int) else n > 0
    if isinstance(x, (tuple, list, dict, set, frozenset)):
        return z3.BoolVal(bool(x))
    if isinstance(x, (Obj, Closure, ClassVal, Stub)) or callable(x) or isinstance(x, type):
        return z3.BoolVal(True)
    if isinstance(x, z3.ExprRef) and x.sort() == BoolS:
        return x
    raise Unsupported(f"truth value of {x!r}")


def is_symbolic(x):
    return isinstance(x, (SV, SInt, SBool, SSeq, SDict, Obj))


# --------------------------------------------------------------------------- paths

class Path:
    """One execution path: replays a decision prefix, then explores."""

    def __init__(self, prefix=(), axioms=(), timeout_ms=2000, name_prefix=""):
        self.prefix = list(prefix)
        self.taken: list[bool] = []
        self.alts: list[list[bool]] = []
        self.pc: list = []
        self.qs: list = []
        self.axioms = list(axioms)
        self.names = Names(name_prefix)
        self.timeout_ms = timeout_ms
        self.notes: list[str] = []
        self.assumed: list = []     # side assumptions introduced by stubs (subset of pc, for reporting)
        self.solver = z3.Solver()
        self.solver.set("timeout", timeout_ms)
        for a in self.axioms:
            self.solver.add(a)
        self.feas_checks = 0
        self.loop_k = {}            # loop-spec name -> iteration index term of the step being proved

    def fresh(self, base, sort=Val):
        return self.names.fresh(base, sort)

    def fresh_val(self, base):
        return SV(self.fresh(base, Val))

    def assume(self, cond, note=None):
        from .ground import Q
        if isinstance(cond, (list, tuple)):
            for c in cond:
                self.assume(c, note)
            return
        if isinstance(cond, (Q, ClassTheory)):
            self.qs.append(cond)          # schemas are not given to the feasibility solver
            if note:
                self.assumed.append(note)
            return
        cond = z3.simplify(cond) if isinstance(cond, z3.ExprRef) else z3.BoolVal(bool(cond))
        if z3.is_true(cond):
            return
        self.pc.append(cond)
        self.solver.add(cond)
        if note:
            self.assumed.append(note)

    @property
    def hyps(self):
        return list(self.pc) + list(self.qs)

    def _feasible(self, extra):
        self.feas_checks += 1
        self.solver.push()
        self.solver.add(extra)
        from .ground import instantiate, collect, Q
        insts = []
        # feasibility pruning only uses the cheaply instantiable (triggered) schemas: fewer instances can only
        # keep more paths alive, never lose one
        qs = [q for q in self.qs if isinstance(q, Q) and q.trigger is not None]
        if qs:
            # ground instances of the schemas relevant to this query (keeps infeasible paths out)
            insts = instantiate(list(self.pc) + [extra], qs, rounds=2, cap=400)
        from .ground import _is_ground
        cls_terms = {}
        for t in collect(list(self.pc) + [extra] + insts):
            # (terms under a native quantifier mention bound variables: they are not ground instances)
            if z3.is_app(t) and t.sort() == Cls and _is_ground(t):
                cls_terms[t.get_id()] = t
        if cls_terms:
            insts = insts + class_theory_instances(list(cls_terms.values()))
        try:
            for inst in insts:
                self.solver.add(inst)
            r = self.solver.check()
        except z3.Z3Exception as e:
            raise Unsupported(f"solver error during path feasibility: {e}") from None
        finally:
            self.solver.pop()
        return r != z3.unsat   # unknown counts as feasible (sound: more paths, never fewer)

    def branch(self, cond) -> bool:
        """Decide a symbolic condition on this path; registers the alternative for exploration."""
        if isinstance(cond, bool):
            return cond
        cond = z3.simplify(cond)
        if z3.is_true(cond):
            return True
        if z3.is_false(cond):
            return False
        k = len(self.taken)
        if k < len(self.prefix):
            choice = self.prefix[k]
        else:
            can_t = self._feasible(cond)
            can_f = self._feasible(z3.Not(cond))
            if can_t and can_f:
                choice = True
                self.alts.append(self.taken + [False])
            elif can_t:
                choice = True
            elif can_f:
                choice = False
            else:
                raise Infeasible()
        self.taken.append(choice)
        c = cond if choice else z3.Not(cond)
        self.pc.append(c)
        self.solver.add(c)
        return choice


def explore(run_one, axioms=(), max_paths=4000, timeout_ms=2000, name_prefix=""):
    """Enumerate all feasible paths of ``run_one(path) -> result``.

    Returns a list of (path, result).  ``run_one`` is re-executed from scratch per path.
    """
    work = [[]]
    out = []
    while work:
        prefix = work.pop()
        p = Path(prefix, axioms=axioms, timeout_ms=timeout_ms, name_prefix=name_prefix)
        try:
            res = run_one(p)
        except Infeasible:
            continue
        out.append((p, res))
        work.extend(p.alts)
        if len(out) > max_paths:
            raise Unsupported(f"path explosion (> {max_paths} paths)")
    return out
