"""Environments and module-level name resolution over the real ASTs."""
from __future__ import annotations

import ast
import builtins
import importlib

from .core import ClassVal, Closure, Unsupported

_MISSING = object()


class Env:
    def __init__(self, parent=None, vars=None, module=None, owner=None, qual=""):
        self.parent = parent
        self.vars = dict(vars or {})
        self.module = module if module is not None else (parent.module if parent else None)
        self.owner = owner if owner is not None else (parent.owner if parent else None)
        self.qual = qual or (parent.qual if parent else "")

    def lookup(self, name):
        if name in self.vars:
            return self.vars[name]
        if self.parent is not None:
            return self.parent.lookup(name)
        return _MISSING

    def set(self, name, value):
        self.vars[name] = value

    def child(self, **kw):
        return Env(parent=self, **kw)

    def find(self, pred, what="variable"):
        """Name of the unique local variable (innermost scope first) whose current value satisfies `pred`: loop contracts locate
        the variables they talk about by *role* (what they hold), not by name, so renaming a local does not invalidate a contract."""
        e = self
        while e is not None:
            hits = [k for k, v in e.vars.items() if not k.startswith("$") and _safe(pred, v)]
            if len(hits) == 1:
                return hits[0]
            if len(hits) > 1:
                raise Unsupported(f"loop contract: {len(hits)} local variables hold a {what}: {sorted(hits)}")
            e = e.parent
        raise Unsupported(f"loop contract: no local variable holds a {what}")


def _safe(pred, v):
    try:
        return bool(pred(v))
    except Exception:
        return False


class ModRef:
    """A reference to an analysed (typelib) module."""

    def __init__(self, name):
        self.name = name

    def __repr__(self):
        return f"ModRef<{self.name}>"


class PropertyVal:
    def __init__(self, getter):
        self.getter = getter


class ModuleEnvs:
    """Lazily resolved global namespaces of analysed modules."""

    def __init__(self, interp):
        self.interp = interp
        self.src = interp.src
        self.cache: dict[tuple[str, str], object] = {}
        self.resolving: set = set()
        self.envs: dict[str, Env] = {}

    def env(self, modname) -> Env:
        if modname not in self.envs:
            self.envs[modname] = _ModEnv(self, modname)
        return self.envs[modname]

    def real_module(self, modname):
        return importlib.import_module(modname)

    def resolve(self, modname, name):
        key = (modname, name)
        if key in self.cache:
            return self.cache[key]
        stub = self.interp.stubs.get(f"{modname}.{name}")
        if stub is not None:
            try:
                stub.qualname = f"{modname}.{name}"       # lets the call site be checked against the real signature
            except Exception:
                pass
            self.cache[key] = stub
            return stub
        if key in self.resolving:
            raise Unsupported(f"cyclic module-level resolution of {modname}.{name}")
        self.resolving.add(key)
        try:
            v = self._resolve(modname, name)
        finally:
            self.resolving.discard(key)
        if v is not _MISSING:
            self.cache[key] = v
        return v

    def _resolve(self, modname, name):
        found = None
        for s in self.src.toplevel(modname):
            if isinstance(s, (ast.FunctionDef, ast.ClassDef)) and s.name == name:
                found = s
            elif isinstance(s, ast.Assign):
                for t in s.targets:
                    if isinstance(t, ast.Name) and t.id == name:
                        found = s
                    elif isinstance(t, ast.Tuple):
                        for el in t.elts:
                            if isinstance(el, ast.Name) and el.id == name:
                                found = s
            elif isinstance(s, ast.AnnAssign) and isinstance(s.target, ast.Name) \
                    and s.target.id == name and s.value is not None:
                found = s
            elif isinstance(s, ast.Import):
                for a in s.names:
                    bound = a.asname or a.name.split(".")[0]
                    if bound == name:
                        found = ("import", a.name if a.asname else a.name.split(".")[0])
            elif isinstance(s, ast.ImportFrom):
                for a in s.names:
                    if (a.asname or a.name) == name:
                        base = s.module or ""
                        if s.level:
                            pkg = modname.rsplit(".", s.level)[0]
                            base = f"{pkg}.{base}" if base else pkg
                        found = ("from", base, a.name)
                    elif a.name == "*":
                        base = s.module
                        if self.src.has(base):
                            v = self.resolve(base, name)
                            if v is not _MISSING:
                                found = ("value", v)
        if found is None:
            # fall back to the imported module object (the code that runs)
            try:
                real = self.real_module(modname)
            except Exception:
                return _MISSING
            if hasattr(real, name):
                return getattr(real, name)
            return _MISSING
        env = self.env(modname)
        if isinstance(found, tuple):
            if found[0] == "value":
                return found[1]
            if found[0] == "import":
                target = found[1]
                return ModRef(target) if self.src.has(target) else self.real_module(target)
            _, base, attr = found
            if self.src.has(f"{base}.{attr}"):
                return ModRef(f"{base}.{attr}")
            if self.src.has(base):
                v = self.resolve(base, attr)
                if v is _MISSING:
                    raise Unsupported(f"cannot resolve {base}.{attr}")
                return v
            try:
                real = self.real_module(base)
                return getattr(real, attr)
            except Exception:
                try:
                    return self.real_module(f"{base}.{attr}")
                except Exception:
                    raise Unsupported(f"cannot import {base}.{attr}")
        if isinstance(found, ast.FunctionDef):
            return self.interp.make_function(found, env, f"{modname}.{name}", modname)
        if isinstance(found, ast.ClassDef):
            return self.interp.make_class(found, env, f"{modname}.{name}", modname)
        # assignment: evaluate in module env on a scratch concrete path
        val = self.interp.eval_module_level(found.value, env)
        tgt = found.targets[0] if isinstance(found, ast.Assign) else found.target
        if isinstance(tgt, ast.Tuple):
            idx = [el.id for el in tgt.elts].index(name)
            return val[idx]
        return val


class _ModEnv(Env):
    def __init__(self, mods: ModuleEnvs, modname):
        super().__init__(parent=None, module=modname, qual=modname)
        self.mods = mods

    def lookup(self, name):
        if name in self.vars:
            return self.vars[name]
        v = self.mods.resolve(self.module, name)
        if v is not _MISSING:
            return v
        if hasattr(builtins, name):
            return getattr(builtins, name)
        return _MISSING
