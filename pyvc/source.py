"""Loading the real source: every run parses the current working tree."""
from __future__ import annotations

import ast
import os
import sys

SRC_ROOT = os.environ.get("TYPELIB_SRC", "/repo/src")


class Source:
    def __init__(self, root: str | None = None):
        self.root = root or SRC_ROOT
        self.mods: dict[str, ast.Module] = {}
        self.files: dict[str, str] = {}

    def path_of(self, modname: str) -> str | None:
        rel = modname.replace(".", "/")
        for cand in (f"{self.root}/{rel}.py", f"{self.root}/{rel}/__init__.py"):
            if os.path.exists(cand):
                return cand
        return None

    def has(self, modname: str) -> bool:
        return self.path_of(modname) is not None

    def module(self, modname: str) -> ast.Module:
        if modname not in self.mods:
            p = self.path_of(modname)
            if p is None:
                raise KeyError(modname)
            with open(p) as f:
                text = f.read()
            self.files[modname] = p
            self.mods[modname] = ast.parse(text, filename=p)
        return self.mods[modname]

    def toplevel(self, modname: str):
        """Top-level statements with version/TYPE_CHECKING conditionals resolved for the
        running interpreter (the branch CPython would execute)."""
        out = []

        def walk(stmts):
            for s in stmts:
                if isinstance(s, ast.If):
                    v = _static_test(s.test)
                    if v is True:
                        walk(s.body)
                    elif v is False:
                        walk(s.orelse)
                    else:
                        out.append(s)
                elif isinstance(s, ast.Try):
                    walk(s.body)
                else:
                    out.append(s)
        walk(self.module(modname).body)
        return out

    def find_def(self, qualname: str):
        """qualname like 'typelib.binding.AnyParamKindBinding.__call__' ->
        (modname, [enclosing class nodes], node)."""
        parts = qualname.split(".")
        for k in range(len(parts), 0, -1):
            mod = ".".join(parts[:k])
            if self.has(mod):
                rest = parts[k:]
                break
        else:
            raise KeyError(qualname)
        body = self.toplevel(mod)
        chain = []
        node = None
        for i, name in enumerate(rest):
            found = None
            for s in body:
                if isinstance(s, (ast.FunctionDef, ast.ClassDef)) and s.name == name:
                    found = s      # last definition wins (overloads come first)
            if found is None:
                raise KeyError(qualname)
            node = found
            if i < len(rest) - 1:
                chain.append(found)
                body = found.body
        return mod, chain, node


def _static_test(test: ast.expr):
    src = ast.unparse(test)
    if "TYPE_CHECKING" in src:
        return False
    if "sys.version_info" in src:
        try:
            return bool(eval(src, {"sys": sys}))
        except Exception:
            return None
    return None
