"""Obligations, solver back ends, ledger, known findings, evidence, verdict lines."""
from __future__ import annotations

import json
import os
import subprocess
import sys
import tempfile
import time

import z3

ROOT = os.path.dirname(os.path.dirname(os.path.abspath(__file__)))
Z3_TIMEOUT_MS = int(os.environ.get("PYVC_Z3_TIMEOUT_MS", "10000"))
CVC5_TIMEOUT_S = int(os.environ.get("PYVC_CVC5_TIMEOUT_S", "20"))


class Ob:
    """One proof obligation: hyps |- goal."""

    def __init__(self, func, clause, path_id, hyps, goal, meta=None, expect="unsat"):
        self.func = func
        self.clause = clause
        self.path_id = path_id
        self.hyps = list(hyps)
        self.goal = goal
        self.meta = meta or {}
        self.expect = expect      # 'unsat' = must be discharged ; 'sat' = vacuity canary (must be satisfiable)
        self.result = None
        self.backend = None
        self.ms = 0.0
        self.model = None
        self.reason = ""

    @property
    def key(self):
        return f"{self.func} :: {self.clause}"

    @property
    def id(self):
        return f"{self.func} :: {self.clause} :: {self.path_id}"

    def smt2(self):
        s = z3.Solver()
        for a in prepare(self):
            s.add(a)
        return s.to_smt2()


def _cvc5_check(smt2_text: str):
    exe = "/usr/bin/cvc5"
    if not os.path.exists(exe):
        return "unknown", "cvc5 missing"
    with tempfile.NamedTemporaryFile("w", suffix=".smt2", delete=False) as f:
        f.write("(set-logic ALL)\n" + smt2_text)
        p = f.name
    try:
        r = subprocess.run([exe, "--tlimit", str(CVC5_TIMEOUT_S * 1000), "--full-saturate-quant", p],
                           capture_output=True, text=True, timeout=CVC5_TIMEOUT_S + 5)
        out = (r.stdout or "").strip().splitlines()
        verdict = out[0].strip() if out else "unknown"
        if verdict not in ("sat", "unsat"):
            verdict = "unknown"
        return verdict, (r.stdout + r.stderr)[:400]
    except Exception as e:
        return "unknown", f"cvc5 error {e}"
    finally:
        os.unlink(p)


_SK = [0]


def _fresh(base, sort):
    _SK[0] += 1
    return z3.Const(f"{base}!sk{_SK[0]}", sort)


def prepare(ob: Ob):
    """Skolemise the goal, instantiate the schemas: returns the quantifier-free assertion list."""
    from .ground import Q, instantiate, collect
    from .core import ClassTheory, class_theory_instances, Cls
    use_classes = any(isinstance(h, ClassTheory) for h in ob.hyps)
    ground = [h for h in ob.hyps if not isinstance(h, (Q, ClassTheory))]
    schemas = [h for h in ob.hyps if isinstance(h, Q)]
    goals = ob.goal if isinstance(ob.goal, (list, tuple)) else [ob.goal]
    gs = [g.skolem(_fresh) if isinstance(g, Q) else g for g in goals]
    goal = z3.And(*gs) if len(gs) != 1 else gs[0]
    target = z3.Not(goal) if ob.expect == "unsat" else goal
    insts = instantiate(ground + [target], schemas)
    if use_classes:
        terms = {}
        from .ground import _is_ground
        for t in collect(ground + insts + [target]):
            if z3.is_app(t) and t.sort() == Cls and _is_ground(t):
                terms[t.get_id()] = t
        insts = insts + class_theory_instances(list(terms.values()))
    ob.meta["instances"] = len(insts)
    return ground + insts + [target]


def _discharge_split(ob: Ob):
    """A conjunctive goal checked conjunct by conjunct over one shared instantiation of the hypotheses
    (the schemas are instantiated once over the terms of all skolemised conjuncts)."""
    from .ground import Q, instantiate
    t0 = time.time()
    ground = [h for h in ob.hyps if not isinstance(h, Q)]
    schemas = [h for h in ob.hyps if isinstance(h, Q)]
    targets = [(getattr(g, "name", None) or f"#{i}", z3.Not(g.skolem(_fresh) if isinstance(g, Q) else g)) for i, g in enumerate(ob.goal)]
    insts = instantiate(ground + [t for _n, t in targets], schemas)
    ob.meta["instances"] = len(insts)
    ob.meta["queries"] = len(targets)
    s = z3.Solver()
    s.set("timeout", Z3_TIMEOUT_MS)
    for a in ground + insts:
        s.add(a)
    ob.backend = "z3-" + z3.get_version_string()
    ob.result = "unsat"
    failed = []
    for name, t in targets:
        s.push()
        s.add(t)
        r = s.check()
        if r == z3.unsat:
            s.pop()
            continue
        if r == z3.sat:
            verdict = "sat"
            if ob.model is None:
                ob.model = s.model()
        else:
            ob.reason = s.reason_unknown()
            verdict, txt = _cvc5_check(s.to_smt2())
            ob.backend = "cvc5-1.0.3 (after z3 unknown: %s)" % ob.reason
            ob.reason += " | cvc5: " + txt[:200]
        if verdict != "unsat":
            failed.append(name)
            if ob.result == "unsat":
                ob.result = verdict
                ob.smt2_text = s.to_smt2()
        s.pop()
    if failed:
        ob.meta["failed_conjuncts"] = failed
    else:
        ob.smt2_text = None
    ob._smt2 = None
    ob.ms = (time.time() - t0) * 1000.0
    return ob


def discharge(ob: Ob, second_solver=False):
    if ob.meta.get("split") and isinstance(ob.goal, (list, tuple)) and ob.expect == "unsat" and not any(isinstance(h, __import__("pyvc.core", fromlist=["ClassTheory"]).ClassTheory) for h in ob.hyps):
        return _discharge_split(ob)
    t0 = time.time()
    s = z3.Solver()
    s.set("timeout", Z3_TIMEOUT_MS)
    for a in prepare(ob):
        s.add(a)
    ob._smt2 = None
    r = s.check()
    ob.backend = "z3-" + z3.get_version_string()
    if r == z3.unsat:
        ob.result = "unsat"
    elif r == z3.sat:
        ob.result = "sat"
        ob.model = s.model()
    else:
        ob.reason = s.reason_unknown()
        verdict, txt = _cvc5_check(s.to_smt2())
        ob.backend = "cvc5-1.0.3 (after z3 unknown: %s)" % ob.reason
        ob.result = verdict
        ob.reason += " | cvc5: " + txt[:200]
    if second_solver and ob.result == "unsat" and ob.backend.startswith("z3") and ob.expect == "unsat":
        verdict, txt = _cvc5_check(s.to_smt2())
        ob.meta["cvc5_recheck"] = verdict
    ob.smt2_text = s.to_smt2() if (ob.result != "unsat" or ob.meta.get("keep_smt2")) else None
    ob.ms = (time.time() - t0) * 1000.0
    return ob


_POOL_OBS = None


def _model_text(ob):
    if ob.model is None:
        return None
    try:
        return {str(d): str(ob.model[d]) for d in ob.model.decls()[:60] if d.arity() == 0}
    except Exception:
        return str(ob.model)[:2000]


def _pool_job(i):
    obs, second = _POOL_OBS
    ob = obs[i]
    discharge(ob, second_solver=second)
    extra = {k: v for k, v in ob.meta.items() if k in ("instances", "cvc5_recheck")}
    return i, (ob.result, ob.backend, ob.ms, ob.reason, extra)


def cover_hyps(results, extra=()):
    """Hypotheses for a reachability cover of an analysed function: those of the first explored path that are satisfiable
    (paths are explored in source order, so a harmless reordering of branches must not turn the cover of a *feasible*
    function into a vacuity alarm).  Falls back to the first path's, so that a function none of whose paths is
    satisfiable still fails its cover."""
    for res in results:
        hy = list(res[0].hyps) + list(extra)
        c = Ob("cover-probe", "cover", "probe", hy, z3.BoolVal(True), expect="sat")
        try:
            discharge(c)
        except Exception:
            continue
        if c.result == "sat":
            return hy
    return list(results[0][0].hyps) + list(extra)


CURRENT = None
LAST_FUNC = None        # the function most recently handed to Interp.run_function
OUTCOMES: dict = {}     # function -> outcome kinds of every path Interp.run_function explored for it in this process


class Check:
    """One run of one property's check."""

    def abort_unsupported(self, qualname, reason):
        """A contract clause could not even be *stated* over the function's result (an engine limit met after
        interpretation, e.g. the function now returns a shape the clause cannot be lowered over): every ledger clause of
        that function is undischarged, with the engine's reason attached; never a crash."""
        self.aborted_on = qualname
        ledger = self.load_ledger() or {"clauses": {}}
        have = {ob.key for ob in self.obs if ob.expect == "unsat"}
        hit = 0
        for k in ledger["clauses"]:
            func, clause = k.split(" :: ", 1)
            if func == qualname:
                ob = Ob(func, clause, "clause-not-expressible", [], z3.BoolVal(False), {"engine": reason[:300]})
                ob.result, ob.backend = "sat", "none (engine limit at clause time)"
                self.obs.append(ob)
                hit += 1
        if not hit:
            self.errors.append(f"engine limit while stating the clauses of {qualname}: {reason[:200]}")
        self.resolve_failures(None)
        return self.finish()

    def abort_missing(self, qualname):
        """A function under contract is gone from the source: every ledger clause about it is undischarged (a violation
        naming that clause); the rest of the run was cut short, so clauses of other functions that were not reached
        are not reported as checker errors."""
        self.aborted_on = qualname
        ledger = self.load_ledger() or {"clauses": {}}
        hit = 0
        for k in ledger["clauses"]:
            func, clause = k.split(" :: ", 1)
            if func == qualname or func.startswith(qualname + ".") or qualname.startswith(func + "."):
                ob = Ob(func, clause, "function-missing", [], z3.BoolVal(False),
                        {"note": f"{qualname} is no longer defined in the current source (removed or renamed): "
                                 "its contract cannot be discharged"})
                ob.result, ob.backend = "sat", "none (structural)"
                self.obs.append(ob)
                hit += 1
        if not hit:
            self.errors.append(f"function {qualname} is not defined in the current source and no ledger clause names it")
        self.resolve_failures(None)
        return self.finish()

    def __init__(self, prop, tier="quick", seed=0):
        self.prop = prop
        self.tier = tier
        self.seed = seed
        self.t0 = time.time()
        self.obs: list[Ob] = []
        self.functions: set[str] = set()
        self.trusted: set[str] = set()
        self.assumptions: list[str] = []
        self.bounded: list[dict] = []
        self.kf_lines: list[str] = []
        self.violations: list[dict] = []
        self.errors: list[str] = []
        self.samples: list = []
        self.notes: list[str] = []
        self.vacuity = {"canaries": 0, "covers": 0}
        self.extra_coverage: dict = {}
        self.aborted_on = None
        global CURRENT
        CURRENT = self

    # -------------------------------------------------------------- obligations
    def add(self, ob: Ob):
        self.obs.append(ob)
        if "[" not in ob.func:
            self.functions.add(ob.func)
        return ob

    def discharge_all(self):
        todo = [i for i, ob in enumerate(self.obs) if ob.result is None]
        jobs = int(os.environ.get("PYVC_JOBS", "16"))
        second = self.tier == "thorough"
        if jobs <= 1 or len(todo) < 8:
            for i in todo:
                discharge(self.obs[i], second_solver=second)
            return
        import multiprocessing as mp
        global _POOL_OBS
        _POOL_OBS = (self.obs, second)
        ctx = mp.get_context("fork")
        with ctx.Pool(min(jobs, len(todo))) as pool:
            for i, res in pool.imap_unordered(_pool_job, todo, chunksize=1 if len(todo) < 400 else 4):
                ob = self.obs[i]
                ob.result, ob.backend, ob.ms, ob.reason, extra = res
                ob.meta.update(extra)
        # failed obligations are re-run in-process so that their model is available for replay
        for ob in self.obs:
            if ob.expect == "unsat" and ob.result == "sat":
                discharge(ob)

    def clause_status(self):
        """Roll up path obligations to function::clause."""
        st: dict[str, str] = {}
        for ob in self.obs:
            if ob.expect != "unsat":
                continue
            k = ob.key
            ok = ob.result == "unsat"
            if k not in st:
                st[k] = "discharged" if ok else "failed"
            elif not ok:
                st[k] = "failed"
        return st

    # -------------------------------------------------------------- ledger / known findings
    def ledger_path(self):
        return os.path.join(ROOT, "ledger", f"{self.prop}.json")

    def load_ledger(self):
        p = self.ledger_path()
        if os.path.exists(p):
            return json.load(open(p))
        return None

    def write_ledger(self):
        os.makedirs(os.path.join(ROOT, "ledger"), exist_ok=True)
        st = self.clause_status()
        json.dump({"property": self.prop, "clauses": {k: v for k, v in sorted(st.items())}},
                  open(self.ledger_path(), "w"), indent=1)

    @staticmethod
    def known_findings(prop):
        p = os.path.join(ROOT, "known_findings.json")
        if not os.path.exists(p):
            return []
        data = json.load(open(p))
        return [f for f in data.get("findings", []) if f.get("property") == prop and f.get("status") == "open"]

    def known_witness(self, fid, fn, label):
        """Replay the witness of a (possibly) known finding on the real code.  `fn()` returns a description of the failure,
        or None when the code no longer fails.  Listed (status open) -> KNOWN-FINDING line; not listed -> a violation."""
        bad = fn()
        kf = [k for k in Check.known_findings(self.prop) if k["id"] == fid]
        if bad and kf:
            self.kf_lines.append(f"KNOWN-FINDING: property={self.prop} {kf[0]['print']}")
        elif bad:
            self.violation(f"bounded-cross-check :: {label}", {"found": True, "kind": "known-witness", "witness": fid, "bad": bad}, True)
        self.bounded.append({"name": f"witness replay on the real code: {label}", "evaluations": 1, "still_fails": bool(bad),
                             "failures": 1 if (bad and not kf) else 0})
        return bad

    # -------------------------------------------------------------- replays
    def write_replay(self, name, payload):
        d = os.path.join(ROOT, "replays", self.prop)
        os.makedirs(d, exist_ok=True)
        p = os.path.join(d, name + ".json")
        payload = dict(payload)
        payload["property"] = self.prop
        json.dump(payload, open(p, "w"), indent=1, default=str)
        return p

    def violation(self, obligation, replay_payload, found_input: bool):
        name = "viol_" + "".join(c if c.isalnum() else "_" for c in obligation)[:120]
        used = self.__dict__.setdefault("_replay_names", {})
        used[name] = used.get(name, 0) + 1
        if used[name] > 1:          # several violations of one obligation (distinct inputs): one replay file each
            name = f"{name}__{used[name]}"
        payload = dict(replay_payload)
        payload["obligation"] = obligation
        p = self.write_replay(name, payload)
        self.violations.append({"obligation": obligation, "replay": p, "found_input": found_input})

    # -------------------------------------------------------------- failures -> violations
    def resolve_failures(self, searcher=None):
        """Every clause that the ledger lists as discharged and that is not discharged now is a
        violation.  `searcher(ob)` tries to produce a concrete failing input on the real code
        (replaying the solver's candidate model and/or a bounded search) and returns a payload
        dict with key 'found' (bool)."""
        ledger0 = self.load_ledger() or {"clauses": {}}
        # vacuity of a whole function: a function under contract all of whose explored paths raise satisfies every
        # "whenever it returns ..." clause trivially.  Every function that returned on some path when the ledger was written
        # carries the clause below; a change after which no path returns any more fails it by name (seed r4-C03-1).
        for func in sorted({ob.func for ob in self.obs if ob.expect == "unsat"}):
            kinds = OUTCOMES.get(func)
            if not kinds:
                continue
            key = f"{func} :: some-call-returns-normally"
            if "ret" in kinds:
                self.add(Ob(func, "some-call-returns-normally", "any", [], z3.BoolVal(True), {"paths": len(kinds)}))
            elif key in ledger0["clauses"]:
                self.add(Ob(func, "some-call-returns-normally", "all-paths", [], z3.BoolVal(False),
                            {"outcomes": sorted(set(kinds)), "note": "every explored path of the function raises or is cut off"}))
        self.discharge_all()
        st = self.clause_status()
        ledger = self.load_ledger() or {"clauses": {}}
        update = os.environ.get("PYVC_UPDATE_LEDGER") == "1"
        # a ledger clause that this run did not generate, although its function was analysed, means the
        # function's control flow no longer reaches that obligation: undischarged, not a checker error
        funcs_now = {ob.func for ob in self.obs}
        # a nested function is analysed through its enclosing function
        funcs_now |= {k.split(" :: ")[0] for k in ledger["clauses"]
                      if ".<locals>." in k.split(" :: ")[0] and k.split(" :: ")[0].split(".<locals>.")[0] in funcs_now}
        self.missing_handled = set()
        if not update:
            for k in ledger["clauses"]:
                # (a clause of a function that produced no obligation at all is undischarged in the same way: the checks
                #  generate every clause of a function they analyse, so on the unchanged tree this cannot happen)
                if k not in st and (k.split(" :: ")[0] in funcs_now or self.aborted_on is None):
                    func, clause = k.split(" :: ", 1)
                    ob = Ob(func, clause, "not-generated", [], z3.BoolVal(False),
                            {"note": "obligation present in the ledger was not generated from the current source "
                                     "(the function no longer reaches it, or could not be analysed at all)"})
                    ob.result, ob.backend = "sat", "none (structural)"
                    self.obs.append(ob)
                    st[k] = "failed"
                    self.missing_handled.add(k)
        # loop-init / loop-preserve obligations are lemmas towards a function's other clauses, not ends in themselves: when the
        # loop they belong to is gone from the source (not generated) and every other ledger clause of that function was
        # generated and discharged in this run, the function still meets its contract - by another route - and nothing is reported
        for k in list(st):
            func, clause = k.split(" :: ", 1)
            if st.get(k) == "failed" and k in self.missing_handled and clause.startswith(("loop-init:", "loop-preserve:")):
                others = [k2 for k2 in ledger["clauses"] if k2.split(" :: ", 1)[0] == func
                          and not k2.split(" :: ", 1)[1].startswith(("loop-init:", "loop-preserve:"))]
                if others and all(st.get(k2) == "discharged" for k2 in others):
                    st.pop(k)
                    self.__dict__.setdefault("waived", set()).add(k)
                    self.obs = [o for o in self.obs if not (o.key == k and o.path_id == "not-generated")]
                    self.notes.append(f"{k}: the loop is no longer in the source; the function's other clauses are all discharged")
        for k, v in st.items():
            if v == "discharged":
                continue
            want = ledger["clauses"].get(k)
            failed = [ob for ob in self.obs if ob.key == k and ob.expect == "unsat" and ob.result != "unsat"]
            ob = failed[0]
            if want is None and not update:
                self.errors.append(f"clause {k} is not discharged and is not in the ledger (undecided)")
                continue
            payload = {"found": False}
            if searcher is not None:
                try:
                    payload = searcher(ob) or {"found": False}
                except Exception as e:    # a crashing searcher must not hide the failed obligation
                    payload = {"found": False, "searcher_error": repr(e)}
            payload.setdefault("solver", {})
            payload["solver"].update({"result": ob.result, "backend": ob.backend, "reason": ob.reason,
                                      "model": _model_text(ob)})
            payload["failed_paths"] = [o.id for o in failed]
            fc = sorted({c for o in failed for c in o.meta.get("failed_conjuncts", [])})
            if fc:
                payload["failed_conjuncts"] = fc
            self.violation(ob.id, payload, bool(payload.get("found")))

    # -------------------------------------------------------------- finishing
    def finish(self, level="proof", explanation=None):
        self.discharge_all()
        st = self.clause_status()
        ledger = self.load_ledger()
        update = os.environ.get("PYVC_UPDATE_LEDGER") == "1"
        failed_canaries = [ob for ob in self.obs if ob.expect == "sat" and ob.result != "sat"]
        for ob in failed_canaries:
            self.errors.append(f"vacuity: canary/cover {ob.id} is {ob.result} (expected sat)")
        if not [ob for ob in self.obs if ob.expect == "unsat"] and level == "proof":
            self.errors.append("no obligations generated")
        if ledger is not None and not update and self.aborted_on is None:
            for k, want in ledger["clauses"].items():
                if k not in st and k not in self.__dict__.get("waived", ()):
                    self.errors.append(f"ledger clause not generated (function not analysed at all): {k}")
        if self.aborted_on is not None:
            self.notes.append(f"run cut short: {self.aborted_on} is not defined in the current source; obligations of "
                              "functions analysed after it were not generated")
        if update:
            self.write_ledger()
        n_ob = len([o for o in self.obs if o.expect == "unsat"])
        n_ok = len([o for o in self.obs if o.expect == "unsat" and o.result == "unsat"])
        solver_s = sum(o.ms for o in self.obs) / 1000.0
        per_ob = [{"id": o.id, "backend": o.backend, "result": o.result, "ms": round(o.ms, 1)} for o in self.obs]
        if not self.samples:
            for o in self.obs[:2]:
                self.samples.append({"obligation": o.id, "smt2_head": o.smt2()[:1500]})
        cov = {
            "obligations": n_ob, "discharged": n_ok,
            "checker_cmd": " ".join(sys.argv),
            "trusted_base": sorted(self.trusted),
            "functions_under_contract": sorted(self.functions),
            "clauses": st,
            "per_obligation": per_ob,
            "solver_time_s": round(solver_s, 3),
            "vacuity_checks": {"canaries_and_covers": len([o for o in self.obs if o.expect == "sat"]),
                               "failed": len(failed_canaries)},
            "bounded_checks": self.bounded,
            "known_findings_reported": self.kf_lines,
            "samples": self.samples[:6],
            "notes": self.notes,
        }
        cov.update(self.extra_coverage)
        if explanation:
            cov["explanation"] = explanation
        ev = {
            "property_id": self.prop, "tier": self.tier, "seed": self.seed, "level": level,
            "coverage": cov, "assumptions": self.assumptions, "wall_s": round(time.time() - self.t0, 2),
            "violations": len(self.violations),
        }
        os.makedirs(os.path.join(ROOT, "evidence"), exist_ok=True)
        json.dump(ev, open(os.path.join(ROOT, "evidence", f"{self.prop}.json"), "w"), indent=1, default=str)
        for line in self.kf_lines:
            print(line)
        if self.errors:
            for e in self.errors:
                print(f"CHECKER-ERROR property={self.prop} {e}", file=sys.stderr)
            print(f"{self.prop}: checker failure (exit 3): {len(self.errors)} error(s)")
            return 3
        if self.violations:
            for v in self.violations:
                tail = "" if v["found_input"] else " no-failing-input-found"
                print(f"VIOLATION property={self.prop} replay={v['replay']}{tail}")
            return 1
        print(f"{self.prop}: ok  obligations={n_ob} discharged={n_ok} functions={len(self.functions)} "
              f"solver={solver_s:.2f}s wall={time.time() - self.t0:.1f}s tier={self.tier}")
        return 0
