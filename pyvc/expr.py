"""Expression evaluation (symbolic)."""
from __future__ import annotations

import ast

import z3

from .core import (SV, SInt, SBool, SSeq, SDict, Obj, Closure, ClassVal, Stub, PyRaise, Unsupported,
                   Val, VNone, VInt, VStr, VBool, is_VNone, cls_of, sub, cls_const, to_val, to_int,
                   to_bool_term, seq_len, seq_at, IntS, BoolS, Cls)
from .env import Env, ModRef, PropertyVal, _MISSING


class SCls:
    """A symbolic class value (term of sort Cls)."""
    __slots__ = ("t",)

    def __init__(self, t):
        self.t = t

    def __repr__(self):
        return f"SCls({self.t})"

    def as_val(self):
        from .core import cls_val
        return cls_val(self.t)


class SText:
    """Structured text: a concrete list of atoms (see DESIGN 2.4).
    atoms: ('lit', str) | ('dec', z3 Int) | ('dec6', z3 Int) | ('opaque', Val term)"""
    __slots__ = ("atoms",)

    def __init__(self, atoms):
        self.atoms = list(atoms)

    def __repr__(self):
        return f"SText({self.atoms})"


class BoundMethod:
    def __init__(self, recv, name):
        self.recv = recv
        self.name = name

    def __repr__(self):
        return f"BoundMethod<{self.name} of {self.recv!r}>"

    def as_val(self):
        # used as a plain value (a data attribute of an opaque object)
        from .core import attr_uf
        if isinstance(self.recv, SV):
            return attr_uf(self.name)(self.recv.t)
        raise Unsupported(f"attribute {self.name} of {self.recv!r} used as a value")


class SuperProxy:
    def __init__(self, obj, after_cls):
        self.obj = obj
        self.after_cls = after_cls


def z3_min(a, b):
    return z3.If(a <= b, a, b)


def z3_max(a, b):
    return z3.If(a >= b, a, b)


def _len_term(n):
    return z3.IntVal(n) if isinstance(n, int) else n


def seq_of(x):
    """View a host value as SSeq if it is sequence-like."""
    if isinstance(x, SSeq):
        return x
    if isinstance(x, (tuple, list)):
        items = list(x)
        return SSeq(len(items), lambda i, items=items: _index_concrete(items, i),
                    "tuple" if isinstance(x, tuple) else "list")
    return None


def _index_concrete(items, i):
    if isinstance(i, int):
        return items[i]
    t = z3.simplify(to_int(i))
    if z3.is_int_value(t):
        return items[t.as_long()]
    if not items:
        raise Unsupported("index into empty concrete sequence")
    # merge by ite over positions (all items must lower to Val)
    vals = [to_val(v) for v in items]
    acc = vals[-1]
    for k in range(len(vals) - 2, -1, -1):
        acc = z3.If(t == k, vals[k], acc)
    return SV(acc)


def concat_seqs(parts, kind):
    """parts: list of SSeq. Returns closure concatenation."""
    if len(parts) == 1:
        p = parts[0]
        return SSeq(p.length, p.at, kind, p.elem_raises)
    total = 0
    offs = []
    for p in parts:
        offs.append(total)
        total = total + p.length if not (isinstance(total, int) and isinstance(p.length, int)) \
            else total + p.length
    if all(isinstance(p.length, int) for p in parts):
        items = []
        for p in parts:
            items.extend(p.at(i) for i in range(p.length))
        return SSeq(len(items), lambda i, items=items: _index_concrete(items, i), kind)

    def at(i):
        it = to_int(i)
        # choose the part by offset comparisons; all must lower to Val
        acc = None
        for p, off in reversed(list(zip(parts, offs))):
            e = p.at(SInt(it - _len_term(off)) if not isinstance(off, int) or off != 0 else SInt(it))
            v = tuple(to_val(x) for x in e) if isinstance(e, tuple) else to_val(e)
            if acc is None:
                acc = v
            elif isinstance(v, tuple) != isinstance(acc, tuple) or (isinstance(v, tuple) and len(v) != len(acc)):
                raise Unsupported("concatenation of sequences with differently shaped elements")
            else:
                c = it < _len_term(off) + _len_term(p.length)
                acc = tuple(z3.If(c, a, b) for a, b in zip(v, acc)) if isinstance(v, tuple) else z3.If(c, v, acc)
        return tuple(SV(a) for a in acc) if isinstance(acc, tuple) else SV(acc)

    def raises(i):
        it = to_int(i)
        acc = z3.BoolVal(False)
        for p, off in reversed(list(zip(parts, offs))):
            r = p.elem_raises(SInt(it - _len_term(off))) if p.elem_raises else z3.BoolVal(False)
            acc = z3.If(it < _len_term(off) + _len_term(p.length), r, acc)
        return acc
    has_r = any(p.elem_raises for p in parts)
    return SSeq(total, at, kind, raises if has_r else None)


class ExprMixin:
    def poison(self, path, exc, boolean=False):
        """A lazily evaluated element (comprehension body, filter) hit an engine limit *after* the interpretation of the path
        finished, i.e. while a contract clause was being stated over it.  While interpreting, the limit propagates (the path is
        reported `unsupported`); afterwards the element becomes a fresh unconstrained term: every clause that depends on it is then
        unprovable (reported undischarged), instead of the whole check crashing.  Never used to make anything provable."""
        if getattr(self, "interpreting", 0):
            raise exc
        self.poisoned = getattr(self, "poisoned", []) + [str(exc)]
        if boolean:
            return path.fresh("poison_b", z3.BoolSort())
        return SV(path.fresh("poison"))

    # ------------------------------------------------------------------ dispatcher
    def eval(self, node, env: Env, path, merge=False):
        ec = getattr(self, "expr_contracts", None)
        if ec and isinstance(node, (ast.SetComp, ast.ListComp, ast.DictComp, ast.GeneratorExp, ast.Call)):
            # an expression taken by contract: only if it is, textually, the expression the contract was written for
            h = ec.get(ast.unparse(node))
            if h is not None:
                return h(self, env, path)
            h2 = self._expr_contract_modulo_names(ec, node, env, path)
            if h2 is not None:
                return h2()
        m = getattr(self, "e_" + node.__class__.__name__, None)
        if m is None:
            raise Unsupported(f"expression {node.__class__.__name__} at line {getattr(node, 'lineno', '?')}")
        return m(node, env, path, merge)

    def _expr_contract_modulo_names(self, ec, node, env, path):
        """An expression contract also applies when the expression differs from its text only in (a) a name bound to a
        constant tuple / string / number standing where the contract has the literal, and (b) the name of the one variable a
        contract marks as its subject with '\u00a7' (the handler then receives the value of that variable as `subject`)."""
        import copy as _copy
        bound = {n.id for g in ast.walk(node) if isinstance(g, ast.comprehension) for n in ast.walk(g.target) if isinstance(n, ast.Name)}
        free = []
        for n in ast.walk(node):
            if isinstance(n, ast.Name) and n.id not in bound and n.id not in free:
                free.append(n.id)
        consts = {}
        for nm in free:
            v = env.lookup(nm)
            if isinstance(v, (str, int)) and not isinstance(v, bool) or (isinstance(v, tuple) and v and all(isinstance(x, str) for x in v)):
                consts[nm] = v

        class Sub(ast.NodeTransformer):
            def __init__(self, subject):
                self.subject = subject

            def visit_Name(self, n):
                if n.id == self.subject:
                    return ast.copy_location(ast.Name(id="\u00a7", ctx=n.ctx), n)
                if n.id in consts and isinstance(n.ctx, ast.Load):
                    v = consts[n.id]
                    lit = ast.Tuple(elts=[ast.Constant(value=x) for x in v], ctx=ast.Load()) if isinstance(v, tuple) else ast.Constant(value=v)
                    return ast.copy_location(lit, n)
                return n
        for subject in [None] + [f for f in free if f not in consts]:
            key = ast.unparse(ast.fix_missing_locations(Sub(subject).visit(_copy.deepcopy(node))))
            h = ec.get(key)
            if h is not None:
                if subject is None:
                    return lambda: h(self, env, path)
                return lambda: h(self, env, path, subject=env.lookup(subject))
        return None

    def e_Constant(self, node, env, path, merge):
        return node.value

    def e_Name(self, node, env, path, merge):
        v = env.lookup(node.id)
        if v is _MISSING:
            import builtins
            if hasattr(builtins, node.id):
                return getattr(builtins, node.id)
            raise Unsupported(f"unbound name {node.id!r} (line {node.lineno})")
        return v

    def e_Attribute(self, node, env, path, merge):
        obj = self.eval(node.value, env, path, merge)
        return self.getattr(obj, node.attr, path, env)

    def getattr(self, obj, attr, path, env=None):
        hook = self.attr_hooks.get(attr)
        if hook is not None:
            r = hook(self, path, obj)
            if r is not _MISSING:
                return r
        if isinstance(obj, ModRef):
            v = self.mods.resolve(obj.name, attr)
            if v is _MISSING:
                if self.src.has(f"{obj.name}.{attr}"):
                    return ModRef(f"{obj.name}.{attr}")
                raise Unsupported(f"cannot resolve {obj.name}.{attr}")
            return v
        if isinstance(obj, Obj):
            if attr in obj.fields:
                return obj.fields[attr]
            if attr == "__class__":
                return obj.cls
            m = self.find_method(obj.cls, attr)
            if m is not None:
                if isinstance(m, PropertyVal):
                    return self.call_value(m.getter.bind(obj), [], {}, path)
                if isinstance(m, Closure):
                    return m.bind(obj)
                return m
            if obj.sym_fields is not None:
                v = obj.sym_fields(attr)
                if v is not _MISSING:
                    obj.fields[attr] = v
                    return v
            v = self.attr_from_init(obj, attr, path)
            if v is not _MISSING:
                obj.fields[attr] = v
                return v
            if not getattr(obj, "constructed", False):
                # the object was shaped by a contract, not built by executing its constructor: an attribute the contract does
                # not describe (and no `self.<attr> = ...` of an __init__ derives) is unknown, not absent - treating it as an
                # AttributeError made every clause of the reading function vacuously true (seed r4-C03-1).
                raise Unsupported(f"attribute {attr!r} of a contract-built {obj!r} is not described by the contract and cannot be derived from __init__")
            raise PyRaise(AttributeError, note=f"{obj!r} has no attribute {attr}")
        if isinstance(obj, SuperProxy):
            m = self.find_method(obj.after_cls, attr, skip_self=True)
            if m is None:
                raise Unsupported(f"super().{attr} not found")
            return m.bind(obj.obj)
        if isinstance(obj, ClassVal):
            if attr in ("__name__",):
                return obj.name
            if attr == "__qualname__":
                return obj.qualname.split(".", obj.module.count(".") + 1)[-1]
            m = self.find_method(obj, attr)
            if m is not None:
                return m
            if obj.pycls is not None and hasattr(obj.pycls, attr):
                return getattr(obj.pycls, attr)
            raise Unsupported(f"class attribute {obj.qualname}.{attr}")
        if isinstance(obj, (SDict, SSeq, SText)):
            return BoundMethod(obj, attr)
        if isinstance(obj, SV):
            if attr == "__class__":
                return SCls(cls_of(obj.t))
            h = self.sv_attr.get(attr)
            if h is not None:
                return h(self, path, obj)
            return BoundMethod(obj, attr)
        if isinstance(obj, SCls):
            h = self.scls_attr.get(attr)
            if h is not None:
                return h(self, path, obj)
            raise Unsupported(f"attribute {attr} of symbolic class")
        if isinstance(obj, (SInt, SBool)):
            raise Unsupported(f"attribute {attr} of symbolic int/bool")
        if isinstance(obj, Closure):
            if attr == "__name__":
                return obj.node.name if hasattr(obj.node, "name") else "<lambda>"
            raise Unsupported(f"attribute {attr} of function")
        if isinstance(obj, (dict, list, tuple, str, set, frozenset)) and attr in (
                "items", "keys", "values", "get", "append", "appendleft", "add", "pop", "popleft",
                "startswith", "split", "rsplit", "replace", "join", "setdefault", "update", "clear",
                "isdigit", "isdecimal", "strip", "encode", "decode", "union", "extend"):
            return BoundMethod(obj, attr)
        try:
            return getattr(obj, attr)
        except AttributeError:
            raise PyRaise(AttributeError, note=f"{obj!r}.{attr}")

    def attr_from_init(self, obj, attr, path):
        """An attribute a contract did not give the object but which some `__init__` of its class hierarchy sets as
        `self.<attr> = <expression over self and the constructor's own parameters>`: the expression is evaluated for this
        object (the parameters are the like-named attributes).  Moving work that does not depend on the call from `__call__`
        into the constructor therefore needs no contract change.  _MISSING when there is no such assignment or it cannot be
        evaluated that way."""
        if not isinstance(obj.cls, ClassVal) or getattr(self, "_deriving", None) == (id(obj), attr):
            return _MISSING
        for c in self.mro(obj.cls):
            init = c.members.get("__init__") if isinstance(c, ClassVal) else None
            if not isinstance(init, Closure):
                continue
            for st in init.node.body:
                tgt, val = None, None
                if isinstance(st, ast.Assign) and len(st.targets) == 1:
                    tgt, val = st.targets[0], st.value
                elif isinstance(st, ast.AnnAssign) and st.value is not None:
                    tgt, val = st.target, st.value
                if not (isinstance(tgt, ast.Attribute) and tgt.attr == attr and isinstance(tgt.value, ast.Name)):
                    continue
                params = [a.arg for a in init.node.args.posonlyargs + init.node.args.args + init.node.args.kwonlyargs]
                if not params or tgt.value.id != params[0]:
                    continue
                e2 = init.env.child()
                e2.set(params[0], obj)
                ok = True
                for nm in params[1:]:
                    if nm in obj.fields:
                        e2.set(nm, obj.fields[nm])
                    elif any(isinstance(n, ast.Name) and n.id == nm for n in ast.walk(val)):
                        ok = False
                if not ok:
                    return _MISSING
                self._deriving = (id(obj), attr)
                try:
                    return self.eval(val, e2, path)
                except (Unsupported, PyRaise):
                    return _MISSING
                finally:
                    self._deriving = None
        return _MISSING

    def find_method(self, cls, name, skip_self=False):
        if isinstance(cls, ClassVal):
            order = self.mro(cls)
            if skip_self:
                order = order[1:]
            for c in order:
                if isinstance(c, ClassVal):
                    if name in c.members:
                        return c.members[name]
                else:
                    if hasattr(c, name) and name in getattr(c, "__dict__", {}):
                        return getattr(c, name)
            return None
        return None

    def mro(self, cls: ClassVal):
        out = [cls]
        for b in cls.bases:
            if isinstance(b, ClassVal):
                for c in self.mro(b):
                    if c not in out:
                        out.append(c)
        return out

    # ------------------------------------------------------------------ containers
    def e_Tuple(self, node, env, path, merge):
        return self._display(node.elts, env, path, merge, "tuple")

    def e_List(self, node, env, path, merge):
        return self._display(node.elts, env, path, merge, "list")

    def _display(self, elts, env, path, merge, kind):
        if not any(isinstance(e, ast.Starred) for e in elts):
            vals = [self.eval(e, env, path, merge) for e in elts]
            return tuple(vals) if kind == "tuple" else vals
        parts = []
        for e in elts:
            if isinstance(e, ast.Starred):
                v = self.eval(e.value, env, path, merge)
                s = self.iter_seq(v, path)
                parts.append(s)
            else:
                v = self.eval(e, env, path, merge)
                parts.append(SSeq(1, lambda i, v=v: v, kind))
        for p in parts:
            self.materialise_raises(p, path)
        res = concat_seqs(parts, kind)
        if isinstance(res.length, int):
            items = [res.at(i) for i in range(res.length)]
            return tuple(items) if kind == "tuple" else items
        return res

    def materialise_raises(self, s: SSeq, path):
        """A lazily produced sequence is consumed here: element evaluation may raise."""
        if s.elem_raises is None:
            return
        self.on_elem_raises(s, path)
        s.elem_raises = None

    def on_elem_raises(self, s, path):
        # default policy: assume no element raises, record the assumption on the path
        j = path.fresh("j", IntS)
        n = _len_term(s.length)
        path.assume(z3.ForAll([j], z3.Implies(z3.And(j >= 0, j < n), z3.Not(s.elem_raises(SInt(j))))),
                    note="member routines return (no element raises)")

    def e_Dict(self, node, env, path, merge):
        if any(k is None for k in node.keys):
            # {**m}
            if len(node.keys) == 1:
                src = self.eval(node.values[0], env, path, merge)
                return self.copy_mapping(src, path)
            raise Unsupported("dict display with ** and other keys")
        d = {}
        for k, v in zip(node.keys, node.values):
            kk = self.eval(k, env, path, merge)
            d[self.hashable_key(kk)] = self.eval(v, env, path, merge)
        return d

    def hashable_key(self, k):
        if isinstance(k, (SV, SInt, SBool, SSeq, SDict)):
            raise Unsupported("symbolic key in concrete dict display")
        return k

    def copy_mapping(self, src, path):
        if isinstance(src, dict):
            return dict(src)
        if isinstance(src, SDict):
            return SDict(src.has, src.get, src.keyseq, src.arrays, src.exact)
        h = self.hooks.get("copy_mapping")
        if h:
            return h(self, path, src)
        raise Unsupported("{**x} of opaque value")

    def e_Set(self, node, env, path, merge):
        if any(isinstance(e, ast.Starred) for e in node.elts):
            # {*xs, ...}: only membership is modelled (a sequence of the same elements; hashing of elements not modelled)
            return self._display(node.elts, env, path, merge, "list")
        return {self.eval(e, env, path, merge) for e in node.elts}

    # ------------------------------------------------------------------ comprehensions
    def e_GeneratorExp(self, node, env, path, merge):
        return self._comp(node, env, path, "gen")

    def e_ListComp(self, node, env, path, merge):
        s = self._comp(node, env, path, "list")
        if isinstance(s, SSeq):
            self.materialise_raises(s, path)
            if isinstance(s.length, int):
                return [s.at(i) for i in range(s.length)]
        return s

    def e_SetComp(self, node, env, path, merge):
        s = self._comp(node, env, path, "list")
        if isinstance(s, SSeq) and isinstance(s.length, int):
            return {s.at(i) for i in range(s.length)}
        raise Unsupported("set comprehension over symbolic source")

    def _comp(self, node, env, path, kind):
        if len(node.generators) != 1:
            raise Unsupported("nested comprehension")
        gen = node.generators[0]
        src_v = self.eval(gen.iter, env, path, False)
        src = self.iter_seq(src_v, path)
        n = src.length
        if isinstance(n, int):
            # concrete unrolling (complete); filters allowed
            items = []
            for k in range(n):
                e2 = env.child()
                self.assign_target(gen.target, src.at(k), e2, path)
                ok = True
                for cond in gen.ifs:
                    c = self.eval(cond, e2, path, False)
                    if not self.truth(c, path):
                        ok = False
                        break
                if ok:
                    items.append(self.eval(node.elt, e2, path, False))
            return SSeq(len(items), lambda i, items=items: _index_concrete(items, i), kind)
        if gen.ifs:
            if kind == "gen":
                fg = FilteredGen(self, node, gen, env, src, path)
                fg.src_host = src_v          # the host value iterated over (before conversion to a sequence)
                return fg
            raise Unsupported("filtered comprehension over a symbolic-length source")
        if src.elem_raises is not None:
            self.materialise_raises(src, path)

        def at(i, node=node, gen=gen, env=env, src=src):
            try:
                e2 = env.child()
                self.assign_target(gen.target, src.at(i), e2, path)
                with self.elem_scope() as sc:
                    v = self.eval(node.elt, e2, path, True)
                return v
            except Unsupported as e:
                return self.poison(path, e)

        def raises(i, node=node, gen=gen, env=env, src=src):
            try:
                e2 = env.child()
                self.assign_target(gen.target, src.at(i), e2, path)
                with self.elem_scope() as sc:
                    self.eval(node.elt, e2, path, True)
                return sc.cond()
            except Unsupported as e:
                return self.poison(path, e, boolean=True)
        return SSeq(n, at, kind, raises)

    def e_DictComp(self, node, env, path, merge):
        if len(node.generators) != 1:
            raise Unsupported("nested dict comprehension")
        gen = node.generators[0]
        src_v = self.eval(gen.iter, env, path, False)
        h = self.hooks.get("dictcomp")
        if h is not None:
            r = h(self, node, env, path, src_v)
            if r is not _MISSING:
                return r
        # items view of a functional dict: pointwise image when the key expression is the key itself
        if isinstance(src_v, ItemsView):
            d = src_v.d
            tgt = gen.target
            if (isinstance(tgt, ast.Tuple) and len(tgt.elts) == 2 and isinstance(tgt.elts[0], ast.Name)
                    and isinstance(node.key, ast.Name) and node.key.id == tgt.elts[0].id):
                def bind(k):
                    e2 = env.child()
                    self.assign_target(tgt, (SV(k), d.get(k)), e2, path)
                    return e2

                def has(k):
                    c = d.has(k)
                    for cond in gen.ifs:
                        with self.elem_scope():
                            c = z3.And(c, to_bool_term(self.eval(cond, bind(k), path, True)))
                    return c

                def get(k):
                    with self.elem_scope():
                        return self.eval(node.value, bind(k), path, True)

                def raises_at(k):
                    with self.elem_scope() as sc:
                        self.eval(node.value, bind(k), path, True)
                    return z3.And(has(k), sc.cond())
                out = SDict(has, get, keyseq=d.keyseq if not gen.ifs else None)
                self.on_dict_raises(out, raises_at, path)
                return out
        src = self.iter_seq(src_v, path)
        if isinstance(src.length, int):
            out = {}
            for k in range(src.length):
                e2 = env.child()
                self.assign_target(gen.target, src.at(k), e2, path)
                if all(self.truth(self.eval(c, e2, path, False), path) for c in gen.ifs):
                    kk = self.eval(node.key, e2, path, False)
                    out[self.hashable_key(kk)] = self.eval(node.value, e2, path, False)
            return out
        h = self.hooks.get("dictcomp_seq")
        if h is not None:
            return h(self, node, env, path, src)
        raise Unsupported("dict comprehension over symbolic sequence")

    def on_dict_raises(self, d, raises_at, path):
        k = path.fresh("k", Val)
        path.assume(z3.ForAll([k], z3.Not(raises_at(k))), note="member routines return (no value raises)")

    # ------------------------------------------------------------------ operators
    def e_IfExp(self, node, env, path, merge):
        c = self.eval(node.test, env, path, merge)
        if merge:
            ct = z3.simplify(to_bool_term(c))
            if z3.is_true(ct):
                return self.eval(node.body, env, path, merge)
            if z3.is_false(ct):
                return self.eval(node.orelse, env, path, merge)
            with self.guard(ct):
                a = self.eval(node.body, env, path, merge)
            with self.guard(z3.Not(ct)):
                b = self.eval(node.orelse, env, path, merge)
            return self.merge_values(ct, a, b)
        if self.truth(c, path):
            return self.eval(node.body, env, path, merge)
        return self.eval(node.orelse, env, path, merge)

    def merge_values(self, ct, a, b):
        if isinstance(a, (SInt, int)) and isinstance(b, (SInt, int)) and not isinstance(a, bool) \
                and not isinstance(b, bool):
            return SInt(z3.If(ct, to_int(a), to_int(b)))
        if isinstance(a, (SBool, bool)) and isinstance(b, (SBool, bool)):
            return SBool(z3.If(ct, to_bool_term(a), to_bool_term(b)))
        if isinstance(a, SText) or isinstance(b, SText):
            raise Unsupported("merge of structured text")
        return SV(z3.If(ct, to_val(a), to_val(b)))

    def truth(self, v, path) -> bool:
        if isinstance(v, bool):
            return v
        if isinstance(v, (SV, SInt, SBool, SSeq)):
            return path.branch(to_bool_term(v))
        if isinstance(v, SDict):
            h = self.hooks.get("dict_truth")
            if h:
                return path.branch(h(self, path, v))
            raise Unsupported("truth of functional dict")
        if isinstance(v, SText):
            return any(a[0] != "lit" or a[1] for a in v.atoms) or self._text_truth(v, path)
        if isinstance(v, (Obj, Closure, ClassVal, Stub, ModRef, SCls)):
            return True
        if isinstance(v, BoundMethod) and isinstance(v.recv, SV):
            # a data attribute of an opaque object used as a condition: its truth is not known
            return path.branch(to_bool_term(SV(v.as_val())))
        return bool(v)

    def _text_truth(self, v, path):
        return False

    def e_BoolOp(self, node, env, path, merge):
        is_and = isinstance(node.op, ast.And)
        if merge:
            terms = []
            acc_guard = []
            for sub_ in node.values:
                g = z3.And(*acc_guard) if acc_guard else z3.BoolVal(True)
                with self.guard(g):
                    v = self.eval(sub_, env, path, True)
                t = to_bool_term(v)
                terms.append(t)
                acc_guard.append(t if is_and else z3.Not(t))
            return SBool(z3.And(*terms) if is_and else z3.Or(*terms))
        v = None
        for sub_ in node.values:
            v = self.eval(sub_, env, path, False)
            t = self.truth(v, path)
            if is_and and not t:
                return v
            if not is_and and t:
                return v
        return v

    def e_UnaryOp(self, node, env, path, merge):
        v = self.eval(node.operand, env, path, merge)
        if isinstance(node.op, ast.Not):
            if isinstance(v, (SV, SInt, SBool, SSeq)):
                return SBool(z3.Not(to_bool_term(v)))
            if merge:
                return SBool(z3.Not(to_bool_term(v)))
            return not self.truth(v, path)
        if isinstance(node.op, ast.USub):
            if isinstance(v, (int, float)):
                return -v
            return SInt(-to_int(v))
        raise Unsupported("unary op")

    def e_BinOp(self, node, env, path, merge):
        a = self.eval(node.left, env, path, merge)
        b = self.eval(node.right, env, path, merge)
        return self.binop(node.op, a, b, path)

    def binop(self, op, a, b, path):
        conc = lambda x: not isinstance(x, (SV, SInt, SBool, SSeq, SDict, SText, Obj))
        if conc(a) and conc(b):
            import operator
            f = {ast.Add: operator.add, ast.Sub: operator.sub, ast.Mult: operator.mul,
                 ast.FloorDiv: operator.floordiv, ast.Mod: operator.mod, ast.BitOr: operator.or_,
                 ast.BitAnd: operator.and_, ast.Div: operator.truediv}.get(type(op))
            if f is None:
                raise Unsupported(f"binop {op}")
            return f(a, b)
        if isinstance(op, ast.BitAnd) and isinstance(a, (set, frozenset)):
            raise Unsupported("set intersection with symbolic")
        if isinstance(a, (SSeq, tuple, list)) and isinstance(b, (SSeq, tuple, list)) and isinstance(op, ast.Add):
            return concat_seqs([seq_of(a), seq_of(b)], "tuple" if isinstance(a, tuple) else "list")
        x, y = to_int(a), to_int(b)
        if isinstance(op, ast.Add):
            return SInt(x + y)
        if isinstance(op, ast.Sub):
            return SInt(x - y)
        if isinstance(op, ast.Mult):
            return SInt(x * y)
        if isinstance(op, ast.FloorDiv):
            return SInt(self.floordiv(x, y))
        if isinstance(op, ast.Mod):
            return SInt(x - y * self.floordiv(x, y))
        raise Unsupported(f"binop {op} on symbolic")

    @staticmethod
    def floordiv(x, y):
        # Python floor division via SMT-LIB euclidean div: identical for y>0; for y<0 floor(x/y)=floor(-x/-y)
        return z3.If(y > 0, x / y, (-x) / (-y))

    def e_Compare(self, node, env, path, merge):
        left = self.eval(node.left, env, path, merge)
        result = None
        for op, rn in zip(node.ops, node.comparators):
            right = self.eval(rn, env, path, merge)
            r = self.compare(op, left, right, path, merge)
            result = r if result is None else self._and(result, r)
            left = right
        return result

    def _and(self, a, b):
        if isinstance(a, bool) and isinstance(b, bool):
            return a and b
        return SBool(z3.And(to_bool_term(a), to_bool_term(b)))

    def compare(self, op, a, b, path, merge=False):
        if isinstance(op, (ast.Is, ast.IsNot, ast.Eq, ast.NotEq)):
            r = self.equal(a, b, path, identity=isinstance(op, (ast.Is, ast.IsNot)))
            if not isinstance(r, (bool, SBool)):
                raise Unsupported(f"comparison of {a!r} and {b!r} has no model")
            if isinstance(op, (ast.IsNot, ast.NotEq)):
                return (not r) if isinstance(r, bool) else SBool(z3.Not(r.t))
            return r
        if isinstance(op, (ast.In, ast.NotIn)):
            r = self.contains(b, a, path)
            if not isinstance(r, (bool, SBool)):
                raise Unsupported(f"`in` on {b!r} has no model")
            if isinstance(op, ast.NotIn):
                return (not r) if isinstance(r, bool) else SBool(z3.Not(r.t))
            return r
        conc = lambda x: not isinstance(x, (SV, SInt, SBool, SSeq, SDict, Obj, SText))
        if conc(a) and conc(b):
            import operator
            return {ast.Lt: operator.lt, ast.LtE: operator.le, ast.Gt: operator.gt,
                    ast.GtE: operator.ge}[type(op)](a, b)
        x, y = to_int(a), to_int(b)
        return SBool({ast.Lt: x < y, ast.LtE: x <= y, ast.Gt: x > y, ast.GtE: x >= y}[type(op)])

    def equal(self, a, b, path, identity=False):
        h = self.hooks.get("equal")
        if h is not None:
            r = h(self, path, a, b, identity)
            if r is not _MISSING:
                return r
        sym = (SV, SInt, SBool, SSeq, SDict, Obj, SCls, SText)

        def has_sym(x):
            if isinstance(x, sym):
                return True
            if isinstance(x, (tuple, list)):
                return any(has_sym(e) for e in x)
            return False
        if not has_sym(a) and not has_sym(b):
            return (a is b) if identity else (a == b)
        if type(a) is object or type(b) is object:
            return False                        # a bare object() is a sentinel made on the spot: no program value is (or equals) it
        if identity and not isinstance(a, sym) and not isinstance(b, sym):
            return a is b                       # two host containers: identity is object identity
        if isinstance(a, (tuple, list)) and isinstance(b, (tuple, list)) and isinstance(a, tuple) != isinstance(b, tuple):
            return False                        # a tuple never equals a list
        if isinstance(a, SCls) or isinstance(b, SCls):
            return SBool(self.cls_term(a) == self.cls_term(b))
        if isinstance(a, (SInt,)) or isinstance(b, (SInt,)):
            if isinstance(a, (SInt, int)) and isinstance(b, (SInt, int)):
                return SBool(to_int(a) == to_int(b))
        if isinstance(a, Obj) and isinstance(b, Obj) and a.ident is None and b.ident is None:
            return a is b
        if isinstance(a, (SSeq, tuple, list)) and isinstance(b, (SSeq, tuple, list)):
            sa, sb = seq_of(a), seq_of(b)
            if isinstance(sa.length, int) and isinstance(sb.length, int):
                if sa.length != sb.length:
                    return False
                acc = z3.BoolVal(True)
                for k in range(sa.length):
                    acc = z3.And(acc, to_bool_term(self.equal(sa.at(k), sb.at(k), path)))
                return SBool(acc)
            raise Unsupported("== on symbolic-length sequences")
        try:
            return SBool(to_val(a) == to_val(b))
        except Unsupported:
            if isinstance(a, (SSeq, SDict, SText)) or isinstance(b, (SSeq, SDict, SText)):
                raise
            return False

    def cls_term(self, c):
        if isinstance(c, SCls):
            return c.t
        if isinstance(c, ClassVal):
            if c.pycls is None:
                raise Unsupported(f"class {c.qualname} has no runtime twin")
            return cls_const(c.pycls)
        if isinstance(c, type):
            return cls_const(c)
        if isinstance(c, z3.ExprRef) and c.sort() == Cls:
            return c
        raise Unsupported(f"not a class: {c!r}")

    def contains(self, container, item, path):
        if isinstance(container, SDict):
            return SBool(container.has(to_val(item)))
        if isinstance(container, (tuple, list, set, frozenset)) or isinstance(container, dict):
            items = list(container)
            if not isinstance(item, (SV, SInt, SBool, SCls, Obj, SText)) and not getattr(item, "host_symbolic", False):
                try:
                    return item in container
                except TypeError:
                    return any(item is x or item == x for x in items)
            acc = z3.BoolVal(False)
            for x in items:
                try:
                    acc = z3.Or(acc, to_bool_term(self.equal(item, x, path)))
                except Unsupported:
                    continue
            return SBool(acc)
        if isinstance(container, SSeq):
            if isinstance(container.length, int):
                acc = z3.BoolVal(False)
                for k in range(container.length):
                    acc = z3.Or(acc, to_bool_term(self.equal(item, container.at(k), path)))
                return SBool(acc)
            from .ground import exists_witness
            return SBool(exists_witness(path, container.length,
                                        lambda j: to_bool_term(self.equal(container.at(SInt(j)), item, path)), "in"))
        h = self.hooks.get("contains")
        if h is not None:
            return h(self, path, container, item)
        if isinstance(container, str) and isinstance(item, str):
            return item in container
        raise Unsupported(f"`in` on {container!r}")

    # ------------------------------------------------------------------ subscripts
    def e_Subscript(self, node, env, path, merge):
        obj = self.eval(node.value, env, path, merge)
        if isinstance(node.slice, ast.Slice):
            lo = self.eval(node.slice.lower, env, path, merge) if node.slice.lower else None
            hi = self.eval(node.slice.upper, env, path, merge) if node.slice.upper else None
            if node.slice.step is not None:
                raise Unsupported("slice step")
            return self.slice(obj, lo, hi, path)
        idx = self.eval(node.slice, env, path, merge)
        return self.subscript(obj, idx, path, merge)

    def slice(self, obj, lo, hi, path):
        s = seq_of(obj)
        if s is None:
            h = self.hooks.get("slice")
            if h:
                return h(self, path, obj, lo, hi)
            raise Unsupported(f"slice of {obj!r}")
        if isinstance(s.length, int) and (lo is None or isinstance(lo, int)) and (hi is None or isinstance(hi, int)) \
                and isinstance(obj, (tuple, list)):
            return obj[lo:hi]
        n = _len_term(s.length)

        def norm(b, default):
            if b is None:
                return default
            t = to_int(b)
            t = z3.If(t < 0, z3_max(t + n, z3.IntVal(0)), z3_min(t, n))
            return t
        lo_t = norm(lo, z3.IntVal(0))
        hi_t = norm(hi, n)
        length = z3.simplify(z3_max(hi_t - lo_t, z3.IntVal(0)))
        if z3.is_int_value(length):
            length = length.as_long()
        return SSeq(length, lambda i, s=s, lo_t=lo_t: s.at(SInt(z3.simplify(to_int(i) + lo_t))), s.kind,
                    (lambda i, s=s, lo_t=lo_t: s.elem_raises(SInt(to_int(i) + lo_t))) if s.elem_raises else None)

    def subscript(self, obj, idx, path, merge=False):
        if isinstance(obj, ClassVal):
            return obj
        if isinstance(obj, SDict):
            k = to_val(idx)
            has = obj.has(k)
            if merge:
                self.note_elem_raise(z3.Not(has))
                return obj.get(k)
            if path.branch(has):
                return obj.get(k)
            return self.dict_missing(obj, idx, path)
        if isinstance(obj, Obj):
            m = self.find_method(obj.cls, "__getitem__")
            if m is not None:
                return self.call_value(m.bind(obj), [idx], {}, path)
            h = self.hooks.get("obj_getitem")
            if h:
                return h(self, path, obj, idx, merge)
            raise Unsupported(f"subscript of {obj!r}")
        s = seq_of(obj)
        if s is not None:
            if isinstance(idx, int) and isinstance(s.length, int):
                if -s.length <= idx < s.length:
                    return s.at(idx % s.length if s.length else idx)
                raise PyRaise(IndexError)
            i = to_int(idx)
            n = _len_term(s.length)
            if isinstance(idx, int) and idx < 0:
                i = n + idx
            ok = z3.And(i >= 0, i < n)
            if merge:
                self.note_elem_raise(z3.Not(ok))
                return s.at(SInt(i))
            if path.branch(ok):
                return s.at(SInt(z3.simplify(i)))
            raise PyRaise(IndexError)
        if isinstance(obj, dict):
            if isinstance(idx, (SV, SInt)):
                h = self.hooks.get("concrete_dict_symkey")
                if h:
                    return h(self, path, obj, idx)
                raise Unsupported("symbolic key into concrete dict")
            try:
                return obj[idx]
            except KeyError:
                raise PyRaise(KeyError)
        if isinstance(obj, SV):
            h = self.hooks.get("sv_getitem")
            if h:
                return h(self, path, obj, idx, merge)
            raise Unsupported("subscript of opaque value")
        try:
            return obj[idx]
        except (KeyError, IndexError) as e:
            raise PyRaise(type(e))
        except TypeError:
            raise Unsupported(f"subscript {obj!r}[{idx!r}]")

    def dict_missing(self, d, key, path):
        raise PyRaise(KeyError, payload=key)

    # ------------------------------------------------------------------ misc
    def e_Lambda(self, node, env, path, merge):
        return self.make_function(node, env, env.qual + ".<lambda>", env.module)

    def e_JoinedStr(self, node, env, path, merge):
        atoms = []
        for part in node.values:
            if isinstance(part, ast.Constant):
                atoms.append(("lit", part.value))
            else:
                v = self.eval(part.value, env, path, merge)
                spec = None
                if part.format_spec is not None:
                    spec = "".join(p.value for p in part.format_spec.values if isinstance(p, ast.Constant))
                atoms.extend(self.format_value(v, spec, part.conversion, path))
        if all(a[0] == "lit" for a in atoms):
            return "".join(a[1] for a in atoms)
        return SText(atoms)

    def format_value(self, v, spec, conversion, path):
        if isinstance(v, SText) and not spec:
            return v.atoms
        if isinstance(v, str) and not spec and conversion in (-1, 115):
            return [("lit", v)]
        if isinstance(v, (int, SInt)) and not isinstance(v, bool):
            if not spec:
                return [("dec", to_int(v))]
            if spec == "06":
                return [("dec6", to_int(v))]
        h = self.hooks.get("format_value")
        if h:
            return h(self, path, v, spec, conversion)
        if isinstance(v, SV) and not spec:
            return [("opaque", v.t)]
        if not isinstance(v, (SV, SInt, SBool, SSeq, SDict, Obj)):
            return [("lit", format(v, spec or ""))]
        raise Unsupported(f"f-string of {v!r}:{spec}")

    def e_Starred(self, node, env, path, merge):
        raise Unsupported("starred expression outside display/call")

    def e_NamedExpr(self, node, env, path, merge):
        v = self.eval(node.value, env, path, merge)
        env.set(node.target.id, v)
        return v


class ItemsView:
    def __init__(self, d):
        self.d = d


class FilteredGen:
    """(elt for target in src if cond) over a symbolic-length source, consumed lazily by next()/any()."""
    host_symbolic = True

    def __init__(self, interp, node, gen, env, src, path):
        self.I, self.node, self.gen, self.env, self.src = interp, node, gen, env, src

    def _env(self, i, path):
        e2 = self.env.child()
        self.I.assign_target(self.gen.target, self.src.at(i), e2, path)
        return e2

    def pred(self, i, path):
        try:
            e2 = self._env(i, path)
            acc = z3.BoolVal(True)
            with self.I.elem_scope():
                for c in self.gen.ifs:
                    acc = z3.And(acc, to_bool_term(self.I.eval(c, e2, path, True)))
            return acc
        except Unsupported as e:
            return self.I.poison(path, e, boolean=True)

    def elt(self, i, path):
        try:
            with self.I.elem_scope():
                return self.I.eval(self.node.elt, self._env(i, path), path, True)
        except Unsupported as e:
            return self.I.poison(path, e)
